"""Bounded stand-in for the C08 functions outside the deductive reach (run under /venv/bin/python on the real
loki).  Enumerates ALL expression trees up to a stated bound, runs the real function, and compares the value
of input and output under every valuation of a grid, in exact arithmetic: reals = Fraction, integers =
truncating division.  Output: one JSON object on stdout.  Never counted as proved.

bound (quick):    depth <= 2, arity <= 2, leaves {a, b, 0, 1, 2, -1(python int, products only), 3}
                  + the structured depth-3 family nested_family() (sums with quotient / negated summands under quotients
                  and products) in both tiers
bound (thorough): depth <= 2, arity <= 3 + seeded random trees of depth 3
valuations: a, b in {-3, -1, 2, 5}; a valuation is skipped when a divisor (input or output) is zero
"""
import itertools
import json
import random
import sys
from fractions import Fraction

from loki import Scope, SymbolAttributes, BasicType
from loki.expression import symbols as sym
from loki.expression import symbolic as S
import pymbolic.primitives as pmbl

scope = Scope()
itype = SymbolAttributes(BasicType.INTEGER)
A = sym.Variable(name='a', scope=scope, type=itype)
B = sym.Variable(name='b', scope=scope, type=itype)


class ZeroDiv(Exception):
    pass


def ev(e, env, mode):
    if isinstance(e, bool):
        raise ValueError('bool')
    if isinstance(e, int):
        return e if mode == 'Z' else Fraction(e)
    if isinstance(e, float):
        if mode == 'Z':
            raise ValueError('float in integer mode')
        return Fraction(e)
    if isinstance(e, sym.IntLiteral):
        return e.value if mode == 'Z' else Fraction(e.value)
    if isinstance(e, sym.FloatLiteral):
        if mode == 'Z':
            raise ValueError('float in integer mode')
        return Fraction(e.value)
    if isinstance(e, pmbl.Sum):
        return sum((ev(c, env, mode) for c in e.children), 0 if mode == 'Z' else Fraction(0))
    if isinstance(e, pmbl.Product):
        r = 1 if mode == 'Z' else Fraction(1)
        for c in e.children:
            r = r * ev(c, env, mode)
        return r
    if isinstance(e, pmbl.Quotient):
        n, d = ev(e.numerator, env, mode), ev(e.denominator, env, mode)
        if d == 0:
            raise ZeroDiv()
        if mode == 'R':
            return n / d
        q = abs(n) // abs(d)
        return q if (n >= 0) == (d > 0) else -q
    if isinstance(e, pmbl.Power):
        b, x = ev(e.base, env, mode), ev(e.exponent, env, mode)
        if x < 0 or x != int(x) or x > 4:
            raise ValueError('exponent outside the bound')
        return b ** int(x)
    if isinstance(e, (sym.Scalar, sym.DeferredTypeSymbol)):
        return env[e.name.lower()] if mode == 'Z' else Fraction(env[e.name.lower()])
    raise ValueError('cannot evaluate %r' % type(e).__name__)


def show(e):
    if isinstance(e, (int, float)):
        return repr(e)
    if isinstance(e, sym.IntLiteral):
        return 'I(%d)' % e.value
    if isinstance(e, pmbl.Sum):
        return 'Sum(%s)' % ', '.join(show(c) for c in e.children)
    if isinstance(e, pmbl.Product):
        return 'Prod(%s)' % ', '.join(show(c) for c in e.children)
    if isinstance(e, pmbl.Quotient):
        return 'Quot(%s, %s)' % (show(e.numerator), show(e.denominator))
    if isinstance(e, pmbl.Power):
        return 'Pow(%s, %s)' % (show(e.base), show(e.exponent))
    return str(e)


def has_quotient(e):
    if isinstance(e, pmbl.Quotient):
        return True
    if isinstance(e, (pmbl.Sum, pmbl.Product)):
        return any(has_quotient(c) for c in e.children)
    if isinstance(e, pmbl.Power):
        return has_quotient(e.base) or has_quotient(e.exponent)
    return False


LEAVES = [A, B, sym.IntLiteral(0), sym.IntLiteral(1), sym.IntLiteral(2), sym.IntLiteral(3)]


def trees(depth, arity):
    if depth == 0:
        return list(LEAVES)
    sub = trees(depth - 1, arity)
    out = list(sub)
    for k in range(2, arity + 1):
        for ch in itertools.product(sub, repeat=k):
            out.append(sym.Sum(ch))
            out.append(sym.Product(ch))
    for ch in sub:
        out.append(sym.Product((-1, ch)))
    for n, d in itertools.product(sub, repeat=2):
        out.append(sym.Quotient(n, d))
    for b in sub:
        out.append(sym.Power(b, sym.IntLiteral(2)))
    return out


def nested_family():
    """depth-3 shapes the distribution functions pattern-match on: quotients whose numerator is a sum with quotient /
    negated / sum summands (in every position), and products of such sums"""
    two = sym.IntLiteral(2)
    terms = [A, B, two, sym.Quotient(A, B), sym.Quotient(B, two), sym.Product((-1, A)), sym.Sum((A, B))]
    dens = [A, B, two, sym.Product((-1, B))]
    out = []
    for k in (2, 3):
        for ch in itertools.product(terms, repeat=k):
            if k == 3 and sum(1 for c in ch if isinstance(c, (pmbl.Quotient, pmbl.Sum, pmbl.Product))) > 2:
                continue
            s_ = sym.Sum(ch)
            for d in dens:
                out.append(sym.Quotient(s_, d))
            if k == 2:
                out.append(sym.Product((A, s_)))
                out.append(sym.Product((s_, sym.Quotient(B, two))))
    # n-ary products with several sign-carrying factors / several quotient factors on one level (sign parity and the
    # collection of denominators in distribute_product)
    one = sym.IntLiteral(1)
    neg = lambda x: sym.Product((-1, x))
    signed = [neg(A), neg(B), neg(two), sym.Sum((A, neg(one))), sym.Sum((neg(B), one)), A, two]
    for k in (3, 4):
        for ch in itertools.product(signed, repeat=k):
            n = sum(1 for c in ch if c in (signed[0], signed[1], signed[2]))
            if n >= 3 or (k == 3 and sum(1 for c in ch if isinstance(c, pmbl.Sum)) == 3):
                out.append(sym.Product(ch))
    out.append(sym.Product((-1, A, -1, B, -1, two)))
    quots = [sym.Quotient(A, B), sym.Quotient(B, two), sym.Quotient(two, A), sym.Quotient(sym.Sum((A, B)), two)]
    for q1, q2 in itertools.product(quots, repeat=2):
        out.append(sym.Product((q1, q2)))
        out.append(sym.Product((q1, q2, A)))
        out.append(sym.Sum((B, sym.Product((q1, q2)))))
    for q1, q2, q3 in itertools.permutations(quots, 3):
        out.append(sym.Product((q1, q2, q3)))
    return out


def random_tree(rng, depth):
    if depth == 0 or rng.random() < 0.2:
        return rng.choice(LEAVES)
    k = rng.choice(['sum', 'prod', 'neg', 'quot', 'pow'])
    if k == 'sum':
        return sym.Sum(tuple(random_tree(rng, depth - 1) for _ in range(rng.randint(2, 3))))
    if k == 'prod':
        return sym.Product(tuple(random_tree(rng, depth - 1) for _ in range(rng.randint(2, 3))))
    if k == 'neg':
        return sym.Product((-1, random_tree(rng, depth - 1)))
    if k == 'quot':
        return sym.Quotient(random_tree(rng, depth - 1), random_tree(rng, depth - 1))
    return sym.Power(random_tree(rng, depth - 1), sym.IntLiteral(rng.choice([0, 1, 2, 3])))


GRID = [-3, -1, 2, 5]
ENVS = [{'a': x, 'b': y} for x in GRID for y in GRID]
F = S.Simplification


def functions(tier):
    fl = {
        'flatten_expr': S.flatten_expr,
        'sum_literals': S.sum_literals,
        'mul_literals': S.mul_literals,
        'div_literals': S.div_literals,
        'collect_coefficients': S.collect_coefficients,
        'distribute_product': S.distribute_product,
        'distribute_quotient': S.distribute_quotient,
        'simplify[ALL]': lambda e: S.simplify(e),
        'simplify[IntegerArithmetic]': lambda e: S.simplify(e, F.IntegerArithmetic),
        'simplify[Flatten]': lambda e: S.simplify(e, F.Flatten),
        'simplify[CollectCoefficients]': lambda e: S.simplify(e, F.CollectCoefficients),
        'simplify[Flatten|IntegerArithmetic]': lambda e: S.simplify(e, F.Flatten | F.IntegerArithmetic),
        'simplify[IntegerArithmetic|CollectCoefficients]':
            lambda e: S.simplify(e, F.IntegerArithmetic | F.CollectCoefficients),
    }
    if tier == 'thorough':
        flags = [F.Flatten, F.IntegerArithmetic, F.FloatingPointArithmetic, F.CollectCoefficients, F.LogicEvaluation]
        for r in range(0, 6):
            for combo in itertools.combinations(flags, r):
                v = F(0)
                for c in combo:
                    v |= c
                fl['simplify[%s]' % '|'.join(str(c).split('.')[-1] for c in combo)] = (lambda e, v=v: S.simplify(e, v))
    return fl


def main():
    tier = sys.argv[1] if len(sys.argv) > 1 else 'quick'
    seed = int(sys.argv[2]) if len(sys.argv) > 2 else 0
    only = sys.argv[3] if len(sys.argv) > 3 else None
    inputs = trees(2, 2 if tier == 'quick' else 2)
    if tier == 'quick':
        # quick: every tree of depth <= 1 and a deterministic 1-in-7 slice of depth 2
        d1 = trees(1, 3)
        inputs = d1 + [t for i, t in enumerate(inputs[len(trees(1, 2)):]) if i % 7 == seed % 7]
    else:
        rng = random.Random(seed)
        inputs = inputs + [random_tree(rng, 3) for _ in range(3000)]
    inputs = inputs + nested_family()
    results = []
    for fname, fn in functions(tier).items():
        if only and only not in fname:
            continue
        rec = {'name': 'bounded/' + fname, 'function': fname, 'cases': 0, 'distinct': 0, 'violationsR': [],
               'violationsZ': [], 'errors': []}
        seen = set()
        for e in inputs:
            key = show(e)
            if key in seen:
                continue
            seen.add(key)
            try:
                out = fn(e)
            except Exception as ex:      # pylint: disable=broad-except
                if len(rec['errors']) < 3:
                    rec['errors'].append({'input': key, 'error': '%s: %s' % (type(ex).__name__, ex)})
                continue
            rec['cases'] += 1
            if show(out) != key:
                rec['distinct'] += 1
            for mode in ('R', 'Z'):
                bad = None
                for env in ENVS:
                    try:
                        vi = ev(e, env, mode)
                        vo = ev(out, env, mode)
                    except ZeroDiv:
                        continue
                    except (ValueError, OverflowError):
                        break
                    if vi != vo:
                        bad = {'input': key, 'output': show(out), 'env': env, 'in_value': str(vi),
                               'out_value': str(vo), 'mode': mode, 'has_quotient': has_quotient(e)}
                        break
                if bad is not None:
                    lst = rec['violations' + mode]
                    if len(lst) < 5:
                        lst.append(bad)
                    rec['n_viol_' + mode] = rec.get('n_viol_' + mode, 0) + 1
                    if mode == 'Z' and not bad['has_quotient']:
                        rec['n_viol_Z_noquot'] = rec.get('n_viol_Z_noquot', 0) + 1
                        rec.setdefault('violationsZ_noquot', []).append(bad)
        results.append(rec)
    print(json.dumps({'tier': tier, 'seed': seed, 'inputs': len(inputs), 'results': results}))


if __name__ == '__main__':
    main()
