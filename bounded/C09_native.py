"""Bounded native cross-check for C09 (run under /venv/bin/python on the real loki): symbolic_op on every ordered pair of a
family of small integer polynomials over a, b, c - built both with the node constructors and with Python operators, so that
n-ary products with several sign-carrying factors occur - for the four order comparisons.  A definite answer must agree
with the comparison at EVERY point of an integer grid (negative values and zero included).  The deductive contract of
contracts/C09.py uses simplify() through its C08 contract; this check exercises the real simplify body behind it.
Never counted as proved.  eq / ne are left to the deductive obligations (their known finding is listed there)."""
import itertools
import json
import operator
import sys


def main():
    from loki.expression import symbols as sym
    from loki.expression.symbolic import symbolic_op
    import pymbolic.primitives as pmbl
    a, b, c = (sym.Variable(name=n) for n in 'abc')
    I = sym.IntLiteral
    neg = lambda x: sym.Product((-1, x))
    one, two = I(1), I(2)
    fam = [
        a, b, I(0), one, two, neg(a), sym.Sum((a, one)), sym.Sum((a, neg(one))), sym.Sum((a, b)), sym.Sum((a, neg(b))),
        sym.Product((two, a)), sym.Product((a, b)), sym.Product((a, a)), sym.Product((neg(a), neg(b))),
        sym.Product((neg(a), neg(b), neg(c))), sym.Product((a, b, c)), neg(sym.Product((a, b, c))),
        (-a) * (-b) * (-c), a * b * c, (a - 1) * (b - 1) * (c - 1), (1 - a) * (1 - b) * (1 - c),
        a * b * c - a * b - a * c - b * c + a + b + c, a * b * c - a * b - a * c - b * c + a + b + c - 1,
        (a - 1) * (b - 1), a * b - a - b + 1, a * b - a - b, sym.Product((-1, a, -1, b)), sym.Product((-1, a, -1, b, -1, c)),
        sym.Sum((sym.Product((a, b)), neg(sym.Product((a, b))))), (a + b) * (a - b), a * a - b * b, a * a - b * b + 1,
        2 * a + 1, a + a + 1, 2 * (a + 1) - 1,
    ]
    grid = list(itertools.product((-3, -1, 0, 1, 2, 4), repeat=3))
    ops = {'lt': operator.lt, 'le': operator.le, 'gt': operator.gt, 'ge': operator.ge}

    def value(e, env):
        # own evaluator (independent of loki's): the trees hold sums, products, variables, literals and python ints
        if isinstance(e, int):
            return e
        if isinstance(e, sym.IntLiteral):
            return int(e.value)
        if isinstance(e, pmbl.Sum):
            return sum(value(ch, env) for ch in e.children)
        if isinstance(e, pmbl.Product):
            r = 1
            for ch in e.children:
                r *= value(ch, env)
            return r
        if isinstance(e, pmbl.Power):
            return value(e.base, env) ** value(e.exponent, env)
        if isinstance(e, pmbl.Variable):
            return env[e.name.lower()]
        raise TypeError('unexpected node %r' % (e,))
    vals = []
    for e in fam:
        vals.append([int(value(e, {'a': x, 'b': y, 'c': z})) for x, y, z in grid])
    cases, bad = 0, []
    for (i, e1), (j, e2) in itertools.product(enumerate(fam), repeat=2):
        for name, op in ops.items():
            cases += 1
            try:
                r = symbolic_op(e1, op, e2)
            except TypeError:
                continue            # "cannot decide" is always allowed
            except Exception as ex:  # pylint: disable=broad-except
                bad.append({'e1': str(e1), 'op': name, 'e2': str(e2), 'error': '%s: %s' % (type(ex).__name__, ex)})
                continue
            if not isinstance(r, bool):
                continue
            for (x, y, z), v1, v2 in zip(grid, vals[i], vals[j]):
                if op(v1, v2) != r:
                    bad.append({'e1': str(e1), 'op': name, 'e2': str(e2), 'answer': r, 'at': {'a': x, 'b': y, 'c': z},
                                'values': [v1, v2]})
                    break
        if len(bad) > 20:
            break
    print(json.dumps({'cases': cases, 'violation': bool(bad), 'n_violations': len(bad), 'cex': bad[0] if bad else None}))


if __name__ == '__main__':
    sys.exit(main())
