"""Bounded native cross-check for C10 (run under /venv/bin/python on the real loki): every literal loop range with
start, stop in [-6, 6] and step in [-4, 4] \\ {0} (and no step) is run through get_pyrange, LoopRange.num_iterations,
LoopRange.normalized, iteration_number and iteration_index, and compared with the Fortran DO-loop sequence of
F2018 11.1.7.4.1.  Never counted as proved; it backs the deductive contracts up when the code leaves their subset."""
import json
import sys


def tdiv(x, y):
    q = abs(x) // abs(y)
    return q if (x >= 0) == (y > 0) else -q


def do_seq(a, b, s):
    n = max(0, tdiv(b - a + s, s))
    return [a + k * s for k in range(n)]


def main():
    from loki.expression import symbols as sym
    from loki.expression.symbolic import get_pyrange, iteration_number, iteration_index, simplify
    cases = 0
    bad = []

    def val(e):
        from loki.expression.evaluation import LokiEvaluationMapper as M
        return M()(e)

    def lit(v):
        return sym.IntLiteral(v) if v >= 0 else sym.Product((-1, sym.IntLiteral(-v)))
    for a in range(-6, 7):
        for b in range(-6, 7):
            for s in [None] + [x for x in range(-4, 5) if x != 0]:
                seq = do_seq(a, b, 1 if s is None else s)
                ch = (sym.IntLiteral(a), sym.IntLiteral(b)) + (() if s is None else (sym.IntLiteral(s),))
                ch2 = (lit(a), lit(b)) + (() if s is None else (lit(s),))
                for children, form in ((ch, 'IntLiteral'), (ch2, 'negated-literal')):
                    r = sym.LoopRange(children)
                    cases += 1
                    try:
                        if form == 'IntLiteral' and list(get_pyrange(r)) != seq:
                            bad.append({'function': 'get_pyrange', 'range': [a, b, s], 'observed': list(get_pyrange(r))[:12], 'expected': seq[:12]})
                        if seq:
                            n = val(simplify(r.num_iterations))
                            if int(n) != len(seq):
                                bad.append({'function': 'num_iterations', 'range': [a, b, s], 'form': form, 'observed': int(n), 'expected': len(seq)})
                            nr = r.normalized
                            if (int(val(nr.start)), int(val(simplify(nr.stop)))) != (1, len(seq)) or nr.step is not None:
                                bad.append({'function': 'normalized', 'range': [a, b, s], 'form': form, 'observed': str(nr), 'expected': '1:%d' % len(seq)})
                            for k, v in list(enumerate(seq))[:4]:
                                if int(val(iteration_number(lit(v), r))) != k + 1:
                                    bad.append({'function': 'iteration_number', 'range': [a, b, s], 'form': form, 'value': v, 'expected': k + 1})
                                if int(val(iteration_index(sym.IntLiteral(k + 1), r))) != v:
                                    bad.append({'function': 'iteration_index', 'range': [a, b, s], 'form': form, 'iteration': k + 1, 'expected': v})
                    except Exception as e:      # pylint: disable=broad-except
                        bad.append({'function': 'exception', 'range': [a, b, s], 'form': form, 'error': '%s: %s' % (type(e).__name__, e)})
                    if len(bad) > 20:
                        break
    print(json.dumps({'cases': cases, 'violation': bool(bad), 'n_violations': len(bad), 'cex': bad[0] if bad else None}))


if __name__ == '__main__':
    main()
