"""Bounded stand-in for SchedulerConfig.match_item_keys (used only when a deductive obligation is left
undecided): all case permutations (per '#'/'%'-separated piece: lower / UPPER / Capitalised) of a fixed set of
item names and keys; the matches must not depend on the spelling.  Run under /venv/bin/python."""
import itertools
import json
import sys


def variants(name):
    import re
    pieces = re.split(r'([#%])', name)
    opts = []
    for p in pieces:
        if p in '#%':
            opts.append([p])
        else:
            opts.append(sorted({p.lower(), p.upper(), p.capitalize()}))
    return [''.join(x) for x in itertools.product(*opts)]


def main():
    from loki.batch import SchedulerConfig
    names = ['sub', 'mod#sub', 'mod#typ%member', 'mod#typ%a%b']
    keys = ['sub', 'mod#sub', 'mod', 'typ', 'typ%member', 'mod#typ', 'typ%a', 'other']
    cases, bad = 0, None
    patterns = ['su*', 'mod#*', '*%member', 'typ%*', 'mod#typ%?', 'oth*']
    for parents, patt in ((False, False), (True, False), (False, True), (True, True)):
        for n in names:
            for k in keys + (patterns if patt else []):
                ref = None
                for nv in variants(n):
                    for kv in variants(k):
                        r = tuple(x.lower() for x in SchedulerConfig.match_item_keys(nv, [kv], patt, parents))
                        cases += 1
                        if ref is None:
                            ref = (r, nv, kv)
                        elif r != ref[0] and bad is None:
                            bad = {'function': 'match_item_keys', 'name_a': ref[1], 'key_a': ref[2], 'name_b': nv,
                                   'key_b': kv, 'match_item_parents': parents, 'use_pattern_matching': patt, 'run_a': list(ref[0]), 'run_b': list(r)}
    print(json.dumps({'cases': cases, 'violation': bad is not None, 'cex': bad}))


if __name__ == '__main__':
    main()
