"""Bounded native metamorphic check for C23 (run under /venv/bin/python on the real loki): one small multi-file project is
written in several spellings that differ ONLY in the letter case of Fortran names (at definitions, in USE ... ONLY lists, at
call sites, in type-bound calls) and of configuration entries; the Scheduler is run on each; dependency graph (item kinds,
names, edges) and processing order must agree up to letter case.  Bounded, never counted as proved."""
import json
import re
import sys
import tempfile
import shutil
from pathlib import Path

SRC = {
    'type_mod.F90': """
module type_mod
  implicit none
  integer, parameter :: nmax = 5
  type my_type
    integer :: a
  contains
    procedure :: bump => bump_impl
  end type my_type
  interface gen_op
    module procedure op_int
  end interface gen_op
contains
  function my_func(x) result(y)
    integer, intent(in) :: x
    integer :: y
    y = 2*x
  end function my_func
  subroutine bump_impl(this)
    class(my_type), intent(inout) :: this
    this%a = this%a + 1
  end subroutine bump_impl
  subroutine op_int(i)
    integer, intent(inout) :: i
    i = i + 1
  end subroutine op_int
end module type_mod
""",
    'kernel_mod.F90': """
module kernel_mod
  implicit none
contains
  subroutine kernel_a(n)
    use type_mod, only: my_type, my_func, nmax, gen_op
    use util_mod, only: helper
    integer, intent(inout) :: n
    type(my_type) :: obj
    obj%a = my_func(n) + nmax
    call obj%bump()
    call helper(n)
    call gen_op(n)
  end subroutine kernel_a
  subroutine kernel_b(n)
    use util_mod, only: helper, blocked_one
    integer, intent(inout) :: n
    call helper(n)
    call blocked_one(n)
  end subroutine kernel_b
end module kernel_mod
""",
    'util_mod.F90': """
module util_mod
  implicit none
contains
  subroutine helper(n)
    integer, intent(inout) :: n
    n = n + 1
  end subroutine helper
  subroutine blocked_one(n)
    integer, intent(inout) :: n
    n = n - 1
  end subroutine blocked_one
end module util_mod
""",
    'driver.F90': """
subroutine driver(n)
  use kernel_mod, only: kernel_a, kernel_b
  implicit none
  integer, intent(inout) :: n
  call kernel_a(n)
  call kernel_b(n)
end subroutine driver
""",
}
NAMES = ['type_mod', 'my_type', 'my_func', 'nmax', 'bump_impl', 'bump', 'gen_op', 'op_int', 'kernel_mod', 'kernel_a',
         'kernel_b', 'util_mod', 'helper', 'blocked_one', 'driver', 'obj']


def respell(text, how, salt):
    """rewrite every occurrence of a project name; `how` decides per occurrence: lower, upper, capitalised or mixed"""
    count = [salt]

    def sub(m):
        count[0] += 1
        w = m.group(0)
        k = how if how != 'mixed' else ('lower', 'upper', 'cap')[count[0] % 3]
        return {'lower': w.lower(), 'upper': w.upper(), 'cap': w.capitalize()}[k]
    return re.sub(r'\b(%s)\b' % '|'.join(NAMES), sub, text, flags=re.I)


def run(spelling, cfg_spelling, tmp):
    from loki import Scheduler, SchedulerConfig, Transformation
    from loki.frontend import FP
    d = Path(tmp) / ('%s_%s' % (spelling, cfg_spelling))
    d.mkdir()
    for k, (name, src) in enumerate(SRC.items()):
        (d / name).write_text(respell(src, spelling, k))
    cs = {'lower': str.lower, 'upper': str.upper, 'cap': str.capitalize, 'mixed': str.title}[cfg_spelling]
    config = SchedulerConfig.from_dict({
        'default': {'role': 'kernel', 'expand': True, 'strict': False, 'enable_imports': True,
                    'block': [cs('blocked_one')], 'disable': []},
        'routines': {cs('driver'): {'role': 'driver'}, cs('kernel_b'): {'ignore': [cs('helper')]}}})
    sched = Scheduler(paths=[d], config=config, seed_routines=[cs('driver')], frontend=FP, xmods=[d])
    items = sorted((type(i).__name__, i.name.lower(), bool(i.is_ignored), i.role) for i in sched.items)
    edges = sorted((a.name.lower(), b.name.lower()) for a, b in sched.dependencies)
    order = []

    class Probe(Transformation):
        def transform_subroutine(self, routine, **kw):
            order.append((kw['item'].name.lower(), routine.name.lower(), kw.get('role'),
                          tuple(sorted(str(t).lower() for t in kw.get('targets') or ()))))
    sched.process(Probe())
    # order only up to the graph's own partial order: compare as sets plus the relative order along edges
    pos = {n: k for k, (n, *_r) in enumerate(order)}
    bad_order = [(a, b) for a, b in edges if a in pos and b in pos and pos[a] > pos[b]]
    return {'items': items, 'edges': edges, 'applied': sorted(order), 'order_violations': bad_order}


def main():
    tmp = tempfile.mkdtemp(prefix='c23_', dir='/var/tmp')
    cases, bad = 0, []
    try:
        ref = run('lower', 'lower', tmp)
        if not ref['edges'] or ref['order_violations']:
            bad.append({'what': 'reference run is degenerate', 'ref': ref})
        for spelling in ('upper', 'cap', 'mixed'):
            for cfg in ('lower', 'upper', 'mixed'):
                cases += 1
                try:
                    got = run(spelling, cfg, tmp)
                except Exception as e:      # pylint: disable=broad-except
                    bad.append({'sources': spelling, 'config': cfg, 'error': '%s: %s' % (type(e).__name__, e)})
                    continue
                for key in ('items', 'edges', 'applied', 'order_violations'):
                    if got[key] != ref[key]:
                        missing = [x for x in ref[key] if x not in got[key]][:4]
                        extra = [x for x in got[key] if x not in ref[key]][:4]
                        bad.append({'sources': spelling, 'config': cfg, 'differs': key, 'missing': missing, 'extra': extra})
                        break
        cases += 1
    finally:
        shutil.rmtree(tmp, ignore_errors=True)
    print(json.dumps({'cases': cases, 'violation': bool(bad), 'n_violations': len(bad), 'cex': bad[0] if bad else None,
                      'reference_items': len(ref['items']), 'reference_edges': len(ref['edges'])}, default=str))


if __name__ == '__main__':
    sys.exit(main())
