"""C03 - conservative output reproduces unmodified source verbatim (DESIGN section 4 C03; second sentence of the property).

"Every node whose source is still marked valid is emitted with its original text":
* DISPATCH.  For every IR node class (class statements of loki/ir/nodes/*.py; MRO computed by Python on a mechanical
  mirror of the class graph) the handler that GenericVisitor.lookup_method selects on a FortranCodegenConservative
  instance is resolved from the real class statements of the visitor chain (FortranCodegenConservative, FortranCodegen,
  Stringifier, Visitor): class name first, then the names along the node's MRO; the most derived visitor class defining
  that visit_<Name> wins.  Obligation: the selected handler is one that FortranCodegenConservative defines - a
  visit_<Name> inherited from FortranCodegen shadows the conservative visit_Node and regenerates the text.
* HANDLERS.  Every visit_* method FortranCodegenConservative defines is executed from its real source on a node whose
  Source has status VALID: it must return exactly o.source.string, without visiting any child (the documented
  exception: an inline comment returns only the comment part).
* STATUS.  Source.invalidate / is_valid / clone (real source) against the three-state SourceStatus; a clone is a new
  object with the same status, invalidating it does not touch the original.  (Transformer._rebuild clones before it
  invalidates: C14.)"""
import ast
import os
import z3
from pyvc import vcrt, rewrite
from pyvc.runner import FunctionSpec
from pyvc.inline import inline
from pyvc.values import Theory, SStr, mk_str, as_str_term
from pyvc.core import ctx, OutOfSubset, CheckerError

PROP = 'C03'
CON = 'loki/backend/fgencon.py'
VIS = [('FortranCodegenConservative', CON), ('FortranCodegen', 'loki/backend/fgen.py'), ('Stringifier', 'loki/backend/pprint.py'),
       ('Visitor', 'loki/ir/visitor.py'), ('GenericVisitor', 'loki/ir/visitor.py')]
NODE_FILES = ['loki/ir/nodes/abstract_nodes.py', 'loki/ir/nodes/internal_nodes.py', 'loki/ir/nodes/leaf_nodes.py',
              'loki/ir/nodes/stmt_nodes.py']
SRC = 'loki/frontend/source.py'
T = Theory('conservative', [])
S = z3.StringSort()


def visitor_handlers():
    """visit_<Name> -> the most derived visitor class that defines it (plain defs and `visit_a = visit_b` aliases)"""
    out = {}
    for cls, file in reversed(VIS):
        tree = ast.parse(rewrite.read_source(file))
        node, _ = rewrite.find_def(tree, cls)
        for st in node.body:
            if isinstance(st, ast.FunctionDef) and st.name.startswith('visit_'):
                out[st.name[6:]] = (cls, st.name)
            if isinstance(st, ast.Assign):
                for t in st.targets:
                    if isinstance(t, ast.Name) and t.id.startswith('visit_') and isinstance(st.value, ast.Name):
                        out[t.id[6:]] = (cls, st.value.id)
    return out


def node_classes():
    """name -> python mirror class (only the base-class graph matters: Python computes the MRO)"""
    decl = {}
    for f in NODE_FILES:
        for n in ast.parse(rewrite.read_source(f)).body:
            if isinstance(n, ast.ClassDef):
                decl[n.name] = [ast.unparse(b).split('.')[-1] for b in n.bases]
    built = {}

    def build(name):
        if name in built:
            return built[name]
        bases = tuple(build(b) for b in decl.get(name, []) if b in decl)
        built[name] = type(name, bases or (object,), {})
        return built[name]
    for n in decl:
        build(n)
    concrete = [n for n in decl if not n.startswith('_') and any(k.__name__ == 'Node' for k in built[n].__mro__)
                and n not in ('Node', 'InternalNode', 'LeafNode', 'ScopedNode')]
    return built, sorted(concrete)


def resolve(name, built, handlers):
    for k in built[name].__mro__:
        if k.__name__ in handlers:
            return k.__name__, handlers[k.__name__]
    return None, (None, None)


class SourceStatus:
    VALID, INVALID_NODE, INVALID_CHILDREN = 'VALID', 'INVALID_NODE', 'INVALID_CHILDREN'


class SourceTok:
    def __init__(self, status, string):
        self.status, self.string, self.lines = status, string, (1, 1)

    def __bool__(self):
        return True


class NodeTok:
    def __init__(self, source):
        self.source = source
        self.touched = []

    def __getattr__(self, name):
        if name.startswith('__'):
            raise AttributeError(name)
        self.__dict__.setdefault('touched', []).append(name)
        raise OutOfSubset('a handler on a VALID node reads o.%s' % name)


class SelfCon:
    def __init__(self):
        self.visited = []

    def visit(self, o, **kw):
        self.visited.append(o)
        return '<regenerated>'


def _sha(file, qual):
    src = rewrite.read_source(file)
    node, _ = rewrite.find_def(ast.parse(src), qual)
    return rewrite.sha(rewrite.func_text(src, node))


def _mk(file, qual, setup, post, run, variant=None, sha_qual=None):
    sp = FunctionSpec(PROP, file, qual, {}, setup, post, theory=T, variant=variant, lemmas=[], ext=False,
                      decode=lambda env, m, r: {'function': qual, 'variant': variant})
    sp.fn_override = run
    sp.fn_info = {'file': file, 'qualname': qual, 'sha': _sha(file, sha_qual or qual), 'loops': {}, 'dropped': []}
    return sp


def spec_dispatch(name, built, handlers):
    def setup(spec):
        env = {}
        return (env,), {}, env

    def run(env):
        return resolve(name, built, handlers)

    def post(env, r):
        key, (cls, meth) = r
        return [('a-handler-is-found', z3.BoolVal(cls is not None)),
                ('valid-source-is-honoured [%s.%s]' % (cls, meth), z3.BoolVal(cls == 'FortranCodegenConservative'))]
    sp = _mk(CON, 'FortranCodegenConservative', setup, post, run, variant='handler selected for %s' % name,
             sha_qual='FortranCodegenConservative')
    sp.decode = lambda env, m, r: {'function': 'dispatch', 'node_class': name}
    return sp


def spec_handler(meth, comment_text=None):
    fn = inline(CON, 'FortranCodegenConservative.' + meth, {'SourceStatus': SourceStatus})

    def setup(spec):
        c = ctx()
        text = mk_str(c.fresh(S, 'source_string'))
        if meth == 'visit_Comment':       # string splitting on '!': two concrete shapes instead of a symbolic text
            text = comment_text
        o = NodeTok(SourceTok(SourceStatus.VALID, text))
        env = {'o': o, 'text': text, 'me': SelfCon()}
        return (env,), {}, env

    def run(env):
        return fn(env['me'], env['o'])

    def post(env, r):
        if meth == 'visit_Comment':
            # inline comment: "<code> ! text" -> only the comment with its leading blanks; otherwise verbatim
            want = '  ! inline' if comment_text.startswith('x') else comment_text
            return [('comment-text-from-source', z3.BoolVal(r == want)), ('no-child-visited', z3.BoolVal(not env['me'].visited))]
        same = r is env['text'] or (isinstance(r, SStr) and r.t.eq(env['text'].t))
        return [('valid-node-is-emitted-verbatim', z3.BoolVal(bool(same))),
                ('no-child-visited', z3.BoolVal(not env['me'].visited))]
    sp = _mk(CON, 'FortranCodegenConservative.' + meth, setup, post, run,
             variant='source VALID' + ('' if comment_text is None else ' %r' % comment_text))
    sp._super = lambda clsname, obj: (_ for _ in ()).throw(OutOfSubset('a VALID node fell through to the regenerating handler'))
    return sp


class _SrcSelf:
    def __init__(self, status):
        self.status, self.string, self.lines, self.file = status, 'TEXT', (3, 4), 'f.F90'


def spec_source_status(status0):
    g = {'SourceStatus': SourceStatus}
    inval = inline(SRC, 'Source.invalidate', g)
    valid = inline(SRC, 'Source.is_valid', g)
    clone = inline(SRC, 'Source.clone', g)

    def setup(spec):
        env = {}
        return (env,), {}, env

    def run(env):
        class Src(_SrcSelf):
            def __init__(self, **kw):
                self.__dict__.update(kw)
        s = Src(status=status0, string='TEXT', lines=(3, 4), file='f.F90')
        c = clone(s)
        r = {'valid0': valid(s), 'clone_is_new': c is not s, 'clone_same': (c.status, c.string, c.lines, c.file) == (s.status, s.string, s.lines, s.file)}
        inval(c, children=True)
        r['after_children'] = (c.status, valid(c), s.status)
        c2 = clone(s)
        inval(c2)
        r['after_node'] = (c2.status, valid(c2), s.status)
        return r

    def post(env, r):
        B = z3.BoolVal
        return [('is_valid-iff-VALID', B(r['valid0'] == (status0 == SourceStatus.VALID))),
                ('clone-is-a-new-object-with-the-same-content', B(r['clone_is_new'] and r['clone_same'])),
                ('invalidate(children)-marks-INVALID_CHILDREN-and-leaves-the-original', B(r['after_children'] == (SourceStatus.INVALID_CHILDREN, False, status0))),
                ('invalidate()-marks-INVALID_NODE-and-leaves-the-original', B(r['after_node'] == (SourceStatus.INVALID_NODE, False, status0)))]
    return _mk(SRC, 'Source.invalidate', setup, post, run, variant='with is_valid / clone, initial status %s' % status0)


COND_CASES = {
    'simple': ["  if (a > b) then", "    x = 1", "  else", "    x = 2", "  end if"],
    'nested if / else if without else in the ELSE branch': ["if (a > b) then", "  x = 1", "else", "  if (c) then", "    x = 2",
                                                            "  else if (d) then", "    x = 3", "  end if", "end if"],
    'nested if / else in the THEN branch': ["IF (a > b) THEN", "  if (c) then", "    x = 1", "  else", "    x = 2", "  end if",
                                            "ELSE", "  x = 3", "ENDIF"],
}


def spec_conditional_children_invalid(case):
    """visit_Conditional on a node whose own text is intact but whose children changed (INVALID_CHILDREN): header, the
    ELSE line of THIS conditional and the footer are taken from the source, the bodies are regenerated"""
    fn = inline(CON, 'FortranCodegenConservative.visit_Conditional', {'SourceStatus': SourceStatus})
    lines = COND_CASES[case]

    def setup(spec):
        env = {}
        return (env,), {}, env

    def run(env):
        class Style:
            conditional_indent = 2

        class Me:
            depth, style = 0, Style()

            def visit(self, o, **kw):
                return '<%s>' % o

            def join_lines(self, *parts):
                return list(parts)
        o = NodeTok(SourceTok(SourceStatus.INVALID_CHILDREN, '\n'.join(lines)))
        o.source.lines = (10, 10 + len(lines) - 1)
        o.__dict__.update(inline=False, has_elseif=False, body='BODY', else_body='ELSE_BODY')
        return fn(Me(), o)

    def post(env, r):
        outer_else = [l for l in lines if l.strip().upper() == 'ELSE' and (len(l) - len(l.lstrip())) == (len(lines[0]) - len(lines[0].lstrip()))]
        want = [lines[0], '<BODY>', outer_else[-1], '<ELSE_BODY>', lines[-1]]
        return [('header-else-and-footer-of-this-conditional-from-source', z3.BoolVal(isinstance(r, list) and [x.strip() for x in r] == [x.strip() for x in want])),
                ('else-keyword-line-is-an-ELSE', z3.BoolVal(isinstance(r, list) and len(r) == 5 and r[2].strip().upper() == 'ELSE'))]
    return _mk(CON, 'FortranCodegenConservative.visit_Conditional', setup, post, run, variant='children invalid: %s' % case)


_SPECS = {}
POOL_REUSE = True


def rebuild_specs():
    """invalidation on rebuild (second sentence of the property: an edited node is regenerated): Transformer._rebuild must
    hand the result an invalidated clone of the source whenever a child node was rebuilt - in place or not.  The specs
    live in contracts/C14.py (same token model) and are an obligation of both properties."""
    import builtins
    builtins._PYVC_SHARED_THEORY = T
    from contracts import C14
    out = []
    for kinds in ('', 'n', 'N', 't', 'nN', 'Nn', 'NN', 'tn'):
        sp = C14.spec_rebuild(kinds)
        sp.prop, sp.theory = PROP, T
        out.append(sp)
    return out


def specs(tier='quick'):
    if tier in _SPECS:
        return _SPECS[tier]
    built, concrete = node_classes()
    handlers = visitor_handlers()
    out = [spec_dispatch(n, built, handlers) for n in concrete]
    con_methods = [m for k, (c, m) in handlers.items() if c == 'FortranCodegenConservative']
    out += [spec_handler(m) for m in sorted(set(con_methods)) if m != 'visit_Comment']
    out += [spec_handler('visit_Comment', t) for t in ('    ! a full-line comment', 'x = 1  ! inline', '!')]
    out += [spec_source_status(s) for s in (SourceStatus.VALID, SourceStatus.INVALID_NODE, SourceStatus.INVALID_CHILDREN)]
    out += [spec_conditional_children_invalid(c) for c in COND_CASES]
    out += rebuild_specs()
    _SPECS[tier] = out
    return out


META = {
    'category': 'other',
    'technique': 'contract-based deductive verification (pyvc): visitor dispatch resolved mechanically from the class '
                 'statements for every IR node class; the conservative handlers and the Source status methods executed from '
                 'their real source',
    'level_text': 'For each of the IR node classes the handler that lookup_method selects on a FortranCodegenConservative '
                  'instance is computed from the real class statements (node MRO by Python on a mirror of the class graph; '
                  'visitor chain FortranCodegenConservative > FortranCodegen > Stringifier > Visitor) and must be one that '
                  'honours a VALID source; each of the visit_* methods FortranCodegenConservative defines is executed from '
                  'its real source on a node with a VALID source of arbitrary text and returns exactly that text without '
                  'visiting a child (inline comments: the comment part); Source.invalidate / is_valid / clone follow the '
                  'three-state status and never touch the object they were cloned from. Transformer._rebuild (the specs of contracts/C14.py, an obligation of both properties) invalidates the source of a node whose child node was rebuilt, in place or not.',
    'level_note': 'Known finding: 37 node classes (WhileLoop, MultiConditional, TypeConditional, MaskedStatement, Associate, '
                  'TypeDef, Interface, Allocation, Deallocation, Nullify, the GenericStmt family, ...) are dispatched to '
                  'regenerating handlers of FortranCodegen / Stringifier that shadow the conservative visit_Node, so a still '
                  'VALID node of these classes is regenerated once its parent is invalidated (replayed natively). Partial by '
                  'design (DESIGN section 4): the first sentence of the property (unmodified file = original text) depends on '
                  'what the frontend stored in Source.string and on Module / Sourcefile units, which are not IR node classes; '
                  'the INVALID_NODE / INVALID_CHILDREN reconstruction paths and in-place edits that never touch `source` are '
                  'unverified and named. Invalidation on rebuild is C14 (_rebuild clones before it invalidates).',
    'trusted_base': ['pyvc engine', 'GenericVisitor.lookup_method rule (class name, then MRO names) as re-implemented in the sidecar',
                     'inspect.getmembers handler collection'],
    'assumptions': ['handlers are plain methods or `visit_a = visit_b` aliases in the class bodies'],
}
