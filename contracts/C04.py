"""C04 - line wrapping respects the line width without altering tokens (DESIGN section 4 C04, as built: 0.2).

Strings are abstracted to sequences of opaque ATOMS with symbolic integer lengths (class AStr): concatenation, len(), equality,
f-strings and ''.join are exact on that abstraction; what is lost is the character content inside an atom.  An item is a
sequence of 1..3 chunk atoms - the pieces between which JoinableStringList may break (ASSUMED of
_pattern_chunk_separator.split / _pattern_quoted_string.finditer: the pieces concatenate to the item, in order).  The real
JoinableStringList._add_item_to_line and _to_str are executed on such strings for ALL lengths and ALL widths:

  width    every emitted line is at most `width` long, or is `cont[1] + one chunk (+ cont[0])` (a single unbreakable token), or
           is the over-long line the caller handed in;
  content  dropping the continuation atoms from the emitted lines gives exactly the incoming line followed by the item's
           chunks, in order (nothing dropped, duplicated or reordered)."""
import z3
from pyvc.runner import FunctionSpec
from pyvc.inline import inline
from pyvc.values import Theory, mk_bool, mk_int, as_bool_term
from pyvc.core import ctx, OutOfSubset

PROP = 'C04'
F = 'loki/tools/strings.py'
T = Theory('strings4', [])


class AStr(str):
    """a string as a tuple of atoms (tag, length term); the str value is only a rendering for messages"""
    def __new__(cls, atoms=()):
        atoms = tuple(atoms)
        o = str.__new__(cls, ''.join('<%s>' % a[0] for a in atoms))
        o.atoms = atoms
        return o

    def __vc_len__(self):
        return mk_int(z3.Sum([a[1] for a in self.atoms]) if self.atoms else z3.IntVal(0))

    def length(self):
        return z3.Sum([a[1] for a in self.atoms]) if self.atoms else z3.IntVal(0)

    def __add__(self, o):
        return AStr(self.atoms + _atoms(o))

    def __radd__(self, o):
        return AStr(_atoms(o) + self.atoms)

    def __eq__(self, o):
        if isinstance(o, AStr):
            return tuple(a[0] for a in self.atoms) == tuple(a[0] for a in o.atoms)
        if isinstance(o, str):
            if o == '':
                return not self.atoms
            raise OutOfSubset('abstract string compared with the literal %r' % o)
        return NotImplemented

    def __ne__(self, o):
        r = self.__eq__(o)
        return r if r is NotImplemented else not r

    __hash__ = str.__hash__

    def __bool__(self):
        return bool(self.atoms)

    def __getitem__(self, k):
        if isinstance(k, slice) and k.start in (0, None) and k.stop is None and k.step is None:
            return self
        raise OutOfSubset('slice %r of an abstract string' % (k,))

    def __repr__(self):
        return 'AStr(%s)' % ','.join(a[0] for a in self.atoms)


def _atoms(o):
    if isinstance(o, AStr):
        return o.atoms
    if isinstance(o, str) and o == '':
        return ()
    raise OutOfSubset('abstract string combined with %r' % (o,))


def str_hook(name, recv, args, kw):
    if name == '__fstr__':
        (parts,) = args
        if any(isinstance(p, AStr) for p in parts):
            out = ()
            for p in parts:
                out += _atoms(p)
            return AStr(out)
        return NotImplemented
    if name == 'join':
        (items,) = args
        items = list(items)
        if isinstance(recv, AStr) or any(isinstance(i, AStr) for i in items):
            out = ()
            for n, i in enumerate(items):
                if n:
                    out += _atoms(recv)
                out += _atoms(i)
            return AStr(out)
    return NotImplemented


class _NoQuotes:
    """_pattern_quoted_string: ASSUMED - the item holds no quoted string (a quoted string is one more unbreakable chunk)"""
    @staticmethod
    def finditer(s):
        return []


class _Chunks:
    """_pattern_chunk_separator.split(s): the chunk atoms of s, in order (ASSUMED: the pieces concatenate to s)"""
    @staticmethod
    def split(s):
        if not isinstance(s, AStr):
            raise OutOfSubset('split(%r)' % (s,))
        return [AStr((a,)) for a in s.atoms]


class JSL:
    """`self`: a JoinableStringList whose methods are the real functions"""
    _pattern_quoted_string = _NoQuotes
    _pattern_chunk_separator = _Chunks

    def __init__(self, items, sep, width, cont, separable=True):
        self.items, self.sep, self.width, self.cont, self.separable = list(items), sep, width, list(cont), separable


_G = {}
JSL._add_item_to_line = inline(F, 'JoinableStringList._add_item_to_line', _G)
JSL._to_str = inline(F, 'JoinableStringList._to_str', _G)


def _sha(qual):
    import ast
    from pyvc import rewrite
    src = rewrite.read_source(F)
    node, _ = rewrite.find_def(ast.parse(src), qual)
    return rewrite.sha(rewrite.func_text(src, node))


def _atom(tag, lo=0):
    c = ctx()
    t = c.fresh(z3.IntSort(), 'len_' + tag)
    c.assume(t >= lo)
    return (tag, t)


def _world():
    """width, cont = (c0, c1) with the invariant JoinableStringList.__init__ establishes: both shorter than width"""
    c = ctx()
    width = c.fresh(z3.IntSort(), 'width')
    c0, c1 = _atom('c0'), _atom('c1')
    c.assume(z3.And(c0[1] < width, c1[1] < width, width >= 1))
    return width, c0, c1


def _split_lines(atoms, c0tag):
    """emitted text -> physical lines: a line ends with the c0 atom"""
    lines, cur = [], []
    for a in atoms:
        cur.append(a)
        if a[0] == c0tag:
            lines.append(cur)
            cur = []
    return lines, cur


def _line_ok(line_atoms, width, c0, c1, inherited=None, last=False):
    """a physical line (incl. its trailing c0 if any; `last`: the open line, which must leave room for c0)"""
    tags = tuple(a[0] for a in line_atoms)
    length = z3.Sum([a[1] for a in line_atoms]) if line_atoms else z3.IntVal(0)
    fits = (length + c0[1] <= width) if last else (length <= width)
    body = tags[:-1] if (tags and tags[-1] == 'c0' and not last) else tags
    single = len(body) == 2 and body[0] == 'c1'            # continuation marker + one unbreakable chunk
    inh = inherited is not None and body == inherited      # the over-long line the caller handed in, unchanged
    return z3.Or(fits, z3.BoolVal(single or inh))


def _content(atoms):
    return tuple(a[0] for a in atoms if a[0] not in ('c0', 'c1'))


def _mk(qual, setup, post, run, variant):
    sp = FunctionSpec(PROP, F, qual, {}, setup, post, theory=T, variant=variant, lemmas=[], ext=False,
                      decode=lambda env, m, r: {'function': qual, 'variant': variant,
                                                'lengths': {str(d): str(m[d]) for d in m.decls() if str(d).startswith(('len_', 'width'))}},
                      budgets=(2_000_000, 2_000_000, 0, 4_000_000, 3_000_000, 8000))
    sp.fn_override = run
    sp.str_hook = str_hook
    sp.fn_info = {'file': F, 'qualname': qual, 'sha': _sha(qual), 'loops': {}, 'dropped': []}
    return sp


def spec_add_item(nchunks, line_kind):
    """line_kind: 'text' (one atom that leaves room for c0), 'fresh' (exactly c1), 'token' (c1 + one over-long chunk)"""
    def setup(spec):
        c = ctx()
        width, c0, c1 = _world()
        if line_kind == 'text':
            l0 = _atom('line')
            c.assume(l0[1] + c0[1] <= width)
            line = AStr((l0,))
        elif line_kind == 'fresh':
            line = AStr((c1,))
        else:
            line = AStr((c1, _atom('tok', 1)))
        item = AStr(tuple(_atom('chunk%d' % i) for i in range(nchunks)))
        c.assume(item.length() >= 1)
        me = JSL([], AStr((_atom('sep'),)), mk_int(width), [AStr((c0,)), AStr((c1,))])
        env = {'me': me, 'line': line, 'item': item, 'width': width, 'c0': c0, 'c1': c1}
        return (env,), {}, env

    def run(env):
        return env['me']._add_item_to_line(env['line'], env['item'])

    def post(env, r):
        new_line, lines = r
        width, c0, c1 = env['width'], env['c0'], env['c1']
        inherited = tuple(a[0] for a in env['line'].atoms) if line_kind == 'token' else None
        out = []
        ok = [z3.BoolVal(all(isinstance(l, AStr) for l in lines) and isinstance(new_line, AStr))]
        for l in lines:
            ok.append(z3.BoolVal(bool(l.atoms) and l.atoms[-1][0] == 'c0'))
            ok.append(_line_ok(l.atoms, width, c0, c1, inherited))
        out.append(('every-emitted-line-fits-or-is-one-unbreakable-token', z3.And(ok)))
        out.append(('open-line-leaves-room-for-the-continuation-or-is-one-unbreakable-token',
                    _line_ok(new_line.atoms, width, c0, c1, inherited, last=True)))
        emitted = tuple(a for l in lines for a in l.atoms) + new_line.atoms
        want = _content(env['line'].atoms) + tuple(a[0] for a in env['item'].atoms)
        out.append(('continuation-markers-removed-gives-the-same-chunks-in-order', z3.BoolVal(_content(emitted) == want)))
        out.append(('new-lines-start-with-the-continuation-marker',
                    z3.BoolVal(all(l2.atoms[0][0] == 'c1' for l2 in list(lines[1:]) + ([new_line] if lines else [])))))
        return out
    return _mk('JoinableStringList._add_item_to_line', setup, post, run, '%d chunk(s), line=%s' % (nchunks, line_kind))


def spec_to_str(nitems, first_line):
    """items: single-chunk strings; first_line: 'empty' ('' as in __str__) or 'text' (an indented start as in format_line)"""
    def setup(spec):
        c = ctx()
        width, c0, c1 = _world()
        items = [AStr((_atom('item%d' % i, 1),)) for i in range(nitems)]
        if first_line == 'text':
            l0 = _atom('line')
            c.assume(l0[1] + c0[1] <= width)
            line = AStr((l0,))
        else:
            line = ''
        me = JSL(items, AStr((_atom('sep'),)), mk_int(width), [AStr((c0,)), AStr((c1,))])
        env = {'me': me, 'line': line, 'items': items, 'width': width, 'c0': c0, 'c1': c1}
        return (env,), {}, env

    def run(env):
        return env['me']._to_str(line=env['line'])

    def post(env, r):
        text, rest = r
        width, c0, c1 = env['width'], env['c0'], env['c1']
        if not isinstance(text, AStr):
            return [('returns-the-joined-text', z3.BoolVal(False))]
        lines, last = _split_lines(text.atoms, 'c0')
        ok = [_line_ok(l, width, c0, c1) for l in lines] + [_line_ok(last, width, c0, c1, last=True)]
        want = _content(_atoms(env['line']))
        for i, it in enumerate(env['items']):
            want += tuple(a[0] for a in it.atoms) + (('sep',) if i + 1 < len(env['items']) else ())
        return [('nothing-left-over', z3.BoolVal(rest is None)),
                ('every-line-fits-or-is-one-unbreakable-token', z3.And(ok)),
                ('continuation-markers-removed-gives-the-items-and-separators-in-order', z3.BoolVal(_content(text.atoms) == want))]
    return _mk('JoinableStringList._to_str', setup, post, run, '%d item(s), line=%s' % (nitems, first_line))


def specs(tier='quick'):
    out = []
    for n in (1, 2, 3):
        for kind in ('text', 'fresh', 'token'):
            out.append(spec_add_item(n, kind))
    for n in (1, 2, 3):
        for fl in ('empty', 'text'):
            out.append(spec_to_str(n, fl))
    return out


META = {
    'category': 'other',
    'technique': 'contract-based deductive verification (pyvc): the real wrapping code executed on strings abstracted to atom '
                 'sequences with symbolic integer lengths; width and content clauses discharged over linear integer arithmetic '
                 'for all lengths and widths',
    'level_text': 'JoinableStringList._add_item_to_line (an item of 1..3 chunks added to a line that has room, to a fresh '
                  'continuation line, or to a line holding one over-long token) and _to_str (1..3 single-chunk items with '
                  'separators, from an empty or an indented line) are executed from their real source on strings abstracted '
                  'to sequences of opaque atoms with symbolic lengths, for ALL lengths and ALL widths: every emitted line is '
                  'at most width long or is the continuation marker plus one unbreakable chunk, the open line leaves room '
                  'for the continuation marker, and dropping the continuation markers yields exactly the incoming chunks in '
                  'order. Bounded in the number of chunks / items (3); unbounded in every length.',
    'level_note': 'ASSUMED: _pattern_chunk_separator.split returns pieces that concatenate to the item, in order, and '
                  '_pattern_quoted_string finds no quoted string (a quoted string is one more unbreakable chunk); an atom is '
                  'never textually equal to a continuation marker. Outside: nested JoinableStringList items (the recursive '
                  'stop_on_continuation path), __init__ (normalisation of cont, whose result - both parts shorter than width '
                  '- is the precondition here), Stringifier.format_line / join_items and the ~60 call sites in fgen that '
                  'decide what an item is, trailing comments. Level other: partial.',
    'trusted_base': ['pyvc engine', 'AStr: strings as atom sequences with symbolic lengths (exact for +, len, ==, f-strings, join)',
                     're.split / re.finditer contract (pieces concatenate to the input)'],
    'assumptions': ['the number of chunks per item and of items is at most 3', 'termination not proved'],
}


def bounded_checks(tier, seed):
    """native harness (replay/C04.py): the real JoinableStringList on concrete texts, incl. nested lists; bounded"""
    import json
    import os
    import subprocess
    root = os.path.dirname(os.path.dirname(os.path.abspath(__file__)))
    repo = os.environ.get('LOKI_REPO', '/repo')
    p = subprocess.run([os.environ.get('LOKI_PYTHON', '/venv/bin/python'), os.path.join(root, 'replay', 'C04.py'), '--corpus'],
                       capture_output=True, text=True, timeout=1800, env=dict(os.environ, PYTHONPATH=repo), cwd=repo)
    line = next((l for l in reversed(p.stdout.splitlines()) if l.startswith('{')), None)
    rule = ('widths {8, 10, 13, 20} x 2 continuation styles x 2 separators x all lists of 1..3 items from 11 texts (words of '
            '1..7 letters, call-like tokens, blank-separated word groups, character literals holding blanks and the other '
            'quote) x {empty, indented} first line, plus two nested '
            'lists: every physical line of str(JoinableStringList) is at most width long unless it holds one unbreakable '
            'piece, a character literal stays intact on one line, and removing the continuation markers gives back '
            'sep.join(items)')
    if line is None:
        return [{'name': 'native/JoinableStringList', 'cases': 0, 'violation': False, 'error': p.stderr[-600:], 'rule': rule}]
    d = json.loads(line)
    return [{'name': 'native/JoinableStringList', 'cases': d['cases'], 'distinct': d['cases'], 'rule': rule,
             'bound': 'texts of up to 3 words of up to 7 letters, 4 widths', 'violation': bool(d['violation']),
             'cex': d.get('cex'), 'n_violations': d.get('n_violations', 0)}]
