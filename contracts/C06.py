"""C06 - printed expressions denote the expression tree they were printed from (DESIGN section 4 C06, appendix A.2).

The real string-building code of the stringify mappers is executed UNCHANGED on real Python strings.  Only the
recursive call rec(child, prec) is replaced by its contract (the induction hypothesis): it returns a unique marker
token that stands for "the text of child", with
    den(marker) = [[child]]          top(marker) = ATOM if prec > level(child class) else level(child class)
(level = the loosest operator at the top of a node's text; a mapper parenthesises when the enclosing precedence is
higher, which is what parenthesize_if_needed - executed from pymbolic's real source - does).
The string a map_* method returns (markers, operators, parentheses) is then PARSED with the target grammar - Fortran
2018 10.1.2: `**` right-associative above `*` `/` (left-associative) above sign / `+` `-`, comparison, .not., .and.,
.or. - by a precedence-climbing parser (about 100 lines, the trusted grammar spec).  Wherever a marker stands next to
an operator the parser emits the OBLIGATION that the marker's own top level binds at least as tightly as its position
requires (otherwise re-parsing the text would regroup it), e.g. right of `/`: strictly tighter than `*` `/`; right of
`*`: tighter, or a pure product (the only algebraic law admitted is associativity of + and *); base of `**`: tighter
than `**`.  The value of the parse must equal the value of the node ([[Quotient]] = tdiv, [[Power]] = pow:
uninterpreted, so a*(b/c) and (a*b)/c are different values, as they are under truncating division).
Enumerated mechanically: every mapper class (LokiStringifyMapper, FCodeMapper, CCodeMapper - their class attributes
such as multiplicative_primitives read from the real class statements), every arithmetic node class, every ordered
pair of child classes; the enclosing precedence is symbolic."""
import ast
import itertools
import re
import z3
from pyvc import vcrt, rewrite
from pyvc.runner import FunctionSpec
from pyvc.inline import inline
from pyvc.values import Theory, SInt, mk_int, mk_bool, truth, as_int_term
from pyvc.core import ctx, OutOfSubset, CheckerError

PROP = 'C06'
MAP = 'loki/expression/mappers.py'
FGEN = 'loki/backend/fgen.py'
CGEN = 'loki/backend/cgen.py'
STRF = '/venv/lib/python3.12/site-packages/pymbolic/mapper/stringifier.py'
OPS = 'loki/expression/operations.py'
T = Theory('printing', [])

# pymbolic precedence constants (read from the real module on every run)
_PREC = {}
for _st in ast.parse(rewrite.read_source(STRF)).body:
    if isinstance(_st, ast.Assign) and isinstance(_st.targets[0], ast.Name) and _st.targets[0].id.startswith('PREC_'):
        _PREC[_st.targets[0].id] = ast.literal_eval(_st.value)
PREC_NONE, PREC_SUM, PREC_PRODUCT, PREC_POWER = _PREC['PREC_NONE'], _PREC['PREC_SUM'], _PREC['PREC_PRODUCT'], _PREC['PREC_POWER']
ATOM = 100      # parenthesised / leaf


# ---- class model (bases cross-checked against the real class statements) ---------------------------------------
class Expression:
    def __add__(self, o):
        return _Opaque()

    def __radd__(self, o):
        return _Opaque()


class _Opaque(Expression):
    pass


class pmbl:     # pylint: disable=invalid-name
    class Sum(Expression):
        pass

    class Product(Expression):
        pass

    class Quotient(Expression):
        pass

    class Power(Expression):
        pass

    class FloorDiv(Expression):
        pass

    class Remainder(Expression):
        pass

    class Leaf(Expression):
        pass

    @staticmethod
    def is_zero(v):
        return (not isinstance(v, Expression)) and v == 0


class IntLiteral(pmbl.Leaf):
    def __eq__(self, o):            # IntLiteral.__eq__ (literals.py): equal to the python number of its value
        return self.value == o if isinstance(o, (int, float)) else self is o

    def __hash__(self):
        return hash(self.value)


class sym:      # pylint: disable=invalid-name
    IntLiteral = IntLiteral


class Sum(pmbl.Sum):
    pass


class Product(pmbl.Product):
    pass


class Quotient(pmbl.Quotient):
    pass


class Power(pmbl.Power):
    pass


class ParenthesisedAdd(Sum):
    pass


class ParenthesisedMul(Product):
    pass


class ParenthesisedDiv(Quotient):
    pass


class ParenthesisedPow(Power):
    pass


def _check_class_model():
    real = rewrite.module_classes(OPS)
    want = {'Sum': ['StrCompareMixin', 'pmbl.Sum'], 'Product': ['StrCompareMixin', 'pmbl.Product'],
            'Quotient': ['StrCompareMixin', 'pmbl.Quotient'], 'Power': ['StrCompareMixin', 'pmbl.Power'],
            'ParenthesisedAdd': ['Sum'], 'ParenthesisedMul': ['Product'], 'ParenthesisedDiv': ['Quotient'],
            'ParenthesisedPow': ['Power']}
    for k, b in want.items():
        if real.get(k) != b:
            raise CheckerError('class model of C06 is out of date: %s has bases %s in operations.py' % (k, real.get(k)))


_check_class_model()
import sys as _sys      # noqa: E402
import types as _types  # noqa: E402
for _n in ('loki', 'loki.expression', 'loki.expression.operations'):      # map_sum imports ParenthesisedMul lazily
    _sys.modules.setdefault(_n, _types.ModuleType(_n))
_sys.modules['loki.expression.operations'].ParenthesisedMul = ParenthesisedMul
LEVEL = {'Leaf': ATOM, 'IntLiteral2': ATOM, 'Sum': PREC_SUM, 'Product': PREC_PRODUCT, 'NegProduct': PREC_PRODUCT, 'NegSum': PREC_PRODUCT, 'NegQuotient': PREC_PRODUCT, 'Quotient': PREC_PRODUCT,
         'Power': PREC_POWER, 'FloorDiv': PREC_PRODUCT, 'ParenthesisedAdd': ATOM, 'ParenthesisedMul': ATOM,
         'ParenthesisedDiv': ATOM, 'ParenthesisedPow': ATOM}
CLS = {'Leaf': pmbl.Leaf, 'IntLiteral2': IntLiteral, 'Sum': Sum, 'Product': Product, 'NegProduct': Product, 'NegSum': Product, 'NegQuotient': Product, 'Quotient': Quotient, 'Power': Power,
       'FloorDiv': pmbl.FloorDiv, 'ParenthesisedAdd': ParenthesisedAdd, 'ParenthesisedMul': ParenthesisedMul,
       'ParenthesisedDiv': ParenthesisedDiv, 'ParenthesisedPow': ParenthesisedPow}
CHILD_KINDS = ['Leaf', 'IntLiteral2', 'Sum', 'Product', 'NegProduct', 'Quotient', 'Power', 'ParenthesisedAdd', 'ParenthesisedMul',
               'ParenthesisedDiv']
# the same classes with a text whose first and last characters are brackets that do NOT match each other: (x)*(y) ...
BRACKETED = {'Product~': ('Product', '*'), 'Quotient~': ('Quotient', ' / '), 'Power~': ('Power', '**')}
for _k, (_base, _op) in BRACKETED.items():
    LEVEL[_k] = LEVEL[_base]
    CLS[_k] = CLS[_base]

# ---- denotations ---------------------------------------------------------------------------------------------------
MUL = z3.Function('mul', z3.IntSort(), z3.IntSort(), z3.IntSort())
TDIV = z3.Function('tdiv', z3.IntSort(), z3.IntSort(), z3.IntSort())
POW = z3.Function('pow', z3.IntSort(), z3.IntSort(), z3.IntSort())
# grammar levels of the parser: x10, with the product level split into "contains / at its top level" and "pure product"
L_ADD, L_MULDIV, L_MULPURE, L_POW, L_ATOM = 110, 120, 121, 140, 1000


def glevel(pymbolic_level, pure=None):
    """pymbolic precedence of a node's own operator -> grammar level of its text (z3 Int)"""
    if pymbolic_level == PREC_SUM:
        return z3.IntVal(L_ADD)
    if pymbolic_level == PREC_PRODUCT:
        return z3.If(pure, L_MULPURE, L_MULDIV) if pure is not None else z3.IntVal(L_MULDIV)
    if pymbolic_level == PREC_POWER:
        return z3.IntVal(L_POW)
    return z3.IntVal(L_ATOM)


class Registry:
    def __init__(self):
        self.ops = {}

    def new(self, den, top, what):
        k = len(self.ops)
        m = '⟦%d⟧' % k
        self.ops[m] = (den, top, what)
        return m


REG = [None]


def make_child(kind, tag):
    """a child node of the given class with an arbitrary value; NegProduct is Product((-1, x))"""
    c = ctx()
    o = CLS[kind]()
    o.kind, o.tag = kind, tag
    o.den = c.fresh(z3.IntSort(), 'val_' + tag)
    o.pure = c.fresh(z3.BoolSort(), 'pure_product_' + tag)      # a Product's text has no '/' at its top level
    if kind in BRACKETED:
        o.kind = BRACKETED[kind][0]
        o.bracketed_op = BRACKETED[kind][1]
        o.parts = (make_child('Leaf', tag + '_p'), make_child('Leaf', tag + '_q'))
        f = {'*': MUL, ' / ': TDIV, '**': POW}[o.bracketed_op]
        o.den = f(o.parts[0].den, o.parts[1].den)
        o.pure = z3.BoolVal(o.bracketed_op == '*')
        return o
    if kind == 'IntLiteral2':
        o.value, o.kind_attr, o.den = 2, None, z3.IntVal(2)
    if kind in ('NegProduct', 'NegSum', 'NegQuotient'):
        # Product((-1, x)) with x a leaf, a sum or a quotient (map_sum hands x itself to rec)
        inner = make_child({'NegProduct': 'Leaf', 'NegSum': 'Sum', 'NegQuotient': 'Quotient'}[kind], tag + '_x')
        o.children = (-1, inner)
        o.den = -inner.den
        o.pure = z3.BoolVal(True)
    elif kind in ('Product', 'ParenthesisedMul', 'Sum', 'ParenthesisedAdd'):
        o.children = (make_child('Leaf', tag + '_l'), make_child('Leaf', tag + '_r'))
    return o


class MapperSelf:
    """`self` of a stringify mapper: every helper is the real function (inlined); rec is the induction hypothesis"""

    def __init__(self, flavour):
        self.flavour = flavour
        self.parenthesised_multiplicative_primitives = (ParenthesisedAdd, ParenthesisedMul, ParenthesisedDiv, ParenthesisedPow)
        self.multiplicative_primitives = MULT_PRIMS[flavour]

    def rec(self, expr, prec, *args, **kwargs):
        if not isinstance(expr, Expression):
            if isinstance(expr, int):
                return REG[0].new(z3.IntVal(abs(expr)), z3.IntVal(L_ATOM), 'int') if expr >= 0 else '-' + REG[0].new(
                    z3.IntVal(-expr), z3.IntVal(L_ATOM), 'int')
            raise OutOfSubset('rec(%r)' % (expr,))
        lvl = LEVEL[expr.kind]
        if getattr(expr, 'bracketed_op', None):
            # the child's own map_* method, per its contract, returned `(x) op (y)`, parenthesised as a whole iff needed
            a, b = (REG[0].new(q.den, z3.IntVal(L_ATOM), 'Leaf:' + q.tag) for q in expr.parts)
            inner = '(%s)%s(%s)' % (a, expr.bracketed_op, b)
            return '(%s)' % inner if truth(mk_bool(as_int_term(prec) > lvl)) else inner
        p = as_int_term(prec)
        own = glevel(lvl, expr.pure if lvl == PREC_PRODUCT and expr.kind in ('Product', 'NegProduct', 'NegSum', 'NegQuotient') else (
            z3.BoolVal(False) if expr.kind in ('Quotient', 'FloorDiv') else None))
        top = z3.If(p > lvl, L_ATOM, own) if lvl != ATOM else z3.IntVal(L_ATOM)
        return REG[0].new(expr.den, top, expr.kind + ':' + expr.tag)

    def format(self, s, *args):
        return H['format'](self, s, *args)

    def join(self, joiner, iterable):
        return H['join'](self, joiner, iterable)

    def join_rec(self, joiner, iterable, prec, *args, **kwargs):
        return H['join_rec'](self, joiner, iterable, prec, *args, **kwargs)

    def parenthesize(self, s):
        return H['parenthesize'](self, s)

    def parenthesize_if_needed(self, s, enclosing_prec, my_prec):
        return H['parenthesize_if_needed'](self, s, enclosing_prec, my_prec)

    def rec_with_force_parens_around(self, expr, *args, **kwargs):
        return H['loki_rec_with_force'](self, expr, *args, **kwargs)

    def map_sum(self, expr, enclosing_prec, *args, **kwargs):
        return M['map_sum'](self, expr, enclosing_prec, *args, **kwargs)

    def map_product(self, expr, enclosing_prec, *args, **kwargs):
        return M['map_product'](self, expr, enclosing_prec, *args, **kwargs)

    def map_quotient(self, expr, enclosing_prec, *args, **kwargs):
        return M['map_quotient'](self, expr, enclosing_prec, *args, **kwargs)

    def map_power(self, expr, enclosing_prec, *args, **kwargs):
        return M['map_power'](self, expr, enclosing_prec, *args, **kwargs)


def _class_attr_tuple(file, clsname, attr):
    tree = ast.parse(rewrite.read_source(file))
    try:
        node, _ = rewrite.find_def(tree, clsname)
    except CheckerError:
        return None
    for st in node.body:
        if isinstance(st, ast.Assign) and any(isinstance(t, ast.Name) and t.id == attr for t in st.targets):
            names = [ast.unparse(e).split('.')[-1] for e in st.value.elts]
            return tuple(getattr(pmbl, n) for n in names)
    return None


_DEFAULT_MULT = _class_attr_tuple(STRF, 'StringifyMapper', 'multiplicative_primitives')
MULT_PRIMS = {'LokiStringifyMapper': _class_attr_tuple(MAP, 'LokiStringifyMapper', 'multiplicative_primitives') or _DEFAULT_MULT,
              'FCodeMapper': _class_attr_tuple(FGEN, 'FCodeMapper', 'multiplicative_primitives') or _DEFAULT_MULT,
              'CCodeMapper': _class_attr_tuple(CGEN, 'CCodeMapper', 'multiplicative_primitives') or _DEFAULT_MULT}
G = dict(_PREC)
G.update({'pmbl': pmbl, 'ParenthesisedMul': ParenthesisedMul, 'sym': sym, 'IntLiteral': IntLiteral})
H = {'format': inline(STRF, 'StringifyMapper.format', G), 'join': inline(STRF, 'StringifyMapper.join', G),
     'join_rec': inline(STRF, 'StringifyMapper.join_rec', G), 'parenthesize': inline(STRF, 'StringifyMapper.parenthesize', G),
     'parenthesize_if_needed': inline(STRF, 'StringifyMapper.parenthesize_if_needed', G),
     'loki_rec_with_force': inline(MAP, 'LokiStringifyMapper.rec_with_force_parens_around', G)}
FLAVOUR_FILES = {'LokiStringifyMapper': (MAP, 'LokiStringifyMapper'), 'FCodeMapper': (FGEN, 'FCodeMapper'),
                 'CCodeMapper': (CGEN, 'CCodeMapper')}
_RESOLVED = {}


def resolve(flavour, method):
    """the function `flavour.method` resolves to: the flavour's own class statement, then LokiStringifyMapper, then
    pymbolic's StringifyMapper (plain method definitions; the real files are searched on every run)"""
    key = (flavour, method)
    if key in _RESOLVED:
        return _RESOLVED[key]
    chain = [FLAVOUR_FILES[flavour]]
    if flavour != 'LokiStringifyMapper':
        chain.append(FLAVOUR_FILES['LokiStringifyMapper'])
    chain.append((STRF, 'StringifyMapper'))
    for file, cls in chain:
        tree = ast.parse(rewrite.read_source(file))
        try:
            node, _ = rewrite.find_def(tree, cls)
        except CheckerError:
            continue
        for st in node.body:
            if isinstance(st, ast.FunctionDef) and st.name == method:
                _RESOLVED[key] = (file, '%s.%s' % (cls, method), inline(file, '%s.%s' % (cls, method), G))
                return _RESOLVED[key]
            if isinstance(st, ast.Assign) and any(isinstance(t, ast.Name) and t.id == method for t in st.targets):
                raise OutOfSubset('%s.%s is an alias (%s): not supported by the C06 sidecar' % (cls, method, ast.unparse(st.value)))
    raise OutOfSubset('%s.%s not found' % (flavour, method))


class _Maps:
    """M[method] inside MapperSelf: resolved for the flavour of the mapper instance that is running"""
    flavour = 'LokiStringifyMapper'

    def __getitem__(self, method):
        return resolve(self.flavour, method)[2]


M = _Maps()


# ---- the grammar: precedence-climbing parser over markers, operators and parentheses ---------------------------------
TOKEN = re.compile(r'\s*(⟦\d+⟧|\*\*|[-+*/(),]|[A-Za-z_]\w*)')


class Val:
    def __init__(self, den, top, raw=None):
        self.den, self.top, self.raw = den, top, raw


class Parser:
    def __init__(self, text, reg):
        self.toks, pos = [], 0
        text = text.strip()
        while pos < len(text):
            m = TOKEN.match(text, pos)
            if not m:
                raise OutOfSubset('cannot tokenise printed text %r at %d' % (text, pos))
            self.toks.append(m.group(1))
            pos = m.end()
        self.i, self.reg, self.obl = 0, reg, []

    def peek(self):
        return self.toks[self.i] if self.i < len(self.toks) else None

    def need(self, v, level, why):
        self.obl.append((why, v.top >= level))

    BIN = {'+': 11, '-': 11, '*': 12, '/': 12, '**': 14}

    def parse(self):
        v = self.expr(0)
        if self.peek() is not None:
            raise OutOfSubset('trailing tokens %r' % self.toks[self.i:])
        return v

    def primary(self):
        t = self.peek()
        if t == '(':
            self.i += 1
            v = self.expr(0)
            if self.peek() != ')':
                raise OutOfSubset('unbalanced parentheses')
            self.i += 1
            return Val(v.den, z3.IntVal(L_ATOM))
        if t == '-':
            # a sign directly after an operator (gfortran's accepted extension, DESIGN A.2) or leading: applies to the
            # following mult-operand chain up to the next additive operator
            self.i += 1
            v = self.expr(12)
            self.need(v, L_MULDIV, 'operand of a sign must bind tighter than + - (%s)' % v.raw)
            return Val(-v.den, v.top, raw=None)
        if t in self.reg.ops:
            self.i += 1
            den, top, what = self.reg.ops[t]
            return Val(den, top, raw=what)
        if t is not None and re.match(r'[A-Za-z_]\w*$', t):
            # a function reference f(args): an atom; pow(x, y) denotes the power (C back end)
            self.i += 1
            if self.peek() != '(':
                raise OutOfSubset('identifier %r in printed text' % t)
            self.i += 1
            args = [self.expr(0)]
            while self.peek() == ',':
                self.i += 1
                args.append(self.expr(0))
            if self.peek() != ')':
                raise OutOfSubset('unbalanced call')
            self.i += 1
            if t == 'pow' and len(args) == 2:
                return Val(POW(args[0].den, args[1].den), z3.IntVal(L_ATOM))
            raise OutOfSubset('call of %r in printed text' % t)
        raise OutOfSubset('unexpected token %r' % t)

    def expr(self, min_prec):
        lhs = self.primary()
        while True:
            op = self.peek()
            if op not in self.BIN or self.BIN[op] < min_prec:
                return lhs
            self.i += 1
            if op == '**':
                self.need(lhs, L_POW + 1, 'base of ** must bind tighter than ** (%s)' % lhs.raw)
                rhs = self.expr(14)
                self.need(rhs, L_POW, 'exponent of ** (%s)' % rhs.raw)
                lhs = Val(POW(lhs.den, rhs.den), z3.IntVal(L_POW))
            elif op == '*':
                self.need(lhs, L_MULDIV, 'left operand of * (%s)' % lhs.raw)
                rhs = self.expr(13)
                self.need(rhs, L_MULPURE, 'right operand of * must bind tighter than * / or be a pure product (%s)' % rhs.raw)
                pure = z3.And(lhs.top >= L_MULPURE, rhs.top >= L_MULPURE)
                lhs = Val(MUL(lhs.den, rhs.den), z3.If(pure, L_MULPURE, L_MULDIV))
            elif op == '/':
                self.need(lhs, L_MULDIV, 'left operand of / (%s)' % lhs.raw)
                rhs = self.expr(13)
                self.need(rhs, L_MULPURE + 1, 'right operand of / must bind tighter than * and / (%s)' % rhs.raw)
                lhs = Val(TDIV(lhs.den, rhs.den), z3.IntVal(L_MULDIV))
            elif op == '+':
                self.need(lhs, L_ADD, 'left operand of + (%s)' % lhs.raw)
                rhs = self.expr(12)
                self.need(rhs, L_ADD, 'right operand of + (%s)' % rhs.raw)       # + is associative: a + (b - c) = a + b - c
                lhs = Val(lhs.den + rhs.den, z3.IntVal(L_ADD))
            else:
                self.need(lhs, L_ADD, 'left operand of - (%s)' % lhs.raw)
                rhs = self.expr(12)
                self.need(rhs, L_MULDIV, 'right operand of - must bind tighter than + - (%s)' % rhs.raw)
                lhs = Val(lhs.den - rhs.den, z3.IntVal(L_ADD))


_SHAS = {}


def _sha(file, qual):
    if (file, qual) in _SHAS:
        return _SHAS[(file, qual)]
    _SHAS[(file, qual)] = _sha_uncached(file, qual)
    return _SHAS[(file, qual)]


def _sha_uncached(file, qual):
    src = rewrite.read_source(file)
    node, _ = rewrite.find_def(ast.parse(src), qual)
    return rewrite.sha(rewrite.func_text(src, node))


def spec_map(flavour, method, kinds):
    """method of the mapper flavour on a node whose children have the classes `kinds`"""
    node_cls = {'map_sum': Sum, 'map_product': Product, 'map_quotient': Quotient, 'map_power': Power,
                'map_parenthesised_add': ParenthesisedAdd, 'map_parenthesised_mul': ParenthesisedMul,
                'map_parenthesised_div': ParenthesisedDiv, 'map_parenthesised_pow': ParenthesisedPow}[method]
    base = {'map_parenthesised_add': 'map_sum', 'map_parenthesised_mul': 'map_product', 'map_parenthesised_div': 'map_quotient',
            'map_parenthesised_pow': 'map_power'}.get(method, method)
    file, qual, _fn = resolve(flavour, method)

    def setup(spec):
        c = ctx()
        REG[0] = Registry()
        kids = [make_child(k, 'c%d' % i) if k != 'MinusOne' else None for i, k in enumerate(kinds)]
        expr = node_cls()
        if base in ('map_sum', 'map_product'):
            # 'MinusOne': the python int -1 as first factor - the node shape Product((-1, x)) that denotes -x
            expr.children = tuple(-1 if k is None else k for k in kids)
        elif base == 'map_quotient':
            expr.numerator, expr.denominator = kids
        else:
            expr.base, expr.exponent = kids
        enc = mk_int(c.fresh(z3.IntSort(), 'enclosing_prec'))
        c.assume(z3.Or([enc.t == v for v in sorted(set(_PREC.values()))]))
        env = {'me': MapperSelf(flavour), 'expr': expr, 'kids': kids, 'enc': enc}
        return (env,), {}, env

    def run(env):
        M.flavour = flavour
        return M[method](env['me'], env['expr'], env['enc'])

    def post(env, text):
        kids, enc = env['kids'], env['enc'].t
        if not isinstance(text, str):
            return [('returns-text', z3.BoolVal(False))]
        p = Parser(text, REG[0])
        v = p.parse()
        d = [z3.IntVal(-1) if k is None else k.den for k in kids]
        want = {'map_sum': d[0] + d[1], 'map_product': MUL(d[0], d[1]), 'map_quotient': TDIV(d[0], d[1]),
                'map_power': POW(d[0], d[1])}[base]
        if kids[0] is None:
            want = -d[1]
        lvl = {'map_sum': PREC_SUM, 'map_product': PREC_PRODUCT, 'map_quotient': PREC_PRODUCT, 'map_power': PREC_POWER}[base]
        cl = [('binds:' + why, g) for why, g in p.obl]
        cl.append(('text-denotes-the-node', v.den == want))
        # output contract (what rec() promises to the caller): parenthesised whenever the enclosing precedence is higher
        need_atom = z3.BoolVal(True) if 'parenthesised' in method else (enc > lvl)
        cl.append(('parenthesised-when-the-context-binds-tighter', z3.Implies(need_atom, v.top >= L_ATOM)))
        cl.append(('top-level-as-promised', v.top >= {PREC_SUM: L_ADD, PREC_PRODUCT: L_MULDIV, PREC_POWER: L_POW}[lvl]))
        return cl

    def decode(env, m, r):
        return {'function': method, 'mapper': flavour, 'children': list(kinds)}
    _a, _b, _c = z3.Ints('mul!a mul!b mul!c')
    assoc = z3.ForAll([_a, _b, _c], MUL(MUL(_a, _b), _c) == MUL(_a, MUL(_b, _c)), patterns=[MUL(MUL(_a, _b), _c)])
    square = z3.ForAll([_a], POW(_a, 2) == MUL(_a, _a), patterns=[POW(_a, 2)])      # x**2 = x*x (admitted law)
    sp = FunctionSpec(PROP, file, qual, {}, setup, post, theory=T, lemmas=[assoc, square], decode=decode, ext=False,
                      variant='%s: %s' % (flavour, ' , '.join(kinds)),
                      budgets=(2_000_000, 2_000_000, 0, 4_000_000, 3_000_000, 8000))
    sp.fn_override = run
    sp.fn_info = {'file': file, 'qualname': qual, 'sha': _sha(file, qual), 'loops': {}, 'dropped': []}
    return sp


POOL_REUSE = True
_SPECS = {}


def specs(tier='quick'):
    if tier in _SPECS:
        return _SPECS[tier]
    out = []
    flavours = [f for f in ('LokiStringifyMapper', 'FCodeMapper', 'CCodeMapper')]
    seen = set()
    all_methods = ('map_sum', 'map_product', 'map_quotient', 'map_power', 'map_parenthesised_add',
                   'map_parenthesised_mul', 'map_parenthesised_div', 'map_parenthesised_pow')
    for fl in flavours:
        key = tuple(sorted(c.__name__ for c in MULT_PRIMS[fl]))
        own = [m for m in all_methods if resolve(fl, m)[1].startswith(fl + '.')]     # methods the back end overrides itself
        methods = all_methods if key not in seen else tuple(own) + tuple(
            m for m in all_methods if m not in own and own and m in ('map_quotient', 'map_product', 'map_parenthesised_pow'))
        seen.add(key)           # same class attributes => same behaviour of the methods that are inherited unchanged
        for method in methods:
            kinds = CHILD_KINDS + (list(BRACKETED) if method in ('map_quotient', 'map_product', 'map_power') else []) + (
                ['NegSum', 'NegQuotient'] if method == 'map_sum' else [])
            for a, b in itertools.product(kinds, kinds):
                if (a in BRACKETED or b in BRACKETED) and not ({a, b} <= set(BRACKETED) | {'Leaf', 'Sum'}):
                    continue
                if 'parenthesised' in method and (a, b) not in (('Leaf', 'Leaf'), ('Sum', 'Quotient'), ('Quotient', 'Sum'),
                                                               ('Product', 'Power'), ('NegProduct', 'Product')):
                    continue
                out.append(spec_map(fl, method, (a, b)))
            if method == 'map_product':
                for b in CHILD_KINDS:
                    out.append(spec_map(fl, method, ('MinusOne', b)))
    _SPECS[tier] = out
    return out


META = {
    'category': 'other',
    'technique': 'contract-based deductive verification (pyvc): the real string-building code runs on marker strings, the '
                 'result is parsed with the target grammar and every operand position yields a binding obligation',
    'level_text': 'For LokiStringifyMapper and every back-end mapper whose class attributes differ (FCodeMapper, CCodeMapper), '
                  'map_sum, map_product, map_quotient, map_power and the four map_parenthesised_* methods - with pymbolic\'s '
                  'format / join / join_rec / parenthesize_if_needed and Loki\'s rec_with_force_parens_around executed from '
                  'their real source - are run for every ordered pair of child classes (leaf, sum, product, negated product, '
                  'quotient, power, parenthesised variants) and a symbolic enclosing precedence: the returned text, parsed '
                  'with the Fortran expression grammar, must denote the node (tdiv and pow uninterpreted, only associativity '
                  'of + and * admitted), every child text must bind tightly enough for its position, and the text must be '
                  'parenthesised whenever the context binds tighter (the contract the recursive calls rely on). Summands of map_sum include negated leaves, negated sums and negated quotients; map_product is also run on the node shape Product((-1, x)) that denotes -x; the operand of a sign must bind tighter than + and -.',
    'level_note': 'Known finding: a quotient as a non-first factor of a product is printed without parentheses (a*b / c). '
                  'Bounded and stated: nodes have two children (n-ary sums / products are printed by the same join over the '
                  'children); a sign directly after an operator (a*-b) is accepted as gfortran does. Trusted: pyvc engine; the '
                  'grammar parser of the sidecar (Fortran 2018 10.1.2; C agrees on the operators involved); mapper dispatch '
                  '(rec calls map_<class>); the class model of operations.py (bases cross-checked on every run); leaf '
                  'mappers (literals, symbols, calls, subscripts) print atoms - a negative literal as a power base is not '
                  'modelled (named). Comparison / logical operators are not yet under contract (named).',
    'trusted_base': ['pyvc engine', 'expression grammar of the target languages (sidecar parser)',
                     'pymbolic Mapper dispatch', 'pymbolic/mapper/stringifier.py as installed (read on every run)'],
    'assumptions': ['integer semantics: / truncates, so no law relates a*(b/c) and (a*b)/c', 'leaf nodes print as atoms'],
}
