"""C08 - symbolic simplification preserves expression values: sidecar contracts for
loki/expression/symbolic.py (DESIGN section 4, C08)."""
import z3
from pyvc.runner import FunctionSpec, call_contract
from pyvc.values import SV, SSeq, mk_bool
from pyvc.core import ctx
from pyvc.inline import inline
from . import exprs
from .exprs import T, C, V, VL, MZ, MR, fresh_expr, as_tuple, lemmas_for, ground_for, is_any, PRODS
from .pmbl_model import pmbl, use_ops, op_axioms
from .loki_expr_model import sym

F = 'loki/expression/symbolic.py'
PROP = 'C08'
G = {'sym': sym, 'pmbl': pmbl, 'as_tuple': as_tuple}
# small pure helpers are inlined (executed from their real source), DESIGN 3.2
G['is_minus_prefix'] = inline(F, 'is_minus_prefix', G)
G['strip_minus_prefix'] = inline(F, 'strip_minus_prefix', G)


def value_contract(name, mode):
    """contract stub of a value-preserving unary function: result is a well-formed operand with the same value"""
    def stub(x, *a, **kw):
        xt = T.lift(x)
        def post(r):
            return [mode.val(r.t) == mode.val(xt), mode.wf(r.t)]
        return call_contract(name, pre=[('wf', mode.wf(xt))], result=lambda: fresh_expr(name), post=post)
    return stub


def mk_decode(fname, mode):
    def decode(env, m, r):
        out = {'function': fname, 'mode': mode.m, 'expr': exprs.decode_expr(m, env['expr'].t)}
        mp = env.get('mapper')
        if mp is not None:
            out['flags'] = [k for k in FLAGS if z3.is_true(m.eval(mp.enabled_simplifications.bits[k],
                                                                  model_completion=True))]
        return out
    return decode


def spec_is_minus_prefix(mode):
    def setup(spec):
        e = fresh_expr('expr')
        ctx().assume(mode.wf(e.t))
        return (e,), {}, {'expr': e}

    def post(env, r):
        e = env['expr'].t
        ch = exprs.field(e, PRODS, 'children')
        rb = r.t if hasattr(r, 't') else z3.BoolVal(bool(r))
        return [
            # what callers rely on: a minus-prefixed product is (-1) * rest
            ('value', z3.Implies(rb, z3.And(is_any(e, PRODS), VL.is_cons(ch), mode.val(VL.hd(ch)) == mode.num(-1)))),
            # exact characterisation (documented: expr == Product((-1, ...)) with a *python* -1)
            ('exact', rb == z3.And(is_any(e, ('Product', 'ParenthesisedMul')), VL.is_cons(ch),
                                   z3.Or(VL.hd(ch) == V.VInt(-1), VL.hd(ch) == V.VReal(-1)))),
        ]
    return FunctionSpec(PROP, F, 'is_minus_prefix', G, setup, post, variant=mode.m, theory=T,
                        decode=mk_decode('is_minus_prefix', mode),
                        lemmas=lemmas_for(mode), ground=ground_for(mode))


def spec_strip_minus_prefix(mode):
    def setup(spec):
        e = fresh_expr('expr')
        ctx().assume(mode.wf(e.t))
        return (e,), {}, {'expr': e}

    def post(env, r):
        e = env['expr'].t
        return [('value', mode.val(T.lift(r)) == -mode.val(e)), ('wf', mode.wf(T.lift(r)))]

    def raises(env, exc):
        if isinstance(exc, ValueError):
            return [('only-if-not-prefixed', z3.BoolVal(True))]
        return None
    return FunctionSpec(PROP, F, 'strip_minus_prefix', G, setup, post, raises=raises, variant=mode.m, theory=T,
                        decode=mk_decode('strip_minus_prefix', mode),
                        lemmas=lemmas_for(mode), ground=ground_for(mode))


def spec_flatten_expr(mode):
    g = dict(G)
    g['distribute_product'] = value_contract('distribute_product', mode)
    g['distribute_quotient'] = value_contract('distribute_quotient', mode)

    def setup(spec):
        e = fresh_expr('expr')
        ctx().assume(mode.wf(e.t))
        return (e,), {}, {'expr': e}

    def inv(L):
        e = L['expr'].t
        done, queue = T.lift_seq(L['done']), T.lift_seq(L['queue'])
        return {'value': mode.sumv(done) + mode.sumv(queue) == mode.val(e),
                'wf': z3.And(mode.wfl(done), mode.wfl(queue))}

    def post(env, r):
        return [('value', mode.val(T.lift(r)) == mode.val(env['expr'].t)), ('wf', mode.wf(T.lift(r)))]
    return FunctionSpec(PROP, F, 'flatten_expr', g, setup, post, invariants={1: inv}, variant=mode.m, theory=T,
                        decode=mk_decode('flatten_expr', mode),
                        lemmas=lemmas_for(mode), ground=ground_for(mode))


def specs(tier='quick'):
    out = []
    for mode in (MZ, MR):
        out += [spec_is_minus_prefix(mode), spec_strip_minus_prefix(mode), spec_flatten_expr(mode)]
    return out


# ---- SimplifyMapper -----------------------------------------------------------------------------------
from pyvc.values import SBool, truth, mk_int, SInt, SReal
from .exprs import ValueContract, comp_lemma, SUMS, QUOTS, POWS, field

FLAGS = ('Flatten', 'IntegerArithmetic', 'FloatingPointArithmetic', 'CollectCoefficients', 'LogicEvaluation')


class FlagSet:
    """model of an enum.Flag value of `Simplification` whose members are symbolic booleans"""

    def __init__(self, bits):
        self.bits = bits

    def __and__(self, o):
        return FlagSet({k: z3.And(self.bits[k], o.bits[k]) for k in FLAGS})

    def __or__(self, o):
        return FlagSet({k: z3.Or(self.bits[k], o.bits[k]) for k in FLAGS})

    def __bool__(self):
        return ctx().branch(z3.Or([self.bits[k] for k in FLAGS]), 'flag')


class _SimplificationModel:
    pass


for _k in FLAGS:
    setattr(_SimplificationModel, _k, FlagSet({k: z3.BoolVal(k == _k) for k in FLAGS}))


class MapperModel:
    """`self` of SimplifyMapper: enabled flags are arbitrary (every subset is covered by one proof)"""

    def __init__(self, mode):
        c = ctx()
        self.enabled_simplifications = FlagSet({k: c.fresh(z3.BoolSort(), 'flag_' + k) for k in FLAGS})
        self.rec = ValueContract('rec', mode)


def mapper_globals(mode):
    g = dict(G)
    g['Simplification'] = _SimplificationModel
    for n in ('flatten_expr', 'sum_literals', 'collect_coefficients', 'mul_literals', 'div_literals'):
        g[n] = ValueContract(n, mode)
    return g


def mapper_lemmas(mode):
    names = ('rec', 'flatten_expr', 'sum_literals', 'collect_coefficients', 'mul_literals', 'div_literals')
    return lemmas_for(mode) + [ValueContract(n, mode).axiom for n in names] + exprs.POW_AXIOMS


def mapper_ground(mode):
    from pyvc.core import ground_instances
    ax = exprs.PEQ_AXIOMS + exprs.REAL_AXIOMS + exprs.POW_AXIOMS + [
        ValueContract(n, mode).axiom for n in ('rec', 'flatten_expr', 'sum_literals', 'collect_coefficients',
                                               'mul_literals', 'div_literals')]
    return lambda terms: ground_instances(ax, terms)


def _nary_spec(method, classes, mode, fold):
    def setup(spec):
        c = ctx()
        e = T.fresh_obj('expr')
        c.assume(is_any(e.t, classes))
        c.assume(mode.wf(e.t))
        mp = MapperModel(mode)
        return (mp, e), {}, {'expr': e, 'mapper': mp}

    def hook(vc, f, x, cond_t, elt_t, seq, res):
        comp_lemma('rec-children', seq.t,
                   lambda L: z3.Implies(mode.wfl(L), z3.And(fold(f(L)) == fold(L), mode.wfl(f(L)))))

    def post(env, r):
        return [('value', mode.val(T.lift(r)) == mode.val(env['expr'].t)), ('wf', mode.wf(T.lift(r)))]
    return FunctionSpec(PROP, F, 'SimplifyMapper.' + method, mapper_globals(mode), setup, post,
                        decode=mk_decode('SimplifyMapper.' + method, mode),
                        comp_hooks={1: hook}, variant=mode.m, theory=T, lemmas=mapper_lemmas(mode),
                        ground=mapper_ground(mode))


def spec_map_sum(mode):
    return _nary_spec('map_sum', ('Sum', 'ParenthesisedAdd'), mode, mode.sumv)


def spec_map_product(mode):
    return _nary_spec('map_product', ('Product', 'ParenthesisedMul'), mode, mode.prodv)


def spec_map_quotient(mode):
    def setup(spec):
        c = ctx()
        e = T.fresh_obj('expr')
        c.assume(is_any(e.t, ('Quotient', 'ParenthesisedDiv')))
        c.assume(mode.wf(e.t))
        mp = MapperModel(mode)
        return (mp, e), {}, {'expr': e, 'mapper': mp}

    def post(env, r):
        return [('value', mode.val(T.lift(r)) == mode.val(env['expr'].t)), ('wf', mode.wf(T.lift(r)))]
    return FunctionSpec(PROP, F, 'SimplifyMapper.map_quotient', mapper_globals(mode), setup, post,
                        decode=mk_decode('SimplifyMapper.map_quotient', mode),
                        variant=mode.m, theory=T, lemmas=mapper_lemmas(mode), ground=mapper_ground(mode))


def spec_map_power(mode):
    def setup(spec):
        c = ctx()
        e = T.fresh_obj('expr')
        c.assume(is_any(e.t, ('Power', 'ParenthesisedPow')))
        c.assume(mode.wf(e.t))
        mp = MapperModel(mode)
        return (mp, e), {}, {'expr': e, 'mapper': mp}

    def post(env, r):
        return [('value', mode.val(T.lift(r)) == mode.val(env['expr'].t)), ('wf', mode.wf(T.lift(r)))]
    return FunctionSpec(PROP, F, 'SimplifyMapper.map_power', mapper_globals(mode), setup, post,
                        decode=mk_decode('SimplifyMapper.map_power', mode),
                        variant=mode.m, theory=T, lemmas=mapper_lemmas(mode), ground=mapper_ground(mode))


def with_ops(spec, kind, mode):
    """select how pymbolic's arithmetic overloads are treated in this spec: 'inline' = executed from the real
    pymbolic source, 'contract' = replaced by their contracts (verified in the pymbolic:: specs)"""
    inner = spec.setup

    def setup(sp):
        use_ops(kind, mode)
        return inner(sp)
    spec.setup = setup
    if kind == 'contract':
        spec.lemmas = list(spec.lemmas) + op_axioms(mode)
        g0 = spec.ground
        from pyvc.core import ground_instances
        spec.ground = lambda terms: (g0(terms) if g0 else []) + ground_instances(op_axioms(mode), terms)
    spec.interp = exprs.arith.interp
    spec.hints = lambda terms: exprs.arith.hints(mode.m, terms)
    spec.notes.append('pymbolic arithmetic overloads: ' + kind)
    return spec


def specs(tier='quick'):       # pylint: disable=function-redefined
    out = []
    for mode in (MZ, MR):
        out += [with_ops(s, 'inline', mode) for s in (
            spec_is_minus_prefix(mode), spec_strip_minus_prefix(mode), spec_flatten_expr(mode),
            spec_map_sum(mode), spec_map_product(mode), spec_map_quotient(mode), spec_map_power(mode))]
    return out


# ---- bounded stand-ins (never counted as proved) -----------------------------------------------------
BOUNDED_FUNCS = ('sum_literals', 'mul_literals', 'div_literals', 'separate_coefficients (through mul_literals/'
                 'div_literals)', 'accumulate_polynomial_terms + collect_coefficients', 'distribute_product',
                 'distribute_quotient', 'simplify (composition, per flag subset)')


def bounded_checks(tier, seed):
    import json
    import os
    import subprocess
    root = os.path.dirname(os.path.dirname(os.path.abspath(__file__)))
    repo = os.environ.get('LOKI_REPO', '/repo')
    p = subprocess.run([os.environ.get('LOKI_PYTHON', '/venv/bin/python'), os.path.join(root, 'bounded', 'C08_native.py'),
                        tier, str(seed)], capture_output=True, text=True, timeout=7200,
                       env=dict(os.environ, PYTHONPATH=repo), cwd=repo)
    line = next((l for l in p.stdout.splitlines() if l.startswith('{')), None)
    if line is None:
        return [{'name': 'bounded/driver', 'cases': 0, 'violation': False, 'error': p.stderr[-600:],
                 'rule': 'native enumeration driver failed to run'}]
    data = json.loads(line)
    rule = ('all expression trees of depth<=2 (quick: all of depth<=1 plus a 1-in-7 slice of depth 2; thorough: all '
            'plus 3000 seeded random trees of depth 3) over leaves {a,b,0,1,2,3,-1}; value compared under 16 '
            'valuations in exact arithmetic (Fraction / truncating integer division); distinct = output differs '
            'from input')
    out = []
    for r in data['results']:
        fn = r['function']
        base = {'cases': r['cases'], 'distinct': r['distinct'], 'rule': rule, 'bound': 'depth<=2 (+random depth 3)'}
        out.append(dict(base, name='bounded/%s[R]' % fn, violation=bool(r['violationsR']),
                        cex=(dict(r['violationsR'][0], function=fn) if r['violationsR'] else None),
                        n_violations=r.get('n_viol_R', 0)))
        nq = r.get('violationsZ_noquot') or []
        out.append(dict(base, name='bounded/%s[Z-noquot]' % fn, violation=bool(nq),
                        cex=(dict(nq[0], function=fn) if nq else None), n_violations=r.get('n_viol_Z_noquot', 0)))
        zq = [v for v in r['violationsZ'] if v.get('has_quotient')]
        out.append(dict(base, name='bounded/%s[Z-quot]' % fn, violation=bool(zq),
                        cex=(dict(zq[0], function=fn) if zq else None),
                        n_violations=r.get('n_viol_Z', 0) - r.get('n_viol_Z_noquot', 0)))
    return out


def lemma_proofs():
    return exprs.lemma_proofs((MZ, MR))


META = {
    'category': 'other',
    'technique': 'contract-based deductive verification (pyvc) of the simplifier core; bounded native enumeration '
                 'for the functions whose nonlinear/comprehension-heavy bodies z3 does not discharge',
    'level_text': 'Deductive (all inputs, all flag subsets, integer and real semantics): is_minus_prefix, '
                  'strip_minus_prefix, flatten_expr (worklist invariant), SimplifyMapper.map_sum/map_product/'
                  'map_quotient/map_power against the contracts of their callees; every lemma (sum/product over '
                  'append, zero lemma, arithmetic laws) is proved by induction / on pure arithmetic on every run. '
                  'Bounded stand-in, labelled and never counted as proved: sum_literals, mul_literals, div_literals, '
                  'collect_coefficients, distribute_product, distribute_quotient and simplify as a whole.',
    'level_note': 'Trusted: pyvc engine; pymbolic Mapper dispatch (rec calls map_X of the node class); contracts of '
                  'the bounded functions are ASSUMED by the deductive part (value preserved, result well formed); '
                  'python == on expression nodes implies equal value (C11 examines __eq__); floats as reals; power '
                  'laws a**0=1, a**1=a, 1**b=1; termination not proved. Known finding: under integer (truncating) '
                  'division the distribution of quotients is not value preserving. The structured family includes n-ary products with three or four sign-carrying factors and with two or three quotient factors on one level.',
    'trusted_base': [
        'pyvc engine (CPython execution of the mechanically rewritten real function bodies, proxy classes, z3)',
        'pymbolic 2022.2 Mapper.__call__/rec dispatch: map_<mapper_method> of the node class is invoked',
        'ASSUMED contracts (bounded only): sum_literals, mul_literals, div_literals, collect_coefficients, '
        'distribute_product, distribute_quotient preserve the value of a well-formed operand',
        'ASSUMED: python == between expression nodes implies equal value (peq axiom)',
        'LokiIdentityMapper handlers of non-arithmetic nodes (rec contract assumed for them)',
        'value semantics val_Z / val_R of contracts/exprs.py (spec), x/0 := 0 with non-zero divisors as precondition',
    ],
    'assumptions': ['floating point treated as real arithmetic', 'termination not proved',
                    'strings/kinds of literals opaque', 'integers mathematical (exact for Python int)'],
}


# ---- distribute_quotient ---------------------------------------------------------------------------------
def imp_term(e):
    """exact characterisation of is_minus_prefix (its 'exact' postcondition, proved in spec_is_minus_prefix)"""
    ch = field(e, PRODS, 'children')
    return z3.And(is_any(e, ('Product', 'ParenthesisedMul')), VL.is_cons(ch),
                  z3.Or(VL.hd(ch) == V.VInt(-1), VL.hd(ch) == V.VReal(-1)))


def is_minus_prefix_contract(expr):
    """CONTRACT of is_minus_prefix (proved: clause 'exact')"""
    return mk_bool(imp_term(T.lift(expr)))


def G2(mode):
    """globals where is_minus_prefix is used through its contract (strip_minus_prefix stays inlined)"""
    g = dict(G)
    g['is_minus_prefix'] = is_minus_prefix_contract
    from pyvc.inline import inline as _inl
    g['strip_minus_prefix'] = _inl(F, 'strip_minus_prefix', g)
    return g


def spec_distribute_quotient(mode):
    g = G2(mode)
    g['distribute_quotient'] = ValueContract('distribute_quotient', mode)      # recursive calls: IH

    def setup(spec):
        e = fresh_expr('expr')
        ctx().assume(mode.wf(e.t))
        return (e,), {}, {'expr': e}

    def inv(L):
        e = L['expr'].t
        num = mode.val(field(e, QUOTS, 'numerator'))
        den = mode.val(field(e, QUOTS, 'denominator'))
        done, queue = T.lift_seq(L['done']), T.lift_seq(L['queue'])
        # sum of the quotients built so far + (what is still queued) / d  ==  n / d
        val = {'value': mode.sumv(done) + mode.div(mode.sumv(queue), den) == mode.div(num, den)}
        val['wf'] = z3.And(mode.wfl(done), mode.wfl(queue), is_any(e, QUOTS), den != 0,
                           mode.wf(field(e, QUOTS, 'denominator')))
        return val

    def post(env, r):
        return [('value', mode.val(T.lift(r)) == mode.val(env['expr'].t)), ('wf', mode.wf(T.lift(r)))]

    def decode(env, m, r):
        return {'function': 'distribute_quotient', 'mode': mode.m, 'expr': exprs.decode_expr(m, env['expr'].t)}
    lem = lemmas_for(mode) + [ValueContract('distribute_quotient', mode).axiom]

    def ground(terms):
        from pyvc.core import ground_instances
        return ground_instances(exprs.PEQ_AXIOMS + exprs.REAL_AXIOMS + [ValueContract('distribute_quotient', mode).axiom],
                                terms)
    return FunctionSpec(PROP, F, 'distribute_quotient', g, setup, post, invariants={1: inv}, variant=mode.m,
                        theory=T, lemmas=lem, ground=ground, decode=decode)
