"""C08 - symbolic simplification preserves expression values: sidecar contracts for
loki/expression/symbolic.py (DESIGN section 4, C08)."""
import z3
from pyvc.runner import FunctionSpec, call_contract
from pyvc.values import SV, SSeq, mk_bool
from pyvc.core import ctx
from pyvc.inline import inline
from . import exprs
from .exprs import T, C, V, VL, MZ, MR, fresh_expr, as_tuple, lemmas_for, ground_for, is_any, PRODS
from .pmbl_model import pmbl
from .loki_expr_model import sym

F = 'loki/expression/symbolic.py'
PROP = 'C08'
G = {'sym': sym, 'pmbl': pmbl, 'as_tuple': as_tuple}
# small pure helpers are inlined (executed from their real source), DESIGN 3.2
G['is_minus_prefix'] = inline(F, 'is_minus_prefix', G)
G['strip_minus_prefix'] = inline(F, 'strip_minus_prefix', G)


def value_contract(name, mode):
    """contract stub of a value-preserving unary function: result is a well-formed operand with the same value"""
    def stub(x, *a, **kw):
        xt = T.lift(x)
        def post(r):
            return [mode.val(r.t) == mode.val(xt), mode.wf(r.t)]
        return call_contract(name, pre=[('wf', mode.wf(xt))], result=lambda: fresh_expr(name), post=post)
    return stub


def spec_is_minus_prefix(mode):
    def setup(spec):
        e = fresh_expr('expr')
        ctx().assume(mode.wf(e.t))
        return (e,), {}, {'expr': e}

    def post(env, r):
        e = env['expr'].t
        ch = exprs.field(e, PRODS, 'children')
        rb = r.t if hasattr(r, 't') else z3.BoolVal(bool(r))
        return [
            # what callers rely on: a minus-prefixed product is (-1) * rest
            ('value', z3.Implies(rb, z3.And(is_any(e, PRODS), VL.is_cons(ch), mode.val(VL.hd(ch)) == mode.num(-1)))),
            # exact characterisation (documented: expr == Product((-1, ...)) with a *python* -1)
            ('exact', rb == z3.And(is_any(e, ('Product', 'ParenthesisedMul')), VL.is_cons(ch),
                                   z3.Or(VL.hd(ch) == V.VInt(-1), VL.hd(ch) == V.VReal(-1)))),
        ]
    return FunctionSpec(PROP, F, 'is_minus_prefix', G, setup, post, variant=mode.m, theory=T,
                        lemmas=lemmas_for(mode), ground=ground_for(mode))


def spec_strip_minus_prefix(mode):
    def setup(spec):
        e = fresh_expr('expr')
        ctx().assume(mode.wf(e.t))
        return (e,), {}, {'expr': e}

    def post(env, r):
        e = env['expr'].t
        return [('value', mode.val(T.lift(r)) == -mode.val(e)), ('wf', mode.wf(T.lift(r)))]

    def raises(env, exc):
        if isinstance(exc, ValueError):
            return [('only-if-not-prefixed', z3.BoolVal(True))]
        return None
    return FunctionSpec(PROP, F, 'strip_minus_prefix', G, setup, post, raises=raises, variant=mode.m, theory=T,
                        lemmas=lemmas_for(mode), ground=ground_for(mode))


def spec_flatten_expr(mode):
    g = dict(G)
    g['distribute_product'] = value_contract('distribute_product', mode)
    g['distribute_quotient'] = value_contract('distribute_quotient', mode)

    def setup(spec):
        e = fresh_expr('expr')
        ctx().assume(mode.wf(e.t))
        return (e,), {}, {'expr': e}

    def inv(L):
        e = L['expr'].t
        done, queue = T.lift_seq(L['done']), T.lift_seq(L['queue'])
        return {'value': mode.sumv(done) + mode.sumv(queue) == mode.val(e),
                'wf': z3.And(mode.wfl(done), mode.wfl(queue))}

    def post(env, r):
        return [('value', mode.val(T.lift(r)) == mode.val(env['expr'].t)), ('wf', mode.wf(T.lift(r)))]
    return FunctionSpec(PROP, F, 'flatten_expr', g, setup, post, invariants={1: inv}, variant=mode.m, theory=T,
                        lemmas=lemmas_for(mode), ground=ground_for(mode))


def specs(tier='quick'):
    out = []
    for mode in (MZ, MR):
        out += [spec_is_minus_prefix(mode), spec_strip_minus_prefix(mode), spec_flatten_expr(mode)]
    return out


# ---- SimplifyMapper -----------------------------------------------------------------------------------
from pyvc.values import SBool, truth, mk_int, SInt, SReal
from .exprs import ValueContract, comp_lemma, SUMS, QUOTS, POWS, field

FLAGS = ('Flatten', 'IntegerArithmetic', 'FloatingPointArithmetic', 'CollectCoefficients', 'LogicEvaluation')


class FlagSet:
    """model of an enum.Flag value of `Simplification` whose members are symbolic booleans"""

    def __init__(self, bits):
        self.bits = bits

    def __and__(self, o):
        return FlagSet({k: z3.And(self.bits[k], o.bits[k]) for k in FLAGS})

    def __or__(self, o):
        return FlagSet({k: z3.Or(self.bits[k], o.bits[k]) for k in FLAGS})

    def __bool__(self):
        return ctx().branch(z3.Or([self.bits[k] for k in FLAGS]), 'flag')


class _SimplificationModel:
    pass


for _k in FLAGS:
    setattr(_SimplificationModel, _k, FlagSet({k: z3.BoolVal(k == _k) for k in FLAGS}))


class MapperModel:
    """`self` of SimplifyMapper: enabled flags are arbitrary (every subset is covered by one proof)"""

    def __init__(self, mode):
        c = ctx()
        self.enabled_simplifications = FlagSet({k: c.fresh(z3.BoolSort(), 'flag_' + k) for k in FLAGS})
        self.rec = ValueContract('rec', mode)


def mapper_globals(mode):
    g = dict(G)
    g['Simplification'] = _SimplificationModel
    for n in ('flatten_expr', 'sum_literals', 'collect_coefficients', 'mul_literals', 'div_literals'):
        g[n] = ValueContract(n, mode)
    return g


def mapper_lemmas(mode):
    names = ('rec', 'flatten_expr', 'sum_literals', 'collect_coefficients', 'mul_literals', 'div_literals')
    return lemmas_for(mode) + [ValueContract(n, mode).axiom for n in names] + exprs.POW_AXIOMS


def mapper_ground(mode):
    from pyvc.core import ground_instances
    ax = exprs.PEQ_AXIOMS + exprs.REAL_AXIOMS + exprs.POW_AXIOMS + [
        ValueContract(n, mode).axiom for n in ('rec', 'flatten_expr', 'sum_literals', 'collect_coefficients',
                                               'mul_literals', 'div_literals')]
    return lambda terms: ground_instances(ax, terms)


def _nary_spec(method, classes, mode, fold):
    def setup(spec):
        c = ctx()
        e = T.fresh_obj('expr')
        c.assume(is_any(e.t, classes))
        c.assume(mode.wf(e.t))
        return (MapperModel(mode), e), {}, {'expr': e}

    def hook(vc, f, x, cond_t, elt_t, seq, res):
        comp_lemma('rec-children', seq.t,
                   lambda L: z3.Implies(mode.wfl(L), z3.And(fold(f(L)) == fold(L), mode.wfl(f(L)))))

    def post(env, r):
        return [('value', mode.val(T.lift(r)) == mode.val(env['expr'].t)), ('wf', mode.wf(T.lift(r)))]
    return FunctionSpec(PROP, F, 'SimplifyMapper.' + method, mapper_globals(mode), setup, post,
                        comp_hooks={1: hook}, variant=mode.m, theory=T, lemmas=mapper_lemmas(mode),
                        ground=mapper_ground(mode))


def spec_map_sum(mode):
    return _nary_spec('map_sum', ('Sum', 'ParenthesisedAdd'), mode, mode.sumv)


def spec_map_product(mode):
    return _nary_spec('map_product', ('Product', 'ParenthesisedMul'), mode, mode.prodv)


def spec_map_quotient(mode):
    def setup(spec):
        c = ctx()
        e = T.fresh_obj('expr')
        c.assume(is_any(e.t, ('Quotient', 'ParenthesisedDiv')))
        c.assume(mode.wf(e.t))
        return (MapperModel(mode), e), {}, {'expr': e}

    def post(env, r):
        return [('value', mode.val(T.lift(r)) == mode.val(env['expr'].t)), ('wf', mode.wf(T.lift(r)))]
    return FunctionSpec(PROP, F, 'SimplifyMapper.map_quotient', mapper_globals(mode), setup, post,
                        variant=mode.m, theory=T, lemmas=mapper_lemmas(mode), ground=mapper_ground(mode))


def spec_map_power(mode):
    def setup(spec):
        c = ctx()
        e = T.fresh_obj('expr')
        c.assume(is_any(e.t, ('Power', 'ParenthesisedPow')))
        c.assume(mode.wf(e.t))
        return (MapperModel(mode), e), {}, {'expr': e}

    def post(env, r):
        return [('value', mode.val(T.lift(r)) == mode.val(env['expr'].t)), ('wf', mode.wf(T.lift(r)))]
    return FunctionSpec(PROP, F, 'SimplifyMapper.map_power', mapper_globals(mode), setup, post,
                        variant=mode.m, theory=T, lemmas=mapper_lemmas(mode), ground=mapper_ground(mode))


def specs(tier='quick'):       # pylint: disable=function-redefined
    out = []
    for mode in (MZ, MR):
        out += [spec_is_minus_prefix(mode), spec_strip_minus_prefix(mode), spec_flatten_expr(mode),
                spec_map_sum(mode), spec_map_product(mode), spec_map_quotient(mode), spec_map_power(mode)]
    return out
