"""C08 - symbolic simplification preserves expression values: sidecar contracts for
loki/expression/symbolic.py (DESIGN section 4, C08)."""
import z3
from pyvc.runner import FunctionSpec, call_contract
from pyvc.values import SV, SSeq, mk_bool
from pyvc.core import ctx
from pyvc.inline import inline
from . import exprs
from .exprs import T, C, V, VL, MZ, MR, fresh_expr, as_tuple, lemmas_for, ground_for, is_any, PRODS
from .pmbl_model import pmbl
from .loki_expr_model import sym

F = 'loki/expression/symbolic.py'
PROP = 'C08'
G = {'sym': sym, 'pmbl': pmbl, 'as_tuple': as_tuple}
# small pure helpers are inlined (executed from their real source), DESIGN 3.2
G['is_minus_prefix'] = inline(F, 'is_minus_prefix', G)
G['strip_minus_prefix'] = inline(F, 'strip_minus_prefix', G)


def value_contract(name, mode):
    """contract stub of a value-preserving unary function: result is a well-formed operand with the same value"""
    def stub(x, *a, **kw):
        xt = T.lift(x)
        def post(r):
            return [mode.val(r.t) == mode.val(xt), mode.wf(r.t)]
        return call_contract(name, pre=[('wf', mode.wf(xt))], result=lambda: fresh_expr(name), post=post)
    return stub


def spec_is_minus_prefix(mode):
    def setup(spec):
        e = fresh_expr('expr')
        ctx().assume(mode.wf(e.t))
        return (e,), {}, {'expr': e}

    def post(env, r):
        e = env['expr'].t
        ch = exprs.field(e, PRODS, 'children')
        rb = r.t if hasattr(r, 't') else z3.BoolVal(bool(r))
        return [
            # what callers rely on: a minus-prefixed product is (-1) * rest
            ('value', z3.Implies(rb, z3.And(is_any(e, PRODS), VL.is_cons(ch), mode.val(VL.hd(ch)) == mode.num(-1)))),
            # exact characterisation (documented: expr == Product((-1, ...)) with a *python* -1)
            ('exact', rb == z3.And(is_any(e, ('Product', 'ParenthesisedMul')), VL.is_cons(ch),
                                   z3.Or(VL.hd(ch) == V.VInt(-1), VL.hd(ch) == V.VReal(-1)))),
        ]
    return FunctionSpec(PROP, F, 'is_minus_prefix', G, setup, post, variant=mode.m, theory=T,
                        lemmas=lemmas_for(mode), ground=ground_for(mode))


def spec_strip_minus_prefix(mode):
    def setup(spec):
        e = fresh_expr('expr')
        ctx().assume(mode.wf(e.t))
        return (e,), {}, {'expr': e}

    def post(env, r):
        e = env['expr'].t
        return [('value', mode.val(T.lift(r)) == -mode.val(e)), ('wf', mode.wf(T.lift(r)))]

    def raises(env, exc):
        if isinstance(exc, ValueError):
            return [('only-if-not-prefixed', z3.BoolVal(True))]
        return None
    return FunctionSpec(PROP, F, 'strip_minus_prefix', G, setup, post, raises=raises, variant=mode.m, theory=T,
                        lemmas=lemmas_for(mode), ground=ground_for(mode))


def spec_flatten_expr(mode):
    g = dict(G)
    g['distribute_product'] = value_contract('distribute_product', mode)
    g['distribute_quotient'] = value_contract('distribute_quotient', mode)

    def setup(spec):
        e = fresh_expr('expr')
        ctx().assume(mode.wf(e.t))
        return (e,), {}, {'expr': e}

    def inv(L):
        e = L['expr'].t
        done, queue = T.lift_seq(L['done']), T.lift_seq(L['queue'])
        return {'value': mode.sumv(done) + mode.sumv(queue) == mode.val(e),
                'wf': z3.And(mode.wfl(done), mode.wfl(queue))}

    def post(env, r):
        return [('value', mode.val(T.lift(r)) == mode.val(env['expr'].t)), ('wf', mode.wf(T.lift(r)))]
    return FunctionSpec(PROP, F, 'flatten_expr', g, setup, post, invariants={1: inv}, variant=mode.m, theory=T,
                        lemmas=lemmas_for(mode), ground=ground_for(mode))


def specs(tier='quick'):
    out = []
    for mode in (MZ, MR):
        out += [spec_is_minus_prefix(mode), spec_strip_minus_prefix(mode), spec_flatten_expr(mode)]
    return out
