"""C09 - symbolic comparisons only answer what holds for all values (DESIGN section 4 C09).

symbolic_op(e1, op, e2) for the six rich comparisons: a returned bool must be the truth of the comparison under
every valuation (the valuation is the uninterpreted leaf semantics, so validity of the VC is 'for all values');
undecidable cases must raise.  simplify / is_minus_prefix / pymbolic's e1 - e2 are used through their contracts."""
import operator as _op
import types
import z3
from pyvc.runner import FunctionSpec
from pyvc.inline import inline
from pyvc.values import SV, SBool, SInt, mk_bool, as_bool_term
from pyvc.core import ctx, OutOfSubset
from . import exprs
from .exprs import T, C, V, VL, MZI as MZ, fresh_expr, ValueContract
from .pmbl_model import pmbl, use_ops, op_axioms
from .loki_expr_model import sym, LIT, G as LG

F = 'loki/expression/symbolic.py'
PROP = 'C09'
OPS = {'eq': _op.eq, 'ne': _op.ne, 'lt': _op.lt, 'le': _op.le, 'gt': _op.gt, 'ge': _op.ge}
ZOP = {'eq': lambda a, b: a == b, 'ne': lambda a, b: a != b, 'lt': lambda a, b: a < b, 'le': lambda a, b: a <= b,
       'gt': lambda a, b: a > b, 'ge': lambda a, b: a >= b}

# real comparison methods of the literal classes; every other expression class falls back to pymbolic
for _m in ('__eq__', '__lt__', '__le__', '__gt__', '__ge__'):
    C['FloatLiteral'].methods[_m] = inline(LIT, 'FloatLiteral.' + _m, dict(LG, UnknownVariableError=ValueError))


def pymbolic_eq_fallback(self, other):
    """TRUSTED MODEL of StrCompareMixin.__eq__ -> pymbolic Expression.__eq__ for an expression node compared with a
    python number: `self is other` is false and the hashes differ, so the answer is False (structural)."""
    if isinstance(other, (int, SInt)) or isinstance(other, (float,)):
        return False
    raise OutOfSubset('expression == %r' % (other,))


C['Expression'].methods['__eq__'] = pymbolic_eq_fallback
C['Expression'].methods['__ne__'] = lambda self, other: not pymbolic_eq_fallback(self, other)


class RecResult(Exception):
    pass


def spec_symbolic_op(opname):
    simp = ValueContract('simplify', MZ)

    def simplify_nf(expr, *a, **kw):
        """CONTRACT of simplify (C08) + ASSUMED normal form NF1: a minus-prefixed *constant* result is not zero
        (mul_literals folds a zero coefficient into the literal 0); NF1 is bounded-checked by bounded/C08_native.py"""
        r = simp(expr)
        ch = exprs.field(r.t, exprs.PRODS, 'children')
        ctx().assume(z3.Implies(imp_term(r.t), MZ.val(r.t) != 0))
        return r

    def is_minus_prefix_contract(e):
        return mk_bool(imp_term(T.lift(e)))

    def rec_contract(e1, op, e2):
        """IH for the recursive call symbolic_op(stripped, op, 0): either raises TypeError or returns the truth"""
        c = ctx()
        if c.branch(c.fresh(z3.BoolSort(), 'rec_raises'), 'rec-raises'):
            raise TypeError("expressions don't have an order")
        return mk_bool(ZOP[opname](MZ.val(T.lift(e1)), MZ.val(T.lift(e2))))

    isconst = z3.Function('is_constant', V, z3.BoolSort())

    def is_constant_contract(e):
        """CONTRACT of is_constant: a pure predicate of the expression (no further property is relied upon)"""
        return mk_bool(isconst(T.lift(e)))

    g = {'_op': _op, 'simplify': simplify_nf, 'is_minus_prefix': is_minus_prefix_contract, 'symbolic_op': rec_contract,
         'is_constant': is_constant_contract, 'pmbl': pmbl, 'sym': sym}
    g['strip_minus_prefix'] = inline(F, 'strip_minus_prefix', dict(g, sym=sym, pmbl=pmbl, as_tuple=exprs.as_tuple))

    def setup(spec):
        use_ops('contract', MZ)
        T.dyn_eq_saved = getattr(T, 'dyn_eq', None)
        T.dyn_eq = None
        c = ctx()
        e1, e2 = fresh_expr('expr1'), fresh_expr('expr2')
        c.assume(z3.And(MZ.wf(e1.t), MZ.wf(e2.t), exprs.is_expression(e1.t)))
        return (e1, OPS[opname], e2), {}, {'e1': e1, 'e2': e2}

    def post(env, r):
        truth = ZOP[opname](MZ.val(env['e1'].t), MZ.val(env['e2'].t))
        rb = as_bool_term(r) if isinstance(r, (bool, SBool)) else None
        if rb is None:
            return [('returns-bool', z3.BoolVal(False))]
        return [('sound', rb == truth)]

    def raises(env, exc):
        if isinstance(exc, TypeError):
            return [('may-raise-when-undecided', z3.BoolVal(True))]
        return None

    def decode(env, m, r):
        return {'function': 'symbolic_op', 'op': opname, 'expr1': exprs.decode_expr(m, env['e1'].t),
                'expr2': exprs.decode_expr(m, env['e2'].t)}

    from pyvc.core import ground_instances
    ax = exprs.PEQ_AXIOMS + [simp.axiom] + op_axioms(MZ)
    return FunctionSpec(PROP, F, 'symbolic_op', g, setup, post, raises=raises, variant=opname, theory=T,
                        lemmas=exprs.lemmas_for(MZ) + [simp.axiom] + op_axioms(MZ),
                        ground=lambda terms: ground_instances(ax, terms), decode=decode,
                        budgets=(6_000_000, 4_000_000, 5_000_000, 60_000_000, 6_000_000, 240_000),
                        notes=['simplify through its C08 contract + normal form NF1 (assumed)',
                               'pymbolic e1 - e2 through the contract of the arithmetic overloads'])


def imp_term(e):
    ch = exprs.field(e, exprs.PRODS, 'children')
    return z3.And(exprs.is_any(e, ('Product', 'ParenthesisedMul')), VL.is_cons(ch),
                  z3.Or(VL.hd(ch) == V.VInt(-1), VL.hd(ch) == V.VReal(-1)))


def specs(tier='quick'):
    return [spec_symbolic_op(k) for k in ('eq', 'ne', 'lt', 'le', 'gt', 'ge')]


def lemma_proofs():
    return exprs.lemma_proofs((MZ,))


META = {
    'category': 'other',
    'technique': 'contract-based deductive verification (pyvc) on top of the C08 contract of simplify',
    'level_text': 'For each of the six comparison operators symbolic_op is executed from its real source on arbitrary '
                  'well-formed integer operands; every path that returns a bool must return the truth of the comparison '
                  'for all valuations, paths that cannot decide must raise TypeError.',
    'level_note': 'Trusted: pyvc engine; contract of simplify (C08) plus the assumed normal form NF1 (a minus-prefixed '
                  'constant result is non-zero); contracts of pymbolic arithmetic overloads; model of the pymbolic '
                  '__eq__ fallback for expression vs python number (False); IntLiteral/FloatLiteral comparison methods '
                  'are the real source. Known finding: == and != answer False/True for an undecidable residue. Bounded, never counted as proved: symbolic_op on 35 x 35 small integer polynomials x {lt, le, gt, ge} against an integer grid (bounded/C09_native.py), which exercises the real simplify body behind the C08 contract.',
    'trusted_base': ['pyvc engine', 'C08 contract of simplify + NF1', 'pymbolic Expression.__eq__ fallback model',
                     'contracts of pymbolic __sub__/__neg__/__mul__'],
    'assumptions': ['integer operands (val_Z)', 'termination not proved'],
}


def bounded_checks(tier, seed):
    """native cross-check (bounded/C09_native.py): symbolic_op on 35 x 35 small polynomials x 4 order comparisons against an
    integer grid; exercises the real simplify body that the deductive contract only uses through its C08 contract.
    Bounded, never counted as proved."""
    import json
    import os
    import subprocess
    root = os.path.dirname(os.path.dirname(os.path.abspath(__file__)))
    repo = os.environ.get('LOKI_REPO', '/repo')
    p = subprocess.run([os.environ.get('LOKI_PYTHON', '/venv/bin/python'), os.path.join(root, 'bounded', 'C09_native.py')],
                       capture_output=True, text=True, timeout=1800, env=dict(os.environ, PYTHONPATH=repo), cwd=repo)
    line = next((l for l in reversed(p.stdout.splitlines()) if l.startswith('{')), None)
    rule = ('every ordered pair of 35 integer polynomials over a, b, c (constructor-built and operator-built, n-ary products '
            'with up to three sign-carrying factors) x {lt, le, gt, ge}: a definite answer of symbolic_op agrees with the '
            'comparison at all 216 points of the grid {-3,-1,0,1,2,4}^3; TypeError (cannot decide) always allowed')
    if line is None:
        return [{'name': 'bounded/symbolic_op', 'cases': 0, 'violation': False, 'error': p.stderr[-600:], 'rule': rule}]
    d = json.loads(line)
    return [{'name': 'bounded/symbolic_op', 'cases': d['cases'], 'distinct': d['cases'], 'rule': rule,
             'bound': '35 polynomials, grid of 216 points', 'violation': bool(d['violation']), 'cex': d.get('cex'),
             'n_violations': d.get('n_violations', 0)}]
