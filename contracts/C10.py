"""C10 - loop-range helpers match Fortran DO-loop iteration semantics (DESIGN section 4, C10; A.5)."""
import z3
from pyvc.runner import FunctionSpec, call_contract
from pyvc.values import SV, SSeq, SInt, mk_int, mk_bool, as_int_term
from pyvc.core import ctx, OutOfSubset
from pyvc import vcrt
from . import exprs
from .exprs import T, C, V, VL, MZ, tdiv, fresh_expr, as_tuple
from .loki_expr_model import sym
from .pmbl_model import pmbl

F = 'loki/expression/symbolic.py'
PROP = 'C10'

META = {
    'trusted_base': [
        'pyvc engine (CPython execution of the mechanically rewritten real function bodies, proxy classes, z3)',
        'model of Python range(a, b, s): elements a + k*s for 0 <= k < max(0, ceil((b-a)/s))',
        'model of LokiEvaluationMapper on an IntLiteral: returns .value (map_int_literal in evaluation.py)',
        'Fortran 2018 11.1.7.4.1: iteration count max(0, trunc((stop - start + step)/step))',
    ],
    'assumptions': ['integers are mathematical (exact for Python int)', 'termination is not proved'],
}


class SRange:
    """model of a Python range object with symbolic bounds"""

    def __init__(self, *a):
        if len(a) == 1:
            self.start, self.stop, self.step = 0, a[0], 1
        elif len(a) == 2:
            self.start, self.stop, self.step = a[0], a[1], 1
        else:
            self.start, self.stop, self.step = a
        st = as_int_term(self.step)
        if not ctx().branch(st != 0, 'range-step-nonzero'):
            raise ValueError('range() arg 3 must not be zero')

    def count(self):
        a, b, s = as_int_term(self.start), as_int_term(self.stop), as_int_term(self.step)
        # ceil((b-a)/s) for s>0 ; ceil((a-b)/(-s)) for s<0 ; z3 `/` on ints with a positive divisor is floor
        up = (b - a + s - 1) / s
        dn = (a - b + (-s) - 1) / (-s)
        n = z3.If(s > 0, up, dn)
        return z3.If(n > 0, n, 0)


T.sym_range = lambda *a: SRange(*a)


def LokiEvaluationMapper(**kw):
    def lem(e):
        if isinstance(e, SV) and e.known_class() == 'IntLiteral':
            return e.value
        if isinstance(e, SV):
            if vcrt.m_isinstance(e, C['IntLiteral']):
                return e.value
        raise OutOfSubset('LokiEvaluationMapper model only covers IntLiteral operands')
    return lem


def do_count(a, b, s):
    n = tdiv(b - a + s, s)
    return z3.If(n > 0, n, 0)


def spec_get_pyrange(with_step):
    g = {'LokiEvaluationMapper': LokiEvaluationMapper, 'floor': vcrt.m_floor, 'sym': sym}

    def setup(spec):
        c = ctx()
        a, b = SInt(c.fresh(z3.IntSort(), 'start')), SInt(c.fresh(z3.IntSort(), 'stop'))
        if with_step:
            s = SInt(c.fresh(z3.IntSort(), 'step'))
            c.assume(s.t != 0)
            rng = C['LoopRange']((C['IntLiteral'](a), C['IntLiteral'](b), C['IntLiteral'](s)))
        else:
            s = None
            rng = C['LoopRange']((C['IntLiteral'](a), C['IntLiteral'](b)))
        return (rng,), {}, {'a': a, 'b': b, 's': s}

    def post(env, r):
        a, b = env['a'].t, env['b'].t
        s = env['s'].t if env['s'] is not None else z3.IntVal(1)
        if not isinstance(r, SRange):
            return [('is-range', z3.BoolVal(False))]
        return [('first', as_int_term(r.start) == a), ('stride', as_int_term(r.step) == s),
                ('count', r.count() == do_count(a, b, s))]

    def decode(env, m, r):
        def ev(x):
            return m.eval(x.t, model_completion=True).as_long()
        return {'function': 'get_pyrange', 'start': ev(env['a']), 'stop': ev(env['b']),
                'step': ev(env['s']) if env['s'] is not None else None}
    return FunctionSpec(PROP, F, 'get_pyrange', g, setup, post, variant='step' if with_step else 'nostep',
                        theory=T, lemmas=[], decode=decode)


def specs(tier='quick'):
    return [spec_get_pyrange(True), spec_get_pyrange(False)]
