"""C10 - loop-range helpers match Fortran DO-loop iteration semantics (DESIGN section 4, C10; A.5)."""
import z3
from pyvc.runner import FunctionSpec, call_contract
from pyvc.values import SV, SSeq, SInt, mk_int, mk_bool, as_int_term
from pyvc.core import ctx, OutOfSubset
from pyvc import vcrt
from . import exprs
from .exprs import T, C, V, VL, tdiv, fresh_expr, as_tuple
from .exprs import MZI as MZ       # C10's specification is plain (interpreted) integer arithmetic
from .loki_expr_model import sym
from .pmbl_model import pmbl

F = 'loki/expression/symbolic.py'
PROP = 'C10'

META = {
    'category': 'proof',
    'technique': 'contract-based deductive verification (pyvc: real source re-extracted, symbolic execution, z3 VCs)',
    'level_text': 'Every obligation of get_pyrange, LoopRange.num_iterations/normalized, iteration_number, '
                  'iteration_index and ceil_division is discharged by z3 for all integers start/stop and all '
                  'non-zero steps (literal for get_pyrange, arbitrary operand expressions for the others), from the '
                  'function text re-read from /repo on every run; simplify() is used through its C08 contract.',
    'level_note': 'Trusted: pyvc engine and its rewriting table; models of range() and of LokiEvaluationMapper on '
                  'IntLiteral; the C08 contract of simplify (value preserved under val_Z); Fortran iteration count '
                  'per F2018 11.1.7.4.1; integers mathematical; termination not proved.',
    'trusted_base': [
        'pyvc engine (CPython execution of the mechanically rewritten real function bodies, proxy classes, z3)',
        'model of Python range(a, b, s): elements a + k*s for 0 <= k < max(0, ceil((b-a)/s))',
        'model of LokiEvaluationMapper on an IntLiteral: returns .value (map_int_literal in evaluation.py)',
        'Fortran 2018 11.1.7.4.1: iteration count max(0, trunc((stop - start + step)/step))',
    ],
    'assumptions': ['integers are mathematical (exact for Python int)', 'termination is not proved'],
}


class SRange:
    """model of a Python range object with symbolic bounds"""

    def __init__(self, *a):
        if len(a) == 1:
            self.start, self.stop, self.step = 0, a[0], 1
        elif len(a) == 2:
            self.start, self.stop, self.step = a[0], a[1], 1
        else:
            self.start, self.stop, self.step = a
        st = as_int_term(self.step)
        if not ctx().branch(st != 0, 'range-step-nonzero'):
            raise ValueError('range() arg 3 must not be zero')

    def count(self):
        a, b, s = as_int_term(self.start), as_int_term(self.stop), as_int_term(self.step)
        # ceil((b-a)/s) for s>0 ; ceil((a-b)/(-s)) for s<0 ; z3 `/` on ints with a positive divisor is floor
        up = (b - a + s - 1) / s
        dn = (a - b + (-s) - 1) / (-s)
        n = z3.If(s > 0, up, dn)
        return z3.If(n > 0, n, 0)


T.sym_range = lambda *a: SRange(*a)


def LokiEvaluationMapper(**kw):
    def lem(e):
        if isinstance(e, SV) and e.known_class() == 'IntLiteral':
            return e.value
        if isinstance(e, SV):
            if vcrt.m_isinstance(e, C['IntLiteral']):
                return e.value
        raise OutOfSubset('LokiEvaluationMapper model only covers IntLiteral operands')
    return lem


def do_count(a, b, s):
    n = tdiv(b - a + s, s)
    return z3.If(n > 0, n, 0)


def spec_get_pyrange(with_step):
    g = {'LokiEvaluationMapper': LokiEvaluationMapper, 'floor': vcrt.m_floor, 'sym': sym}

    def setup(spec):
        c = ctx()
        a, b = SInt(c.fresh(z3.IntSort(), 'start')), SInt(c.fresh(z3.IntSort(), 'stop'))
        if with_step:
            s = SInt(c.fresh(z3.IntSort(), 'step'))
            c.assume(s.t != 0)
            rng = C['LoopRange']((C['IntLiteral'](a), C['IntLiteral'](b), C['IntLiteral'](s)))
        else:
            s = None
            rng = C['LoopRange']((C['IntLiteral'](a), C['IntLiteral'](b)))
        return (rng,), {}, {'a': a, 'b': b, 's': s}

    def post(env, r):
        a, b = env['a'].t, env['b'].t
        s = env['s'].t if env['s'] is not None else z3.IntVal(1)
        if not isinstance(r, SRange):
            return [('is-range', z3.BoolVal(False))]
        return [('first', as_int_term(r.start) == a), ('stride', as_int_term(r.step) == s),
                ('count', r.count() == do_count(a, b, s))]

    def decode(env, m, r):
        def ev(x):
            return m.eval(x.t, model_completion=True).as_long()
        return {'function': 'get_pyrange', 'start': ev(env['a']), 'stop': ev(env['b']),
                'step': ev(env['s']) if env['s'] is not None else None}
    return FunctionSpec(PROP, F, 'get_pyrange', g, setup, post, variant='step' if with_step else 'nostep',
                        theory=T, lemmas=[], decode=decode)


SYMF = 'loki/expression/symbols.py'


def operand(name, val=None):
    """an arbitrary well-formed integer operand whose value under the valuation is the fresh int `name`"""
    c = ctx()
    e = fresh_expr(name)
    v = c.fresh(z3.IntSort(), name + '_val')
    c.assume(MZ.wf(e.t))
    c.assume(MZ.val(e.t) == v)
    return e, v


def simplify_contract(expr, enabled_simplifications=None):
    """CONTRACT of loki.expression.symbolic.simplify (established by the C08 obligations): value preserved
    under val_Z for operands whose divisors are non-zero; result well formed."""
    xt = T.lift(expr)
    return call_contract('simplify', pre=[('wf', MZ.wf(xt))], result=lambda: fresh_expr('simplified'),
                         post=lambda r: [MZ.val(r.t) == MZ.val(xt), MZ.wf(r.t)])


class _Simplification:
    IntegerArithmetic = 'IntegerArithmetic'


GS = {'sym': sym, 'simplify': simplify_contract, 'Simplification': _Simplification, 'pmbl': pmbl}
GSYM = {n: C[n] for n in ('IntLiteral', 'Sum', 'Product', 'Quotient', 'LoopRange')}
GSYM['pmbl'] = pmbl
GSYM['Range'] = C['Range'] if 'Range' in C else None
# members of the range classes that the model does not define are loaded from the real class statements
for _cn in ('LoopRange', 'Range', 'RangeIndex'):
    if _cn in C:
        C[_cn].source = (SYMF, _cn, GSYM)


def _mk_range(with_step):
    a, av = operand('start')
    b, bv = operand('stop')
    if with_step:
        s, sv = operand('step')
        ctx().assume(sv != 0)
        rng = C['LoopRange']((a, b, s))
    else:
        s, sv = None, z3.IntVal(1)
        rng = C['LoopRange']((a, b))
    return rng, av, bv, sv


def spec_num_iterations(with_step):
    def setup(spec):
        rng, av, bv, sv = _mk_range(with_step)
        n = do_count(av, bv, sv)
        ctx().assume(n >= 1)            # property: "for every non-empty loop"
        return (rng,), {}, {'a': av, 'b': bv, 's': sv, 'n': n}

    def post(env, r):
        return [('count', MZ.val(T.lift(r)) == env['n'])]

    def decode(env, m, r):
        ev = lambda x: m.eval(x, model_completion=True).as_long()
        return {'function': 'num_iterations', 'start': ev(env['a']), 'stop': ev(env['b']),
                'step': ev(env['s']) if with_step else None}
    return FunctionSpec(PROP, SYMF, 'LoopRange.num_iterations', GSYM, setup, post, theory=T,
                        variant='step' if with_step else 'nostep', lemmas=exprs.lemmas_for(MZ),
                        ground=exprs.ground_for(MZ), decode=decode)


def spec_normalized(with_step):
    def num_iter_stub(self):
        # contract of num_iterations (proved above): value = Fortran iteration count for non-empty loops
        r = fresh_expr('numiter')
        ctx().assume(MZ.wf(r.t))
        return r
    g = dict(GSYM)

    def setup(spec):
        rng, av, bv, sv = _mk_range(with_step)
        n = do_count(av, bv, sv)
        ctx().assume(n >= 1)
        ni = fresh_expr('numiter')
        ctx().assume(z3.And(MZ.wf(ni.t), MZ.val(ni.t) == n))
        C['LoopRange'].props['num_iterations'] = lambda self: ni
        return (rng,), {}, {'n': n}

    def post(env, r):
        rt = T.lift(r)
        ok = T.recog['is_C_LoopRange'](rt)
        return [('is-range', ok),
                ('start-1', MZ.val(T.acc['LoopRange__start'](rt)) == 1),
                ('stop-n', MZ.val(T.acc['LoopRange__stop'](rt)) == env['n']),
                ('unit-step', T.acc['LoopRange__step'](rt) == V.VNone)]
    return FunctionSpec(PROP, SYMF, 'LoopRange.normalized', g, setup, post, theory=T,
                        variant='step' if with_step else 'nostep', lemmas=exprs.lemmas_for(MZ),
                        ground=exprs.ground_for(MZ))


def spec_iteration_number(with_step):
    def setup(spec):
        c = ctx()
        rng, av, bv, sv = _mk_range(with_step)
        n = do_count(av, bv, sv)
        k = c.fresh(z3.IntSort(), 'k')
        c.assume(z3.And(k >= 0, k < n))          # i is the (k+1)-th value the DO loop visits
        i, iv = operand('iter_idx')
        c.assume(iv == av + k * sv)
        return (i, rng), {}, {'a': av, 'b': bv, 's': sv, 'k': k}

    def post(env, r):
        return [('number', MZ.val(T.lift(r)) == env['k'] + 1)]

    def decode(env, m, r):
        ev = lambda x: m.eval(x, model_completion=True).as_long()
        return {'function': 'iteration_number', 'start': ev(env['a']), 'stop': ev(env['b']),
                'step': ev(env['s']) if with_step else None, 'k': ev(env['k'])}
    return FunctionSpec(PROP, F, 'iteration_number', GS, setup, post, theory=T,
                        variant='step' if with_step else 'nostep', lemmas=exprs.lemmas_for(MZ),
                        ground=exprs.ground_for(MZ), decode=decode)


def spec_iteration_index(with_step):
    def setup(spec):
        c = ctx()
        rng, av, bv, sv = _mk_range(with_step)
        n = do_count(av, bv, sv)
        m, mv = operand('iter_num')
        c.assume(z3.And(mv >= 1, mv <= n))
        return (m, rng), {}, {'a': av, 'b': bv, 's': sv, 'm': mv}

    def post(env, r):
        return [('index', MZ.val(T.lift(r)) == env['a'] + (env['m'] - 1) * env['s'])]

    def decode(env, m, r):
        ev = lambda x: m.eval(x, model_completion=True).as_long()
        return {'function': 'iteration_index', 'start': ev(env['a']), 'stop': ev(env['b']),
                'step': ev(env['s']) if with_step else None, 'm': ev(env['m'])}
    return FunctionSpec(PROP, F, 'iteration_index', GS, setup, post, theory=T,
                        variant='step' if with_step else 'nostep', lemmas=exprs.lemmas_for(MZ),
                        ground=exprs.ground_for(MZ), decode=decode)


def spec_ceil_division():
    def setup(spec):
        x, xv = operand('iexpr1')
        y, yv = operand('iexpr2')
        ctx().assume(z3.And(xv >= 1, yv >= 1))      # documented use: positive sizes / block sizes
        return (x, y), {}, {'x': xv, 'y': yv}

    def post(env, r):
        x, y = env['x'], env['y']
        return [('ceil', MZ.val(T.lift(r)) == (x + y - 1) / y)]

    def decode(env, m, r):
        ev = lambda x: m.eval(x, model_completion=True).as_long()
        return {'function': 'ceil_division', 'x': ev(env['x']), 'y': ev(env['y'])}
    return FunctionSpec(PROP, F, 'ceil_division', GS, setup, post, theory=T, lemmas=exprs.lemmas_for(MZ),
                        ground=exprs.ground_for(MZ), decode=decode)


def lemma_proofs():
    return exprs.lemma_proofs((MZ,))


def specs(tier='quick'):
    out = [spec_get_pyrange(True), spec_get_pyrange(False)]
    for ws in (True, False):
        out += [spec_num_iterations(ws), spec_normalized(ws), spec_iteration_number(ws), spec_iteration_index(ws)]
    out.append(spec_ceil_division())
    return out


def bounded_checks(tier, seed):
    """native cross-check over all small literal ranges (bounded/C10_native.py): backs the contracts up when the code
    leaves the verifier's subset (e.g. a new recursive helper without contract); never counted as proved"""
    import json
    import os
    import subprocess
    root = os.path.dirname(os.path.dirname(os.path.abspath(__file__)))
    repo = os.environ.get('LOKI_REPO', '/repo')
    p = subprocess.run([os.environ.get('LOKI_PYTHON', '/venv/bin/python'), os.path.join(root, 'bounded', 'C10_native.py')],
                       capture_output=True, text=True, timeout=1800, env=dict(os.environ, PYTHONPATH=repo), cwd=repo)
    line = next((l for l in reversed(p.stdout.splitlines()) if l.startswith('{')), None)
    rule = ('all literal loop ranges with start, stop in [-6, 6], step in [-4, 4] without 0 (and no step), bounds as '
            'IntLiteral and as negated literals: get_pyrange, num_iterations, normalized, iteration_number, '
            'iteration_index against the Fortran DO sequence')
    if line is None:
        return [{'name': 'bounded/loop-range-helpers', 'cases': 0, 'violation': False, 'error': p.stderr[-600:], 'rule': rule}]
    d = json.loads(line)
    return [{'name': 'bounded/loop-range-helpers', 'cases': d['cases'], 'distinct': d['cases'], 'rule': rule,
             'bound': '|start|,|stop| <= 6, |step| <= 4', 'violation': bool(d['violation']), 'cex': d.get('cex'),
             'n_violations': d.get('n_violations', 0)}]
