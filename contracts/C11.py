"""C11 - expression equality is symmetric, case-insensitive and hash-consistent (DESIGN section 4 C11).

The class hierarchy of loki/expression/{mixins,literals,symbols,operations}.py and of pymbolic.primitives is MIRRORED
mechanically: for every class statement a real Python class with the same name and the same bases is created, whose
__eq__ / __ne__ / __hash__ / _canonical / is_equal / get_hash are the functions extracted from the real source by the
pyvc pipeline (nothing else is copied).  Python itself then runs the comparison protocol on the mirror (reflected
method first for a subclass on the right, NotImplemented fall-back, C3 method resolution, zero-argument super()).
Instances carry symbolic content: str(x) is an arbitrary string, __getinitargs__() an opaque token with an arbitrary
(symmetric) equality and a hash that respects it, literal values and kinds are symbolic.

For every ORDERED pair of node classes (A, B), on arbitrary instances a, b:
    symmetric        (a == b) <=> (b == a)
    hash-consistent  (a == b)  => hash(a) == hash(b)
    case-insensitive (same class, plain StrCompareMixin equality) str(a), str(b) equal up to letter case => a == b
The documented shortcut `1:n == n` of Range / RangeIndex is excluded as the property says (the first child of a
range instance is a value that is not 1)."""
import ast
import os
import sys
import types
import z3
from pyvc import vcrt, rewrite
from pyvc.runner import FunctionSpec
from pyvc.inline import inline
from pyvc.values import Theory, SV, SStr, SInt, SBool, Sym, mk_bool, mk_str, mk_int, truth, as_str_term, as_bool_term, \
    as_int_term, _LOWER, lower_axioms
from pyvc.core import ctx, OutOfSubset

PROP = 'C11'
LOKI = {'mixins': 'loki/expression/mixins.py', 'literals': 'loki/expression/literals.py',
        'symbols': 'loki/expression/symbols.py', 'operations': 'loki/expression/operations.py'}


def _pymbolic_primitives():
    for base in ('/venv/lib/python3.12/site-packages', ):
        p = os.path.join(base, 'pymbolic', 'primitives.py')
        if os.path.exists(p):
            return p
    raise OutOfSubset('pymbolic/primitives.py not found')


PMBL = _pymbolic_primitives()
T = Theory('eqhash', [])
S = z3.StringSort()
H = z3.Function('hash_of_str', S, z3.IntSort())
HT = z3.Function('hash_of_tuple', z3.IntSort(), z3.IntSort(), z3.IntSort())      # folded over the element hashes
REPLACE = z3.Function('str.replace', S, S, S, S)
T.sym_replace = lambda recv, a, b, *rest: mk_str(REPLACE(as_str_term(recv), as_str_term(a), as_str_term(b)))
S2R = z3.Function('float_of_str', S, z3.RealSort())
from pyvc.values import SReal      # noqa: E402  pylint: disable=wrong-import-position
T.str_to_real = lambda x: SReal(S2R(as_str_term(x)))
IEQ = z3.Function('initargs_equal', z3.IntSort(), z3.IntSort(), z3.BoolSort())
IH = z3.Function('initargs_hash', z3.IntSort(), z3.IntSort())
WANT = ('__eq__', '__ne__', '__hash__', '_canonical', 'is_equal', 'get_hash')


def sym_hash(x):
    """hash() of builtin values: strings through an arbitrary function, tuples folded over their elements' hashes
    (any hash function satisfies: equal components => equal hash; nothing more is assumed)"""
    if isinstance(x, (SStr, str)):
        return mk_int(H(as_str_term(x)))
    if isinstance(x, (SInt, SBool)) or isinstance(x, (int, bool)):
        return mk_int(as_int_term(x) if not isinstance(x, (bool, SBool)) else z3.If(as_bool_term(x), 1, 0))
    if x is None:
        return mk_int(z3.IntVal(271828))
    if isinstance(x, tuple):
        acc = z3.IntVal(len(x))
        for e in x:
            acc = HT(acc, as_int_term(vcrt.m_hash(e)))
        return mk_int(acc)
    if isinstance(x, ArgsTok):
        return mk_int(IH(x.uid))
    if isinstance(x, Sym):
        raise OutOfSubset('hash of %r' % (x,))
    h = type(x).__hash__
    if h is None:
        raise TypeError('unhashable type: %s' % type(x).__name__)
    return h(x)


T.sym_hash = sym_hash


class ArgsTok:
    """one element standing for the whole __getinitargs__() tuple of a node: opaque, with an arbitrary equality that
    is symmetric and a hash that respects it"""
    __hash__ = None

    def __init__(self, uid):
        self.uid = uid

    def __eq__(self, o):
        if isinstance(o, ArgsTok):
            c = ctx()
            c.assume(IEQ(self.uid, o.uid) == IEQ(o.uid, self.uid))
            c.assume(z3.Implies(IEQ(self.uid, o.uid), IH(self.uid) == IH(o.uid)))
            return mk_bool(IEQ(self.uid, o.uid))
        return False

    def __ne__(self, o):
        r = self.__eq__(o)
        return mk_bool(z3.Not(as_bool_term(r))) if not isinstance(r, bool) else not r


class ChildTok(ArgsTok):
    """a child expression (numerator, denominator, range bound ...): compared like an opaque value; `== 1` is false"""
    pass


class NodeRoot:
    """root of the mirror hierarchy (stands for `object`): the symbolic content of an instance"""

    def __vc_str__(self):
        return self.text

    def __str__(self):                  # reached through super().__str__() in Range.__hash__
        return self.text

    def __getinitargs__(self):
        return (self.args,)

    def __bool__(self):
        return True


# ---- mirror construction ----------------------------------------------------------------------------------------
_SRC = {}


def _classes_of(path):
    if path not in _SRC:
        tree = ast.parse(rewrite.read_source(path))
        _SRC[path] = {n.name: n for n in ast.walk(tree) if isinstance(n, ast.ClassDef)}
    return _SRC[path]


MIRROR = {}
ORIGIN = {}


def _resolve_base(expr, home):
    """name of a base class expression -> (file, class name)"""
    if isinstance(expr, ast.Attribute) and isinstance(expr.value, ast.Name) and expr.value.id == 'pmbl':
        return (PMBL, expr.attr)
    if isinstance(expr, ast.Name):
        if expr.id == 'object':
            return None
        order = [home] + [rewrite.REPO + '/' + p if not os.path.isabs(p) else p for p in LOKI.values()] + [PMBL]
        for f in order:
            f = f if os.path.isabs(f) else os.path.join(rewrite.REPO, f)
            if expr.id in _classes_of(f):
                return (f, expr.id)
        return ('external', expr.id)
    return ('external', ast.unparse(expr))


GLOB = {}


def mirror(file, name):
    file = file if os.path.isabs(file) else os.path.join(rewrite.REPO, file)
    key = (file, name)
    if key in MIRROR:
        return MIRROR[key]
    node = _classes_of(file).get(name)
    if node is None:
        raise OutOfSubset('class %s not found in %s' % (name, file))
    bases = []
    for b in node.bases:
        r = _resolve_base(b, file)
        if r is None or r[0] == 'external':
            continue            # Scope, object, Generic ...: no part in equality / hashing
        bases.append(mirror(*r))
    if not bases:
        bases = [NodeRoot]
    ns = {'__module__': 'mirror', '__origin__': key}
    seen = {}
    for st in node.body:
        if isinstance(st, ast.FunctionDef) and st.name in WANT:
            seen[st.name] = seen.get(st.name, 0) + 1
            qual = '%s.%s' % (name, st.name)
            fn = inline(file, qual, GLOB)
            if any(isinstance(d, ast.Name) and d.id == 'staticmethod' for d in st.decorator_list):
                fn = staticmethod(fn)
            ns[st.name] = fn
        if isinstance(st, ast.Assign) and any(isinstance(t, ast.Name) and t.id == '__hash__' for t in st.targets):
            ns['__hash__'] = None
    if '__eq__' in ns and '__hash__' not in ns:
        ns['__hash__'] = None           # python: defining __eq__ without __hash__ makes the class unhashable
    try:
        cls = type(name, tuple(bases), ns)
    except TypeError as e:
        raise OutOfSubset('cannot mirror %s: %s' % (name, e))
    MIRROR[key] = cls
    GLOB.setdefault(name, cls)
    return cls


class _FakeRational:
    pass


_m = types.ModuleType('pymbolic.rational')
_m.Rational = _FakeRational
sys.modules.setdefault('pymbolic', types.ModuleType('pymbolic'))
sys.modules['pymbolic.rational'] = _m
GLOB.update({'config': {'case-sensitive': False}, 'UnknownVariableError': ValueError})


def node_classes():
    """the concrete expression node classes (everything in the three loki modules that is an Expression)"""
    out = []
    for mod in ('literals', 'symbols', 'operations'):
        f = os.path.join(rewrite.REPO, LOKI[mod])
        for name in _classes_of(f):
            if name.startswith('_') or name in ('Variable', 'Literal', 'TypedSymbol', 'MetaSymbol'):
                continue
            try:
                cls = mirror(f, name)
            except OutOfSubset:
                continue
            if any(getattr(k, '__origin__', (None, None))[1] == 'Expression' for k in cls.__mro__):
                out.append((mod, name))
    return out


def super_hook(clsname, obj):
    for k in type(obj).__mro__:
        if k.__name__ == clsname:
            return super(k, obj)
    raise OutOfSubset('super(): %s is not in the MRO of %s' % (clsname, type(obj).__name__))


_UID = [0]


def mk_instance(mod, name, tag, kind_shape='none'):
    c = ctx()
    cls = mirror(LOKI[mod], name)
    o = object.__new__(cls)
    _UID[0] += 1
    uid = c.fresh(z3.IntSort(), 'args_' + tag)
    o.__dict__.update(text=mk_str(c.fresh(S, 'str_' + tag)), args=ArgsTok(uid), tag=tag)
    if name == 'IntLiteral':
        o.value = mk_int(c.fresh(z3.IntSort(), 'value_' + tag))
    elif name == 'LogicLiteral':
        o.value = mk_bool(c.fresh(z3.BoolSort(), 'value_' + tag))
    elif name in ('FloatLiteral', 'StringLiteral', 'IntrinsicLiteral'):
        o.value = mk_str(c.fresh(S, 'value_' + tag))
    if name in ('IntLiteral', 'FloatLiteral'):
        if kind_shape == 'none':
            o.kind = None
        elif kind_shape == 'str':
            o.kind = mk_str(c.fresh(S, 'kind_' + tag))
        else:
            o.kind = mk_instance('symbols', 'Scalar', 'kind_of_' + tag)
    if any(k.__name__ in ('TypedSymbol', 'MetaSymbol') for k in cls.__mro__):
        # TypedSymbol.__init__ stores the case_sensitive marker (MetaSymbol forwards its symbol's): an arbitrary flag
        o.case_sensitive = mk_bool(c.fresh(z3.BoolSort(), 'case_sensitive_' + tag))
    if any(k.__name__ == 'Slice' for k in cls.__mro__):
        o.children = (ChildTok(c.fresh(z3.IntSort(), 'lower_' + tag)), ChildTok(c.fresh(z3.IntSort(), 'upper_' + tag)), None)
    if any(k.__name__ == 'QuotientBase' for k in cls.__mro__):
        o.numerator = ChildTok(c.fresh(z3.IntSort(), 'num_' + tag))
        o.denominator = ChildTok(c.fresh(z3.IntSort(), 'den_' + tag))
    return o


def _b(x):
    if isinstance(x, bool):
        return z3.BoolVal(x)
    if x is NotImplemented:
        raise OutOfSubset('comparison returned NotImplemented to the caller')
    return as_bool_term(x)


_SHA = []


def _sha_all():
    if _SHA:
        return _SHA[0]
    _SHA.append(_sha_all_uncached())
    return _SHA[0]


def _sha_all_uncached():
    import hashlib
    h = hashlib.sha256()
    for p in list(LOKI.values()):
        h.update(rewrite.read_source(p).encode())
    h.update(open(PMBL, 'rb').read())
    return h.hexdigest()[:16]


def spec_pair(A, B, kshape='none'):
    def setup(spec):
        a = mk_instance(A[0], A[1], 'a', kshape[0] if isinstance(kshape, tuple) else kshape)
        b = mk_instance(B[0], B[1], 'b', kshape[1] if isinstance(kshape, tuple) else kshape)
        env = {'a': a, 'b': b}
        return (env,), {}, env

    def run(env):
        a, b = env['a'], env['b']
        out = {'ab': a == b, 'ba': b == a}
        try:
            out['ha'], out['hb'] = vcrt.m_hash(a), vcrt.m_hash(b)
        except TypeError:
            out['ha'] = out['hb'] = None
        return out

    def post(env, r):
        ab, ba = _b(r['ab']), _b(r['ba'])
        cl = [('symmetric', ab == ba)]
        if r['ha'] is not None and r['hb'] is not None:
            cl.append(('hash-consistent', z3.Implies(ab, as_int_term(r['ha']) == as_int_term(r['hb']))))
        else:
            cl.append(('hashable', z3.BoolVal(False)))
        a, b = env['a'], env['b']
        if A == B and type(a).__eq__ is MIRROR[(os.path.join(rewrite.REPO, LOKI['mixins']), 'StrCompareMixin')].__eq__:
            cl.append(('case-insensitive', z3.Implies(_LOWER(a.text.t) == _LOWER(b.text.t), ab)))
        if A == B and A[1] in ('IntLiteral', 'FloatLiteral') and kshape == ('str', 'str'):
            cl.append(('kind-name-case-insensitive',
                       z3.Implies(z3.And(_LOWER(a.kind.t) == _LOWER(b.kind.t), a.value.t == b.value.t), ab)))
        return cl

    def decode(env, m, r):
        return {'function': 'eq/hash', 'A': A[1], 'B': B[1], 'kinds': str(kshape)}
    sp = FunctionSpec(PROP, LOKI[A[0]], '%s.__eq__' % A[1], {}, setup, post, theory=T, lemmas=lower_axioms(),
                      variant='vs %s%s' % (B[1], '' if kshape == 'none' else ' kinds=%s' % (kshape,)), decode=decode,
                      super_=super_hook, ext=False, budgets=(2_000_000, 2_000_000, 0, 4_000_000, 3_000_000, 8000))
    sp.fn_override = run
    sp.fn_info = {'file': LOKI[A[0]], 'qualname': '%s.__eq__ (resolved through the mirrored MRO)' % A[1],
                  'sha': _sha_all(), 'loops': {}, 'dropped': []}
    return sp


_SPECS = {}
POOL_REUSE = True       # thousands of tiny loop-free specs: workers are reused (verdicts do not depend on solver history here)


def specs(tier='quick'):
    if tier not in _SPECS:
        _SPECS[tier] = _specs(tier)
    return _SPECS[tier]


def _specs(tier='quick'):
    cls = node_classes()
    out = [spec_pair(a, b) for a in cls for b in cls]
    lit = [c for c in cls if c[1] in ('IntLiteral', 'FloatLiteral')]
    for a in lit:
        for b in lit:
            for ks in (('str', 'str'), ('str', 'node'), ('node', 'str'), ('node', 'node'), ('none', 'str'), ('none', 'node')):
                out.append(spec_pair(a, b, ks))
    return out


META = {
    'category': 'other',
    'technique': 'contract-based deductive verification (pyvc): the class hierarchy is mirrored mechanically, every '
                 'ordered pair of node classes is executed through Python\'s own comparison protocol on symbolic instances',
    'level_text': 'For all 39 x 39 ordered pairs of expression node classes (and the literal classes with kinds given as '
                  'None / string / variable) the real __eq__, __ne__, __hash__, _canonical, is_equal and get_hash '
                  'functions of loki and of pymbolic - resolved through the mirrored MRO, reflected-method priority and '
                  'super() chains included - are executed on instances with arbitrary text, init-args, values and kinds: '
                  '== is symmetric, equal nodes have equal hashes, and same-class nodes whose text differs only in letter '
                  'case are equal. All functions are loop-free, so each pair is a complete proof for the stated content model.',
    'level_note': 'Level other because of the known findings: a literal whose kind is a string compares equal to one whose '
                  'kind is the variable of that name, with different hashes; kind strings are compared case-sensitively. '
                  'Content model (trusted): str(x) is an arbitrary string per instance and is NOT tied to the children '
                  '(so text-equal nodes of different classes are considered possible); __getinitargs__ is one opaque token '
                  'with a symmetric equality and a consistent hash; builtin hash() of strings/tuples is an arbitrary function '
                  '(equal arguments give equal results, nothing else). Excluded as the property says: the 1:n == n shortcut of '
                  'Range / RangeIndex. Unverified and named: __contains__, the ordering methods of the literals, '
                  'LokiStringifyMapper (which produces str(x)). TypedSymbol / MetaSymbol instances carry an arbitrary case_sensitive flag (it is an init-arg of the real classes).',
    'trusted_base': ['pyvc engine', 'CPython comparison protocol (executed, not modelled)', 'content model of node instances',
                     'pymbolic/primitives.py as installed in /venv (read on every run)'],
    'assumptions': ['config["case-sensitive"] is False (the default)', 'ASCII lower-casing'],
}
