"""C12 - symbol tables and case-insensitive dictionaries behave as mappings keyed by the case-folded name
(DESIGN section 4 C12, appendix A.4).

For every mapping entry point of CaseInsensitiveDict(OrderedDict), CaseInsensitiveDefaultDict(defaultdict) and
SymbolTable(dict): if the class statement in /repo overrides it, the real method is extracted and executed; if
it is inherited, the trusted model of the CPython base-class method is executed instead.  Either way the result
must refine the abstract operation on fold(key).  A missing override is thereby a failing obligation."""
import z3
from pyvc import rewrite, vcrt
from pyvc.runner import FunctionSpec
from pyvc.values import ClassModel, Theory, SV, SStr, mk_bool, mk_str, truth, _LOWER
from pyvc.containers import SMap, CDict
from pyvc.core import ctx, OutOfSubset
from pyvc import strings as pstr

PROP = 'C12'
UTIL = 'loki/tools/util.py'
SYMT = 'loki/types/symbol_table.py'

T = Theory('tables', [ClassModel('SymbolAttributes', [], [('ident', 'Int'), ('content', 'Int')])])
V = T.V
ATTR = T.classes['SymbolAttributes']


def _attrs_clone(self, **kw):
    """model of SymbolAttributes.clone(): a new object (fresh identity) with the same content"""
    if kw:
        raise OutOfSubset('clone with overrides')
    # allocation model: every object that exists when the method is entered has an identity <= ALLOC;
    # the n-th object allocated during the call gets ALLOC + n
    n = ctx().ghost.get('allocated', 0) + 1
    ctx().ghost['allocated'] = n
    i = ALLOC + n
    return SV(T, T.ctor['C_SymbolAttributes'](i, T.acc['SymbolAttributes__content'](self.t)), cls='SymbolAttributes')


ALLOC = z3.Int('alloc0')
ATTR.methods['clone'] = _attrs_clone


def content(t):
    return T.acc['SymbolAttributes__content'](t)


def ident(t):
    return T.acc['SymbolAttributes__ident'](t)


# ---- fold: the abstract key ---------------------------------------------------------------------------
def fold_lower(k):
    return _LOWER(k)


def fold_symtab(k):
    l = _LOWER(k)
    idx = z3.IndexOf(l, z3.StringVal('('), 0)
    return z3.If(idx >= 0, z3.SubString(l, 0, idx), l)


# ---- model of the raw storage and of the inherited (CPython) methods ------------------------------------
class RawView:
    """what `super()` gives inside the subclasses: the plain dict operations on the raw storage"""

    def __init__(self, md):
        self.md = md

    def __setitem__(self, k, v):
        self.md.raw[k] = v

    def __getitem__(self, k):
        return self.md.raw_getitem(k)

    def __contains__(self, k):
        return k in self.md.raw

    def get(self, k, d=None):
        return self.md.raw.get(k, d)

    def setdefault(self, k, d=None):
        return self.md.raw.setdefault(k, d)

    def update(self, other=(), **kw):
        for k, v in (other.items() if hasattr(other, 'items') else other):
            self.md.raw[k] = v
        for k, v in kw.items():
            self.md.raw[k] = v

    def __init__kw(self, **kw):
        pass

    def pop(self, k, *d):
        return self.md.raw.pop(k, *d)

    def __delitem__(self, k):
        del self.md.raw[k]


class ModelDict:
    """`self` of the dict subclasses: raw storage as a symbolic map; methods are attached per spec"""

    def __init__(self, clsname, base, methods, default_factory=None, parent=None):
        self.clsname, self.base = clsname, base
        self.raw = SMap.fresh('raw', T)
        self.default_factory = default_factory
        self._methods = methods
        self._parent_table = parent
        self._case_sensitive = False
        self.case_sensitive = False

    # attribute protocol used by the real SymbolTable code
    @property
    def parent(self):
        return self._parent_table

    def raw_getitem(self, k):
        kt = T.lift(k)
        if not ctx().branch(z3.IsMember(kt, self.raw.dom), 'raw-has-key'):
            if self.base == 'defaultdict' and self.default_factory is not None:
                v = self.default_factory()
                self.__setitem__(k, v)      # defaultdict.__missing__ stores through PyObject_SetItem (override)
                return v
            raise KeyError(k)
        return T.lower(z3.Select(self.raw.val, kt))

    def __getattr__(self, name):
        m = self.__dict__.get('_methods', {}).get(name)
        if m is None:
            raise AttributeError(name)
        return lambda *a, **kw: m(self, *a, **kw)

    # python protocol -> methods table
    def __setitem__(self, k, v):
        return self._methods['__setitem__'](self, k, v)

    def __getitem__(self, k):
        return self._methods['__getitem__'](self, k)

    def __contains__(self, k):
        return truth(self._methods['__contains__'](self, k))

    def __delitem__(self, k):
        return self._methods['__delitem__'](self, k)


# Inherited entry points: TRUSTED MODELS of the CPython implementations (Objects/odictobject.c, dictobject.c,
# Modules/_collectionsmodule.c), cross-checked against the real classes by replay/C12.py --crosscheck.
#   OrderedDict.update / __init__  -> mutablemapping_update: stores through PyObject_SetItem (override seen)
#   OrderedDict.setdefault         -> for subclasses: PySequence_Contains / PyObject_GetItem / PyObject_SetItem
#   OrderedDict.pop, __delitem__   -> direct hash look-up of the given key (override NOT seen)
#   dict / defaultdict update, __init__, setdefault, pop, __delitem__ -> direct (override NOT seen)
def od_update(self, other=(), **kw):
    for k, v in (other.items() if hasattr(other, 'items') else other):
        self.__setitem__(k, v)
    for k, v in kw.items():
        self.__setitem__(k, v)


def od_setdefault(self, k, d=None):
    if self.__contains__(k):
        return self.__getitem__(k)
    self.__setitem__(k, d)
    return d


def raw_pop(self, k, *d):
    return self.raw.pop(k, *d)


def raw_delitem(self, k):
    del self.raw[k]


def raw_update(self, other=(), **kw):
    RawView(self).update(other, **kw)


def dd_init(self, default_factory=None, other=(), **kw):
    RawView(self).update(other, **kw)


def raw_setdefault(self, k, d=None):
    return self.raw.setdefault(k, d)


def raw_get(self, k, d=None):
    return self.raw.get(k, d)


def raw_contains(self, k):
    return k in self.raw


def raw_getitem(self, k):
    return self.raw_getitem(k)


def raw_setitem(self, k, v):
    self.raw[k] = v


INHERITED = {
    'OrderedDict': {'update': od_update, '__init__': od_update, 'setdefault': od_setdefault, 'pop': raw_pop,
                    '__delitem__': raw_delitem, 'get': raw_get, '__contains__': raw_contains,
                    '__getitem__': raw_getitem, '__setitem__': raw_setitem},
    'defaultdict': {'update': raw_update, '__init__': dd_init, 'setdefault': raw_setdefault, 'pop': raw_pop,
                    '__delitem__': raw_delitem, 'get': raw_get, '__contains__': raw_contains,
                    '__getitem__': raw_getitem, '__setitem__': raw_setitem},
    'dict': {'update': raw_update, '__init__': raw_update, 'setdefault': raw_setdefault, 'pop': raw_pop,
             '__delitem__': raw_delitem, 'get': raw_get, '__contains__': raw_contains,
             '__getitem__': raw_getitem, '__setitem__': raw_setitem},
}

CLASSES = {
    'CaseInsensitiveDict': (UTIL, 'OrderedDict', fold_lower, False),
    'CaseInsensitiveDefaultDict': (UTIL, 'defaultdict', fold_lower, False),
    'SymbolTable': (SYMT, 'dict', fold_symtab, True),
}
ENTRY = ('__getitem__', '__setitem__', '__delitem__', '__contains__', 'get', 'pop', 'setdefault', 'update',
         '__init__')


class _SymbolTableNS:
    """names the SymbolTable methods refer to"""


def _glob(clsname):
    g = {'OrderedDict': object, 'defaultdict': object}
    if clsname == 'SymbolTable':
        g['SymbolAttributes'] = ATTR
        g['BasicType'] = type('BasicType', (), {'DEFERRED': 0})
        g['as_tuple'] = lambda x: tuple(x) if x is not None else ()
        g['weakref'] = type('weakref', (), {'ref': staticmethod(lambda p: (lambda: p))})
    return g


_FN_CACHE = {}


def _load(clsname, meth):
    file, base, fold, is_st = CLASSES[clsname]
    key = (clsname, meth)
    if key not in _FN_CACHE:
        from pyvc.inline import inline
        _FN_CACHE[key] = inline(file, '%s.%s' % (clsname, meth), _glob(clsname))
    return _FN_CACHE[key]


def _methods_table(clsname, overridden):
    """all entry points: real source where the class overrides them, base-class model otherwise"""
    file, base, fold, is_st = CLASSES[clsname]
    tab = {}
    for m in ENTRY:
        if m in overridden:
            tab[m] = _load(clsname, m)
        else:
            tab[m] = INHERITED[base][m]
    if is_st:
        for m in ('lookup', '_lookup_formatted_name', 'format_lookup_name'):
            pass
        tab['lookup'] = _load(clsname, 'lookup')
        tab['_lookup_formatted_name'] = _load(clsname, '_lookup_formatted_name')
        fmt = _load(clsname, '_not_case_sensitive_format_lookup_name')
        tab['format_lookup_name'] = lambda self, name: fmt(name)
    return tab


def _super(clsname, obj):
    return RawView(obj)


def fresh_value(is_st, name='value'):
    c = ctx()
    if is_st:
        i = c.fresh(z3.IntSort(), name + '_id')
        c.assume(i <= ALLOC)
        return SV(T, T.ctor['C_SymbolAttributes'](i, c.fresh(z3.IntSort(), name + '_content')),
                  cls='SymbolAttributes')
    return SV(T, V.VInt(c.fresh(z3.IntSort(), name)))


def same_value(is_st, a, b):
    """stored/returned value equality: symbol tables store and return *copies* (same content)"""
    if is_st:
        return z3.And(T.recog['is_C_SymbolAttributes'](a), T.recog['is_C_SymbolAttributes'](b),
                      content(a) == content(b))
    return a == b


def _spec(clsname, meth, overridden, variant=None):
    file, base, fold, is_st = CLASSES[clsname]
    real = meth in overridden
    label_variant = (variant + ',' if variant else '') + ('override' if real else 'inherited:' + base)
    with_default = variant == 'default'

    def setup(spec):
        c = ctx()
        md = ModelDict(clsname, base, _methods_table(clsname, overridden))
        if is_st:
            # representation invariant of a SymbolTable: every stored value is a SymbolAttributes
            kq = z3.Const('k!inv', V)
            c.assume(z3.ForAll([kq], z3.Implies(z3.IsMember(kq, md.raw.dom),
                                                T.recog['is_C_SymbolAttributes'](z3.Select(md.raw.val, kq))),
                               patterns=[z3.Select(md.raw.val, kq)]))
        key = SStr(c.fresh(z3.StringSort(), 'key'))
        khat = V.VStr(fold(key.t))
        # representation invariant (instances at the two keys the operation can touch; the quantified form is
        # dropped during counterexample search): every stored key is its own fold
        rawk = V.VStr(key.t)
        c.assume(z3.Implies(z3.IsMember(rawk, md.raw.dom), fold(key.t) == key.t))
        if is_st:
            # instance of the heap fact "objects stored in the table were allocated before the call"
            c.assume(ident(z3.Select(md.raw.val, khat)) <= ALLOC)
            c.assume(z3.Implies(z3.IsMember(khat, md.raw.dom),
                                T.recog['is_C_SymbolAttributes'](z3.Select(md.raw.val, khat))))
            c.assume(z3.Implies(z3.IsMember(rawk, md.raw.dom),
                                T.recog['is_C_SymbolAttributes'](z3.Select(md.raw.val, rawk))))
        env = {'md': md, 'dom0': md.raw.dom, 'val0': md.raw.val, 'key': key, 'khat': khat}
        if meth in ('__getitem__', '__contains__', '__delitem__'):
            args = (key,)
        elif meth in ('get', 'pop'):
            if with_default:
                d = fresh_value(False, 'default')
                env['default'] = d
                args = (key, d)
            else:
                args = (key,)
        elif meth == '__setitem__':
            v = fresh_value(is_st)
            env['value'] = v
            args = (key, v)
        elif meth == 'setdefault':
            v = fresh_value(is_st, 'default')
            env['value'] = v
            args = (key, v)
        elif meth in ('update', '__init__'):
            v = fresh_value(is_st)
            env['value'] = v
            other = CDict()
            other[key] = v
            args = (other,)
            if meth == '__init__' and base == 'defaultdict':
                args = (None, other)        # defaultdict(default_factory, data)
            if meth == '__init__':
                # construction from data: the table starts empty
                md.raw = SMap.empty(T)
                env['dom0'], env['val0'] = md.raw.dom, md.raw.val
        fn = md._methods[meth]
        env['call'] = lambda: fn(md, *args)
        return (env,), {}, env

    def member0(env):
        return z3.IsMember(env['khat'], env['dom0'])

    def frame(env):
        md = env['md']
        return z3.And(md.raw.dom == env['dom0'], md.raw.val == env['val0'])

    def stored(env):
        """final table == initial table with khat bound to (a copy of) the value"""
        md = env['md']
        v = T.lift(env['value'])
        out0 = []
        if not is_st:
            # representation invariant preserved: the key that was stored is folded (lower is idempotent)
            out0 = [('stored-key-folded', fold(V.sval(env['khat'])) == V.sval(env['khat']))]
        return out0 + [('dom', md.raw.dom == z3.SetAdd(env['dom0'], env['khat'])),
                ('binding', same_value(is_st, z3.Select(md.raw.val, env['khat']), v)),
                ('others', md.raw.val == z3.Store(env['val0'], env['khat'], z3.Select(md.raw.val, env['khat'])))]

    def removed(env):
        md = env['md']
        return ('removed', md.raw.dom == z3.SetDel(env['dom0'], env['khat']))

    def post(env, r):
        md = env['md']
        m0 = member0(env)
        old = z3.Select(env['val0'], env['khat'])
        if meth == '__contains__':
            rb = r.t if hasattr(r, 't') else z3.BoolVal(bool(r))
            return [('result', rb == m0), ('frame', frame(env))]
        if meth == '__getitem__':
            out = [('found', m0), ('result', same_value(is_st, T.lift(r), old)), ('frame', frame(env))]
            if is_st:
                out.append(('fresh-copy', ident(T.lift(r)) != ident(old)))
            return out
        if meth == 'get':
            d = T.lift(env.get('default')) if with_default else V.VNone
            out = [('result', z3.If(m0, same_value(is_st, T.lift(r), old), T.lift(r) == d)), ('frame', frame(env))]
            if is_st:
                out.append(('fresh-copy', z3.Implies(m0, ident(T.lift(r)) != ident(old))))
            return out
        if meth == '__setitem__':
            return stored(env)
        if meth in ('update', '__init__'):
            return stored(env)
        if meth == '__delitem__':
            return [('was-member', m0), removed(env)]
        if meth == 'pop':
            d = T.lift(env.get('default')) if with_default else None
            if d is None:
                return [('was-member', m0), ('result', same_value(is_st, T.lift(r), old)), removed(env)]
            return [('result', z3.If(m0, same_value(is_st, T.lift(r), old), T.lift(r) == d)),
                    ('table', z3.If(m0, md.raw.dom == z3.SetDel(env['dom0'], env['khat']), frame(env)))]
        if meth == 'setdefault':
            st = stored(env)
            return [('present-unchanged', z3.Implies(m0, frame(env))),
                    ('absent-stored', z3.Implies(z3.Not(m0), z3.And([g for _, g in st])))]
        raise OutOfSubset(meth)

    def raises(env, exc):
        if isinstance(exc, KeyError) and meth in ('__getitem__', '__delitem__') or \
                (isinstance(exc, KeyError) and meth == 'pop' and not with_default):
            # membership and the operation must agree for any spelling of the key
            return [('only-if-absent', z3.Not(member0(env))), ('frame', frame(env))]
        return None

    def decode(env, m, r):
        ev = lambda t: m.eval(t, model_completion=True)
        key = ev(env['key'].t)
        ks = key.as_string() if z3.is_string_value(key) else ''
        member = z3.is_true(ev(member0(env)))
        raw_member = z3.is_true(ev(z3.IsMember(V.VStr(env['key'].t), env['dom0'])))
        return {'class': clsname, 'method': meth, 'key': ks, 'member_folded': member, 'member_raw': raw_member,
                'with_default': with_default}

    def run_call(env):
        return env['call']()

    sp = FunctionSpec(PROP, file, '%s.%s' % (clsname, meth), {}, setup, post, raises=raises, theory=T,
                      variant=label_variant, lemmas=pstr_lemmas(), decode=decode, super_=_super,
                      interp=str_interp, budgets=(600_000, 2_000_000, 0, 1_500_000, 2_000_000), notes=['entry point %s: %s' % (meth, 'real source (overridden in the class '
                                                'statement)' if real else 'inherited from %s - trusted model of the '
                                                'CPython method' % base)])
    sp.fn_override = run_call
    sp.fn_info = {'file': file, 'qualname': '%s.%s' % (clsname, meth),
                  'sha': _method_sha(file, clsname, meth) if real else 'inherited:' + base,
                  'loops': {}, 'dropped': []}
    return sp


def _method_sha(file, clsname, meth):
    import ast
    src = rewrite.read_source(file)
    node, _ = rewrite.find_def(ast.parse(src), '%s.%s' % (clsname, meth))
    return rewrite.sha(rewrite.func_text(src, node))


def pstr_lemmas():
    from pyvc.values import lower_axioms
    return list(T.base_lemmas) + lower_axioms()


def str_interp(t, cache):
    side = cache.setdefault('__side__', [])
    return pstr.interp_strings(t, cache, side)


# ---- SymbolTable.lookup / _lookup_formatted_name along the parent chain ------------------------------------
chain_has = z3.Function('chain_declares', z3.IntSort(), V, z3.BoolSort())     # some table of the chain starting at
chain_val = z3.Function('chain_value', z3.IntSort(), V, V)                      # table #id declares key / its value


def spec_lookup(entry, recursive):
    """lookup(name, recursive): the innermost declaration along parent*, as a fresh copy; None if there is none.
    The recursive call on the parent table is the induction hypothesis (contract stub on the parent model)."""
    clsname = 'SymbolTable'
    file, base, fold, is_st = CLASSES[clsname]
    overridden = set(rewrite.class_info(file, clsname)['methods'])

    class ParentModel(ModelDict):
        """the parent table: only its _lookup_formatted_name contract and its (dict) truthiness are visible"""

        def __init__(self, pid, has_parent):
            ModelDict.__init__(self, clsname, base, {})
            self.pid = pid

        def _lookup_formatted_name(self, name, recursive):
            c = ctx()
            kt = V.VStr(pstr._s(name))
            c.ghost['parent_called_with'] = (kt, recursive)
            if c.branch(chain_has(self.pid, kt), 'parent-chain-declares'):
                n = c.ghost.get('allocated', 0) + 1
                c.ghost['allocated'] = n
                return SV(T, T.ctor['C_SymbolAttributes'](ALLOC + n, content(chain_val(self.pid, kt))),
                          cls='SymbolAttributes')
            return None

        def __bool__(self):
            # a dict is falsy when empty: the parent's own table may well be empty while its ancestors are not
            return ctx().branch(self.raw.dom != z3.EmptySet(V), 'parent-table-nonempty')

    def setup(spec):
        c = ctx()
        has_parent = c.branch(c.fresh(z3.BoolSort(), 'has_parent'), 'has-parent')
        parent = ParentModel(c.fresh(z3.IntSort(), 'parent_id'), True) if has_parent else None
        md = ModelDict(clsname, base, _methods_table(clsname, overridden), parent=parent)
        key = SStr(c.fresh(z3.StringSort(), 'key'))
        khat = V.VStr(fold(key.t))
        c.assume(ident(z3.Select(md.raw.val, khat)) <= ALLOC)
        c.assume(z3.Implies(z3.IsMember(khat, md.raw.dom),
                            T.recog['is_C_SymbolAttributes'](z3.Select(md.raw.val, khat))))
        if parent is not None:
            c.assume(z3.Implies(chain_has(parent.pid, khat),
                                z3.And(T.recog['is_C_SymbolAttributes'](chain_val(parent.pid, khat)),
                                       ident(chain_val(parent.pid, khat)) <= ALLOC)))
        env = {'md': md, 'dom0': md.raw.dom, 'val0': md.raw.val, 'key': key, 'khat': khat, 'parent': parent}
        rec = c.fresh(z3.BoolSort(), 'recursive') if recursive is None else recursive
        recv = mk_bool(rec) if not isinstance(rec, bool) else rec
        env['recursive'] = rec if not isinstance(rec, bool) else z3.BoolVal(rec)
        if entry == 'lookup':
            env['call'] = lambda: md._methods['lookup'](md, key, recv)
        else:
            env['call'] = lambda: md._methods['_lookup_formatted_name'](md, SStr(fold(key.t)), recv)
        return (env,), {}, env

    def post(env, r):
        md, khat, parent = env['md'], env['khat'], env['parent']
        here = z3.IsMember(khat, env['dom0'])
        old = z3.Select(env['val0'], khat)
        rec = env['recursive']
        if parent is not None:
            up = z3.And(rec, chain_has(parent.pid, khat))
            upval = chain_val(parent.pid, khat)
        else:
            up, upval = z3.BoolVal(False), old
        found = z3.Or(here, up)
        want = z3.If(here, old, upval)
        out = [('frame', z3.And(md.raw.dom == env['dom0'], md.raw.val == env['val0']))]
        if r is None:
            out.append(('none-only-if-undeclared', z3.Not(found)))
        else:
            rt = T.lift(r)
            out += [('found', found), ('innermost-declaration', content(rt) == content(want)),
                    ('fresh-copy', ident(rt) > ALLOC)]
        return out

    def decode(env, m, r):
        ev = lambda t: m.eval(t, model_completion=True)
        key = ev(env['key'].t)
        return {'class': clsname, 'method': entry, 'key': key.as_string() if z3.is_string_value(key) else '',
                'here': z3.is_true(ev(z3.IsMember(env['khat'], env['dom0']))),
                'has_parent': env['parent'] is not None,
                'parent_empty': (env['parent'] is not None and
                                 z3.is_true(ev(env['parent'].raw.dom == z3.EmptySet(V)))),
                'ancestor_declares': (env['parent'] is not None and
                                      z3.is_true(ev(chain_has(env['parent'].pid, env['khat'])))),
                'recursive': z3.is_true(ev(env['recursive']))}
    sp = FunctionSpec(PROP, file, '%s.%s' % (clsname, entry), {}, setup, post, theory=T,
                      variant='chain', lemmas=pstr_lemmas(), decode=decode, super_=_super, interp=str_interp,
                      budgets=(600_000, 2_000_000, 0, 1_500_000, 2_000_000),
                      notes=['parent table = contract stub (induction hypothesis on the chain); its truthiness is that of '
                             'a dict (empty => falsy)'])
    sp.fn_override = lambda env: env['call']()
    sp.fn_info = {'file': file, 'qualname': '%s.%s' % (clsname, entry), 'sha': _method_sha(file, clsname, entry),
                  'loops': {}, 'dropped': []}
    return sp

# ---- Scope.declare / update / get_type / get_symbol_scope (loki/types/scope.py) -----------------------------------
# The scope's table is used through the contract proved above for SymbolTable: an abstract map keyed by the folded
# name (`k` below stands for fold(name)), whose recursive lookup answers for the whole parent chain.
SCOPE = 'loki/types/scope.py'
_K = z3.IntSort()
S_NEW = z3.Function('SymbolAttributes_new', z3.IntSort(), z3.IntSort())           # content of SymbolAttributes(**kw)
S_CLONE = z3.Function('SymbolAttributes_clone', z3.IntSort(), z3.IntSort(), z3.IntSort())  # content of a.clone(**kw)
S_CHAIN_HAS = z3.Function('scope_chain_declares', z3.IntSort(), z3.IntSort(), z3.BoolSort())
S_CHAIN_VAL = z3.Function('scope_chain_value', z3.IntSort(), z3.IntSort(), z3.IntSort())


class _AttrTok:
    """a SymbolAttributes object: content (abstract) and whether it is a copy made during the call"""
    def __init__(self, content, fresh):
        self.content, self.fresh = content, fresh

    def clone(self, **kw):
        return _AttrTok(S_CLONE(self.content, _kw_id(kw)), True)


_KW = {}


def _kw_id(kw):
    """identity of a keyword dictionary (the specs pass at most two distinct ones)"""
    key = tuple(sorted((k, id(v)) for k, v in kw.items()))
    return z3.IntVal(_KW.setdefault(key, len(_KW) + 1))


class _NameTok:
    def __init__(self, k):
        self.k = k

    def __format__(self, spec):
        return '<name>'


class _TableTok:
    """SymbolTable through its contract: local part (dom, val) keyed by the folded name, parent chain behind `pid`"""
    def __init__(self, dom, val, pid=None):
        self.dom, self.val, self.pid = dom, val, pid
        self.parent_consulted = False

    def __contains__(self, name):
        return bool(ctx().branch(z3.IsMember(name.k, self.dom), 'declared-here'))

    def __getitem__(self, name):
        if name not in self:
            raise KeyError(name)
        return _AttrTok(z3.Select(self.val, name.k), True)            # __getitem__ returns a copy

    def __setitem__(self, name, value):
        if not isinstance(value, _AttrTok):
            raise OutOfSubset('symbol table entry %r' % (value,))
        self.dom = z3.SetAdd(self.dom, name.k)
        self.val = z3.Store(self.val, name.k, value.content)

    def lookup(self, name, recursive=True):
        c = ctx()
        if name in self:
            return _AttrTok(z3.Select(self.val, name.k), True)
        rec = recursive if isinstance(recursive, bool) else truth(recursive)
        if rec and self.pid is not None:
            self.parent_consulted = True
            if c.branch(S_CHAIN_HAS(self.pid, name.k), 'declared-in-an-enclosing-scope'):
                return _AttrTok(S_CHAIN_VAL(self.pid, name.k), True)
        return None


class _ScopeTok:
    def __init__(self, table, parent=None):
        self.symbol_attrs, self.parent = table, parent

    @property
    def parents(self):
        # Scope.parents: all enclosing scopes, the OUTERMOST first (parent.parents + (parent,))
        return () if self.parent is None else self.parent.parents + (self.parent,)


class _DataType:
    pass


def _scope_fn(meth, extra=None):
    from pyvc.inline import inline
    g = {'DataType': _DataType, 'SymbolAttributes': lambda *a, **kw: _AttrTok(S_NEW(_kw_id(dict(kw, **{'#%d' % i: x for i, x in enumerate(a)}))), True)}
    g.update(extra or {})
    return inline(SCOPE, 'Scope.' + meth, g), g


def _scope_sha(meth):
    import ast
    src = rewrite.read_source(SCOPE)
    node, _ = rewrite.find_def(ast.parse(src), 'Scope.' + meth)
    return rewrite.sha(rewrite.func_text(src, node))


def _scope_spec(meth, variant, setup_case, post_case, raises_case=None):
    def setup(spec):
        c = ctx()
        _KW.clear()
        dom, val = c.fresh(z3.SetSort(_K), 'local_names'), c.fresh(z3.ArraySort(_K, z3.IntSort()), 'local_attrs')
        has_parent = bool(c.branch(c.fresh(z3.BoolSort(), 'has_parent'), 'has-parent'))
        table = _TableTok(dom, val, c.fresh(z3.IntSort(), 'parent_chain') if has_parent else None)
        scope = _ScopeTok(table, _ScopeTok(None) if has_parent else None)
        name = _NameTok(c.fresh(_K, 'folded_name'))
        env = {'scope': scope, 'table': table, 'dom0': dom, 'val0': val, 'name': name, 'k': name.k}
        fn, g = _scope_fn(meth)
        env['call'] = setup_case(env, fn, scope, name)
        return (env,), {}, env

    def post(env, r):
        return post_case(env, r)

    def raises(env, exc):
        return raises_case(env, exc) if raises_case is not None else None
    sp = FunctionSpec(PROP, SCOPE, 'Scope.' + meth, {}, setup, post, raises=raises, theory=T, variant=variant,
                      decode=lambda env, m, r: {'class': 'Scope', 'method': meth, 'variant': variant,
                                                'declared_here': z3.is_true(m.eval(z3.IsMember(env['k'], env['dom0']),
                                                                                   model_completion=True)),
                                                'has_parent': env['scope'].parent is not None})
    sp.fn_override = lambda env: env['call']()
    sp.fn_info = {'file': SCOPE, 'qualname': 'Scope.' + meth, 'sha': _scope_sha(meth), 'loops': {}, 'dropped': []}
    return sp


def _frame_others(env):
    """every other key of the local table is untouched"""
    t, k = env['table'], env['k']
    j = z3.Int('other_name')
    return z3.ForAll([j], z3.Implies(j != k, z3.And(z3.IsMember(j, t.dom) == z3.IsMember(j, env['dom0']),
                                                    z3.Select(t.val, j) == z3.Select(env['val0'], j))))


def scope_specs():
    out = []
    for fail in (True, False):
        for with_dtype in (True, False):
            kw = {'intent': object()}
            if with_dtype:
                kw['dtype'] = 'real'

            def setup_u(env, fn, scope, name, fail=fail, kw=kw):
                env['kwid'] = _kw_id(kw)
                return lambda: fn(scope, name, fail=fail, **kw)

            def post_u(env, r, fail=fail):
                t, k = env['table'], env['k']
                here = z3.IsMember(k, env['dom0'])
                want = z3.If(here, S_CLONE(z3.Select(env['val0'], k), env['kwid']), S_NEW(env['kwid']))
                return [('updates-only-a-local-declaration-when-asked-to-fail', z3.Implies(z3.BoolVal(fail), here)),
                        ('entry-is-the-local-entry-updated-or-a-new-one', z3.Select(t.val, k) == want),
                        ('declared-here-afterwards', z3.IsMember(k, t.dom)),
                        ('other-names-untouched', _frame_others(env))]

            def raises_u(env, exc, fail=fail):
                if isinstance(exc, ValueError):
                    t = env['table']
                    return [('only-if-asked-to-fail', z3.BoolVal(fail)),
                            ('only-if-not-declared-here', z3.Not(z3.IsMember(env['k'], env['dom0']))),
                            ('table-unchanged', z3.And(t.dom == env['dom0'], t.val == env['val0']))]
                return None
            out.append(_scope_spec('update', 'fail=%s,%s' % (fail, 'dtype given' if with_dtype else 'no dtype'),
                                   setup_u, post_u, raises_u))

        def setup_d(env, fn, scope, name, fail=fail):
            kw = {'intent': object()}
            env['kwid'] = _kw_id(dict(kw, **{'#0': 'real'}))
            return lambda: fn(scope, name, 'real', fail=fail, **kw)

        def post_d(env, r, fail=fail):
            t, k = env['table'], env['k']
            return [('redeclaration-only-if-allowed', z3.Implies(z3.BoolVal(fail), z3.Not(z3.IsMember(k, env['dom0'])))),
                    ('entry-is-the-new-declaration', z3.Select(t.val, k) == S_NEW(env['kwid'])),
                    ('declared-here-afterwards', z3.IsMember(k, t.dom)),
                    ('other-names-untouched', _frame_others(env))]

        def raises_d(env, exc, fail=fail):
            if isinstance(exc, ValueError):
                t = env['table']
                return [('only-if-asked-to-fail', z3.BoolVal(fail)),
                        ('only-if-declared-here', z3.IsMember(env['k'], env['dom0'])),
                        ('table-unchanged', z3.And(t.dom == env['dom0'], t.val == env['val0']))]
            return None
        out.append(_scope_spec('declare', 'fail=%s' % fail, setup_d, post_d, raises_d))

        for recursive in (True, False):
            def setup_g(env, fn, scope, name, fail=fail, recursive=recursive):
                return lambda: fn(scope, name, recursive=recursive, fail=fail)

            def post_g(env, r, fail=fail, recursive=recursive):
                t, k = env['table'], env['k']
                here = z3.IsMember(k, env['dom0'])
                up = z3.BoolVal(False)
                upv = z3.IntVal(0)
                if recursive and t.pid is not None:
                    up, upv = S_CHAIN_HAS(t.pid, k), S_CHAIN_VAL(t.pid, k)
                frame = ('table-unchanged', z3.And(t.dom == env['dom0'], t.val == env['val0']))
                if r is None:
                    return [frame, ('none-only-if-undeclared', z3.Not(z3.Or(here, up))),
                            ('none-only-if-not-asked-to-fail', z3.BoolVal(not fail))]
                if not isinstance(r, _AttrTok):
                    raise OutOfSubset('get_type returned %r' % (r,))
                return [frame, ('innermost-declaration', r.content == z3.If(here, z3.Select(env['val0'], k), upv)),
                        ('declared', z3.Or(here, up)), ('independent-copy', z3.BoolVal(bool(r.fresh)))]

            def raises_g(env, exc, fail=fail, recursive=recursive):
                if isinstance(exc, KeyError):
                    t, k = env['table'], env['k']
                    up = S_CHAIN_HAS(t.pid, k) if (recursive and t.pid is not None) else z3.BoolVal(False)
                    return [('only-if-asked-to-fail', z3.BoolVal(fail)),
                            ('only-if-undeclared', z3.Not(z3.Or(z3.IsMember(k, env['dom0']), up)))]
                return None
            out.append(_scope_spec('get_type', 'recursive=%s,fail=%s' % (recursive, fail), setup_g, post_g, raises_g))
    # get_symbol_scope: a chain of 1..3 scopes with symbolic tables: the innermost scope declaring the name
    for depth in (1, 2, 3):
        def setup_s(env, fn, scope, name, depth=depth):
            c = ctx()
            chain = []
            parent = None
            for i in reversed(range(depth)):
                tb = _TableTok(c.fresh(z3.SetSort(_K), 'names%d' % i), c.fresh(z3.ArraySort(_K, z3.IntSort()), 'attrs%d' % i))
                parent = _ScopeTok(tb, parent)
                chain.insert(0, parent)
            env['chain'] = chain
            env['doms'] = [s.symbol_attrs.dom for s in chain]
            return lambda: fn(chain[0], name)

        def post_s(env, r):
            k, chain = env['k'], env['chain']
            decl = [z3.IsMember(k, d) for d in env['doms']]
            out = [('tables-unchanged', z3.And([s.symbol_attrs.dom == d for s, d in zip(chain, env['doms'])]))]
            if r is None:
                return out + [('none-only-if-undeclared-everywhere', z3.Not(z3.Or(decl)))]
            i = next((j for j, s in enumerate(chain) if s is r), None)
            if i is None:
                return out + [('returns-a-scope-of-the-chain', z3.BoolVal(False))]
            return out + [('declares-the-name', decl[i]), ('innermost', z3.Not(z3.Or(decl[:i])) if i else z3.BoolVal(True))]
        out.append(_scope_spec('get_symbol_scope', 'chain of %d' % depth, setup_s, post_s))
    return out


def specs(tier='quick'):
    out = [spec_lookup('lookup', None), spec_lookup('_lookup_formatted_name', None)]
    for clsname, (file, base, fold, is_st) in CLASSES.items():
        overridden = set(rewrite.class_info(file, clsname)['methods'])
        for meth in ENTRY:
            if meth == '__init__' and clsname == 'SymbolTable':
                continue        # SymbolTable.__init__(parent, **kwargs) takes no mapping
            if meth in ('get', 'pop'):
                out.append(_spec(clsname, meth, overridden, 'nodefault'))
                if not (clsname == 'SymbolTable' and meth == 'get'):
                    out.append(_spec(clsname, meth, overridden, 'default'))
            else:
                out.append(_spec(clsname, meth, overridden))
    return out + scope_specs()


META = {
    'category': 'other',
    'technique': 'contract-based deductive verification (pyvc): refinement of an abstract map keyed by the folded '
                 'name, every mapping entry point resolved through the real class statement',
    'level_text': 'For CaseInsensitiveDict, CaseInsensitiveDefaultDict and SymbolTable every mapping entry point '
                  '(__getitem__, __setitem__, __delitem__, __contains__, get, pop, setdefault, update, __init__) is '
                  'checked, for all keys and all table contents, to refine the abstract operation on fold(key); '
                  'overridden methods are the real source, inherited ones the model of the CPython base method. Scope.update / declare / get_type / get_symbol_scope (loki/types/scope.py) are executed from their real source on a scope whose table is used through that proved contract: update and declare consult and change only the scope\'s own table (the fail flag decides on the LOCAL declaration), get_type returns a copy of the innermost declaration along the chain, get_symbol_scope the innermost declaring scope (its while loop is unrolled on chains of 1..3 scopes: bounded in the chain length, which is why the level is other rather than proof; everything else holds for all inputs).',
    'level_note': 'Trusted: pyvc engine; models of the inherited CPython methods (which of them dispatch to the '
                  'overridden __setitem__/__contains__); lower() uninterpreted in proofs (idempotent, length '
                  'preserving) and interpreted character-wise (ASCII, length <= 4) for counterexamples; weak '
                  'references as plain references; SymbolAttributes.clone() = fresh identity, same content.',
    'trusted_base': ['pyvc engine', 'models of OrderedDict/defaultdict/dict methods (INHERITED table in contracts/C12.py)',
                     'SymbolAttributes.clone(): fresh object with equal content', 'lower(): ASCII'],
    'assumptions': ['string keys (non-string keys are passed through unchanged by all overrides)',
                    'parent tables outlive their children (weakref modelled as reference)', 'termination not proved'],
}
