"""C13 - symbols are classified by their declared type and share it by scope (DESIGN section 4 C13).

* Variable.__new__ (the factory): for every combination of explicit type / type found in the scope (none, procedure,
  derived, intrinsic or deferred; with or without shape), dimensions (absent, None, given) and scope, the class that
  is instantiated is the one the property's decision table prescribes, and it receives the effective type.
* TypedSymbol.type getter / setter and TypedSymbol.scope: an attached symbol reads and writes the scope's table and
  never its private slot; an unattached symbol reads and writes only its private slot.  Hence two symbols of one
  name on one scope observe the same type after any update, and an unattached symbol keeps its own.
* TypedSymbol.rescope / clone -> Variable -> TypedSymbol.__init__ -> type setter (the real chain, all five functions
  executed): an existing entry of the target scope is never overwritten; a missing one is inserted.
All of these are loop-free; the finite case split is enumerated mechanically and each case is executed from the real
source on abstract tokens (names are symbolic strings where letter case matters)."""
import z3
from pyvc import vcrt
from pyvc.runner import FunctionSpec
from pyvc.inline import inline
from pyvc.values import Theory, SV, SStr, mk_bool, mk_str, truth, as_str_term, as_bool_term, _LOWER, lower_axioms
from pyvc.core import ctx, OutOfSubset

PROP = 'C13'
SYM = 'loki/expression/symbols.py'
T = Theory('symbols13', [])
S = z3.StringSort()


class ProcedureType:
    def __init__(self):
        self.kind = 'proc'

    def __bool__(self):
        return True


class DerivedType:
    def __init__(self, name):
        self.kind, self.name = 'derived', name

    def __bool__(self):
        return True


class BasicDtype:
    """an intrinsic type, or BasicType.DEFERRED (falsy)"""

    def __init__(self, deferred):
        self.kind, self.deferred = 'basic', deferred

    def __bool__(self):
        return not truth(self.deferred)


class SymbolAttributes:
    def __init__(self, dtype, shape=None, tag='t'):
        self.dtype, self.shape, self.tag = dtype, shape, tag

    def __bool__(self):
        return True

    def __repr__(self):
        return '<type %s>' % self.tag


class BasicType:
    DEFERRED = BasicDtype(True)


def mk_type(kind, tag):
    c = ctx()
    if kind is None:
        return None
    if kind == 'proc':
        return SymbolAttributes(ProcedureType(), None, tag)
    shape = mk_bool(c.fresh(z3.BoolSort(), 'has_shape_' + tag))
    if kind == 'derived':
        return SymbolAttributes(DerivedType(mk_str(c.fresh(S, 'dtype_name_' + tag))), shape, tag)
    return SymbolAttributes(BasicDtype(mk_bool(c.fresh(z3.BoolSort(), 'deferred_' + tag))), shape, tag)


class _Made:
    """what a symbol-class constructor was called with"""

    def __init__(self, cls, kwargs):
        self.cls, self.kwargs = cls, dict(kwargs)


def _ctor(name):
    return lambda **kwargs: _Made(name, kwargs)


class ScopeTok:
    def __init__(self, found):
        self.found = found

    def __bool__(self):
        return True


class VariableCls:
    """`cls` of Variable.__new__: _get_type_from_scope is a contract (first tier: the scope's entry for the name)"""
    lookups = 0

    @classmethod
    def _get_type_from_scope(cls, name, scope, parent=None):
        cls.lookups += 1
        return scope.found


GV = {'ProcedureSymbol': _ctor('ProcedureSymbol'), 'DerivedTypeSymbol': _ctor('DerivedTypeSymbol'), 'Array': _ctor('Array'),
      'Scalar': _ctor('Scalar'), 'DeferredTypeSymbol': _ctor('DeferredTypeSymbol'), 'ProcedureType': ProcedureType,
      'DerivedType': DerivedType}
VAR_NEW = inline(SYM, 'Variable.__new__', GV)


def _sha(file, qual):
    import ast
    from pyvc import rewrite
    src = rewrite.read_source(file)
    node, _ = rewrite.find_def(ast.parse(src), qual)
    return rewrite.sha(rewrite.func_text(src, node))


def _super(clsname, obj):
    return _Base()


class _Base:
    def __init__(self, *a, **kw):
        pass


def _mk(qual, setup, post, run, variant=None, decode=None, notes=None):
    sp = FunctionSpec(PROP, SYM, qual, {}, setup, post, theory=T, variant=variant, lemmas=lower_axioms(), decode=decode,
                      notes=notes or [], ext=False, super_=_super, budgets=(2_000_000, 2_000_000, 0, 4_000_000, 3_000_000, 10000))
    sp.fn_override = run
    sp.fn_info = {'file': SYM, 'qualname': qual, 'sha': _sha(SYM, qual.split('[')[0]), 'loops': {}, 'dropped': []}
    return sp


def spec_variable_new(tkind, skind, dims):
    """tkind: explicit type kind; skind: None (no scope) or ('found', kind) for what the scope has for the name"""
    def setup(spec):
        c = ctx()
        name = mk_str(c.fresh(S, 'name'))
        explicit = mk_type(tkind, 'explicit')
        scope = None if skind is None else ScopeTok(mk_type(skind[1], 'stored'))
        kw = {'name': name}
        if explicit is not None or tkind == 'passed-none':
            kw['type'] = explicit
        if scope is not None:
            kw['scope'] = scope
        dim_tok = object()
        if dims == 'None':
            kw['dimensions'] = None
        elif dims == 'given':
            kw['dimensions'] = dim_tok
        env = {'name': name, 'explicit': explicit, 'scope': scope, 'kw': kw, 'dim_tok': dim_tok}
        return (env,), {}, env

    def run(env):
        VariableCls.lookups = 0
        return VAR_NEW(VariableCls, **dict(env['kw']))

    def post(env, r):
        eff = env['explicit'] if env['explicit'] is not None else (env['scope'].found if env['scope'] is not None else None)
        name = env['name'].t
        F_, T_ = z3.BoolVal(False), z3.BoolVal(True)
        is_proc = T_ if (eff is not None and eff.dtype.kind == 'proc') else F_
        is_dtype_name = (_LOWER(name) == _LOWER(as_str_term(eff.dtype.name))) if (eff is not None and eff.dtype.kind == 'derived') else F_
        has_shape = as_bool_term(eff.shape) if (eff is not None and eff.shape is not None) else F_
        subscripted = T_ if dims == 'given' else F_
        typed = F_
        if eff is not None:
            typed = z3.Not(as_bool_term(eff.dtype.deferred)) if eff.dtype.kind == 'basic' else T_
        want = {'ProcedureSymbol': is_proc,
                'DerivedTypeSymbol': z3.And(z3.Not(is_proc), is_dtype_name),
                'Array': z3.And(z3.Not(is_proc), z3.Not(is_dtype_name), z3.Or(subscripted, has_shape)),
                'Scalar': z3.And(z3.Not(is_proc), z3.Not(is_dtype_name), z3.Not(z3.Or(subscripted, has_shape)), typed),
                'DeferredTypeSymbol': z3.And(z3.Not(is_proc), z3.Not(is_dtype_name), z3.Not(z3.Or(subscripted, has_shape)),
                                             z3.Not(typed))}
        if not isinstance(r, _Made):
            return [('instantiates-a-symbol-class', F_)]
        cl = [('class-per-decision-table', want[r.cls]),
              ('receives-the-effective-type', z3.BoolVal(r.kwargs.get('type') is eff)),
              ('receives-the-name', z3.BoolVal(r.kwargs.get('name') is env['name'])),
              ('receives-the-scope', z3.BoolVal(r.kwargs.get('scope') is env['scope'])),
              ('subscripts-passed-on', z3.BoolVal((r.kwargs.get('dimensions') is env['dim_tok']) if dims == 'given'
                                                 else r.kwargs.get('dimensions') is None)),
              ('scope-consulted-only-without-explicit-type',
               z3.BoolVal(VariableCls.lookups == (1 if (env['explicit'] is None and env['scope'] is not None) else 0)))]
        return cl

    def decode(env, m, r):
        ev = lambda t: m.eval(t, model_completion=True)
        n = ev(env['name'].t)
        return {'function': 'Variable.__new__', 'type': tkind, 'scope': None if skind is None else skind[1], 'dims': dims,
                'name': n.as_string() if z3.is_string_value(n) else 'x'}
    return _mk('Variable.__new__', setup, post, run, decode=decode,
               variant='type=%s,scope=%s,dimensions=%s' % (tkind, 'none' if skind is None else 'has ' + str(skind[1]), dims))


# ---- TypedSymbol.type / scope and the rescope chain --------------------------------------------------------------
class TableM:
    """model of a SymbolTable keyed by (concrete, lower-case) names; look-ups by other spellings are C12's business"""

    def __init__(self, entry, name='x'):
        self.entries = {name: entry} if entry is not None else {}
        self.default = name
        self.writes = []

    @property
    def entry(self):
        return self.entries.get(self.default)

    @entry.setter
    def entry(self, v):
        self.entries[self.default] = v

    def _key(self, name):
        return str(name).lower()

    def lookup(self, name, recursive=True):
        return self.entries.get(self._key(name))

    def __setitem__(self, name, value):
        self.writes.append((self._key(name), value))
        self.entries[self._key(name)] = value

    def __getitem__(self, name):
        return self.entries[self._key(name)]

    def __contains__(self, name):
        return self._key(name) in self.entries


class Scope:
    def __init__(self, entry, tag='scope'):
        self.symbol_attrs = TableM(entry)
        self.tag = tag

    def __bool__(self):
        return True

    def __repr__(self):
        return '<%s>' % self.tag


class _Ref:
    def __init__(self, o):
        self.o = o

    def __call__(self):
        return self.o


class weakref:      # pylint: disable=invalid-name
    ref = _Ref


class SymM:
    """`self` of the TypedSymbol methods: the real property functions are bound here"""

    def __init__(self, **kwargs):
        TS_INIT(self, **kwargs)

    name = property(lambda self: TS_NAME_GET(self), lambda self, v: TS_NAME_SET(self, v))
    scope = property(lambda self: TS_SCOPE_GET(self), lambda self, v: TS_SCOPE_SET(self, v))
    type = property(lambda self: TS_TYPE_GET(self), lambda self, v: TS_TYPE_SET(self, v))
    parent = property(lambda self: self._parent, lambda self, v: setattr(self, '_parent', v))

    def _lookup_type(self, scope):
        return TS_LOOKUP_TYPE(self, scope)

    def clone(self, **kwargs):
        return TS_CLONE(self, **kwargs)

    def rescope(self, scope):
        return TS_RESCOPE(self, scope)

    def __bool__(self):
        return True


class _Base:
    def __init__(self, *a, **kw):
        pass


def _variable_factory(**kwargs):
    """Variable(**kwargs) for the chain: the classification is verified separately; here every class is a TypedSymbol"""
    return SymM(**kwargs)


GT = {'Scope': Scope, 'weakref': weakref, 'SymbolAttributes': lambda dt: SymbolAttributes(dt, None, 'deferred-default'),
      'BasicType': BasicType, 'config': {'case-sensitive': False}, 'Variable': _variable_factory}


def _super(clsname, obj):
    return _Base()


def _load(qual):
    return inline(SYM, qual, GT)


TS_NAME_GET, TS_NAME_SET = _load('TypedSymbol.name'), _load('TypedSymbol.name#2')
TS_SCOPE_GET, TS_SCOPE_SET = _load('TypedSymbol.scope'), _load('TypedSymbol.scope#2')
TS_TYPE_GET, TS_TYPE_SET = _load('TypedSymbol.type'), _load('TypedSymbol.type#2')
TS_LOOKUP_TYPE = _load('TypedSymbol._lookup_type')
TS_CLONE, TS_RESCOPE = _load('TypedSymbol.clone'), _load('TypedSymbol.rescope')
_TS_INIT_RAW = _load('TypedSymbol.__init__')


def TS_INIT(self, **kwargs):
    return _TS_INIT_RAW(self, **kwargs)


def _stored(kind):
    """what the scope's table holds for the name: absent / a deferred entry / a proper entry"""
    if kind == 'absent':
        return None
    return SymbolAttributes(BasicDtype(kind == 'deferred'), None, 'stored-' + kind)


def spec_type_sharing(stored, new):
    """two symbols a, b of one name attached to one scope, c unattached; then a.type = <new>"""
    def setup(spec):
        env = {}
        return (env,), {}, env

    def run(env):
        scope = Scope(_stored(stored))
        own = SymbolAttributes(BasicDtype(False), None, 'own-of-c')
        a, b = SymM(name='x', scope=scope), SymM(name='x', scope=scope)
        c = SymM(name='x', type=own)
        writes_before = len(scope.symbol_attrs.writes)
        before = {'a': a.type, 'b': b.type, 'c': c.type, 'entry': scope.symbol_attrs.entry}
        t = {'none': None, 'same': scope.symbol_attrs.entry, 'other': SymbolAttributes(BasicDtype(False), None, 'updated')}[new]
        a.type = t
        return {'scope': scope, 'a': a, 'b': b, 'c': c, 'own': own, 'before': before, 't': t,
                'writes': scope.symbol_attrs.writes[writes_before:]}

    def post(env, r):
        B = z3.BoolVal
        a, b, c, scope = r['a'], r['b'], r['c'], r['scope']
        entry = scope.symbol_attrs.entry
        cl = [('attached-symbols-read-the-table-before', B(r['before']['a'] is r['before']['entry'] and
                                                           r['before']['b'] is r['before']['entry'])),
              ('unattached-symbol-reads-its-own', B(r['before']['c'] is r['own'])),
              ('attached-symbols-agree-after-update', B(a.type is b.type and a.type is entry)),
              ('unattached-symbol-keeps-its-own', B(c.type is r['own'])),
              ('private-slot-of-attached-untouched', B(a._type is None and b._type is None))]
        if new == 'other':
            cl.append(('update-visible', B(entry is r['t'] and [w[1] for w in r['writes']] == [r['t']])))
        if new == 'same':
            cl.append(('no-write-for-identical-type', B(r['writes'] == [])))
        if new == 'none':
            cl.append(('none-stores-deferred', B(len(r['writes']) == 1 and entry is not None and
                                                   getattr(entry.dtype, 'kind', None) == 'basic' and
                                                   truth(entry.dtype.deferred) is True)))
        return cl
    return _mk('TypedSymbol.type#2', setup, post, run, variant='table has %s entry; a.type = %s' % (stored, new),
               decode=lambda env, m, r: {'function': 'TypedSymbol.type', 'stored': stored, 'new': new},
               notes=['TypedSymbol.__init__, name, scope, type getter and setter, _lookup_type executed from real source'])


def spec_rescope(target, own):
    """sym (unattached or attached elsewhere, own type proper/none) .rescope(target scope with absent/deferred/proper entry)"""
    def setup(spec):
        env = {}
        return (env,), {}, env

    def run(env):
        tgt = Scope(_stored(target), 'target')
        own_t = None if own == 'none' else SymbolAttributes(BasicDtype(False), None, 'own')
        if own == 'attached-elsewhere':
            src = Scope(own_t, 'source')
            sym = SymM(name='x', scope=src)
        else:
            sym = SymM(name='x', type=own_t)
        before = tgt.symbol_attrs.entry
        new = sym.rescope(tgt)
        return {'tgt': tgt, 'before': before, 'new': new, 'own_t': own_t, 'sym': sym}

    def post(env, r):
        B = z3.BoolVal
        tgt, new = r['tgt'], r['new']
        cl = [('result-attached-to-target', B(isinstance(new, SymM) and new.scope is tgt)),
              ('original-symbol-untouched', B(r['sym'].scope is not tgt))]
        if r['before'] is not None:
            cl.append(('existing-entry-not-overwritten', B(tgt.symbol_attrs.entry is r['before'] and tgt.symbol_attrs.writes == [])))
        else:
            if r['own_t'] is not None:
                cl.append(('missing-entry-inserted', B(tgt.symbol_attrs.entry is r['own_t'])))
        cl.append(('result-reads-the-target-table', B(new.type is tgt.symbol_attrs.entry)))
        return cl
    return _mk('TypedSymbol.rescope', setup, post, run, variant='target has %s entry; symbol %s' % (target, own),
               decode=lambda env, m, r: {'function': 'TypedSymbol.rescope', 'target': target, 'own': own},
               notes=['rescope -> clone -> Variable -> TypedSymbol.__init__ -> type setter, all from real source'])


def spec_rename_clone(target, passes):
    """i.clone(name='arr' ...) of a symbol attached to a scope in which 'arr' is absent / declared with another type"""
    def setup(spec):
        env = {}
        return (env,), {}, env

    def run(env):
        t_i = SymbolAttributes(BasicDtype(False), None, 'type-of-i')
        t_arr = None if target == 'absent' else SymbolAttributes(BasicDtype(False), None, 'type-of-arr')
        scope = Scope(t_i, 'scope')
        scope.symbol_attrs.default = 'i'
        scope.symbol_attrs.entries = {'i': t_i}
        if t_arr is not None:
            scope.symbol_attrs.entries['arr'] = t_arr
        i = SymM(name='i', scope=scope)
        w0 = len(scope.symbol_attrs.writes)
        kw = {'name': 'arr'}
        if passes == 'scope':
            kw['scope'] = scope
        new = i.clone(**kw)
        return {'scope': scope, 't_i': t_i, 't_arr': t_arr, 'new': new, 'writes': scope.symbol_attrs.writes[w0:]}

    def post(env, r):
        B = z3.BoolVal
        tab = r['scope'].symbol_attrs
        cl = [('type-of-the-original-name-unchanged', B(tab.entries.get('i') is r['t_i'])),
              ('clone-attached-to-the-scope', B(isinstance(r['new'], SymM) and r['new'].scope is r['scope']))]
        if r['t_arr'] is not None:
            cl += [('existing-entry-of-the-new-name-not-overwritten', B(tab.entries.get('arr') is r['t_arr'])),
                   ('clone-has-the-type-recorded-for-its-name', B(r['new'].type is r['t_arr']))]
        else:
            cl.append(('undeclared-name-inherits-the-type', B(tab.entries.get('arr') is r['t_i'])))
        return cl
    return _mk('TypedSymbol.clone', setup, post, run, variant="rename to 'arr' (%s in scope), %s" % (
        'declared' if target != 'absent' else 'undeclared', 'scope passed' if passes == 'scope' else 'scope inherited'),
        decode=lambda env, m, r: {'function': 'TypedSymbol.clone', 'target': target})


# ---- Variable._get_type_from_scope: derived-type members are typed by the parent's type definition -----------------
class _Member:
    def __init__(self, t):
        self.type = t


class _Parent:
    def __init__(self, members):
        self.variable_map = members

    def __bool__(self):
        return True


GET_TYPE = inline(SYM, 'Variable._get_type_from_scope', dict(GT))


def spec_get_type_from_scope(stored, parent_given, member):
    def setup(spec):
        env = {}
        return (env,), {}, env

    def run(env):
        st = _stored(stored)
        scope = Scope(st, 'scope')
        scope.symbol_attrs.entries = {'a%b': st} if st is not None else {}
        mt = SymbolAttributes(BasicDtype(False), None, 'typedef-member-type') if member else None
        parent = _Parent({'b': _Member(mt)} if member else {})
        made = []

        def variable(**kw):
            made.append(kw)
            return parent
        GET_TYPE.__globals__['Variable'] = variable
        r = GET_TYPE(VariableCls, 'a%b', scope, parent if parent_given else None)
        return {'r': r, 'st': st, 'mt': mt, 'writes': scope.symbol_attrs.writes}

    def post(env, r):
        B = z3.BoolVal
        proper = r['st'] is not None and bool(r['st'].dtype)
        want = r['st'] if proper else (r['mt'] if r['mt'] is not None else r['st'])
        return [('type-recorded-for-the-member', B(r['r'] is want)), ('scope-not-written', B(not r['writes']))]
    return _mk('Variable._get_type_from_scope', setup, post, run,
               variant='a%%b: scope entry %s, parent %s, typedef %s b' % (stored, 'given' if parent_given else 'looked up',
                                                                        'has' if member else 'lacks'),
               decode=lambda env, m, r: {'function': 'Variable._get_type_from_scope', 'stored': stored})


def specs(tier='quick'):
    out = []
    for tk in (None, 'passed-none', 'proc', 'derived', 'basic'):
        for sk in (None, ('found', None), ('found', 'proc'), ('found', 'derived'), ('found', 'basic')):
            for d in ('absent', 'None', 'given'):
                out.append(spec_variable_new(tk, sk, d))
    out += [spec_type_sharing(s, n) for s in ('absent', 'deferred', 'proper') for n in ('none', 'same', 'other')
            if not (s == 'absent' and n == 'same')]
    out += [spec_rescope(t, o) for t in ('absent', 'deferred', 'proper') for o in ('proper', 'none', 'attached-elsewhere')]
    out += [spec_rename_clone(t, p) for t in ('absent', 'declared') for p in ('inherit', 'scope')]
    out += [spec_get_type_from_scope(s_, pg, mb) for s_ in ('absent', 'deferred', 'proper') for pg in (True, False)
            for mb in (True, False)]
    return out


META = {
    'category': 'proof',
    'technique': 'contract-based deductive verification (pyvc): finite case split enumerated mechanically, each case '
                 'executed from the real source on abstract tokens with symbolic names',
    'level_text': 'Variable.__new__ is executed for all 75 combinations of explicit type, scope content and dimensions with '
                  'symbolic symbol and type names (letter case included) and symbolic shape/deferred flags: the instantiated '
                  'class and the arguments it receives are exactly those of the decision table in the property. '
                  'TypedSymbol.__init__, name, scope, type (getter and setter) and _lookup_type are executed from their real '
                  'source on two attached and one unattached symbol for every table state and update: attached symbols always '
                  'agree with the table, the unattached one keeps its own type. rescope -> clone -> Variable -> __init__ -> '
                  'setter is executed as one chain: an existing entry of the target scope is never overwritten. All functions '
                  'are loop-free, so the enumeration is complete for the stated abstraction.',
    'level_note': 'Trusted: pyvc engine; the scope table is abstracted to the entry for the one name involved (spelling / '
                  'nesting is C12); weakref.ref modelled as a plain reference (the scope outlives the symbol); '
                  'inside Variable.__new__ _get_type_from_scope is used through its contract; its own body (scope entry first, '
                  'derived-type members through the parent typedef) is verified separately for a member name a%b; pymbolic '
                  'constructors (super().__init__) are no-ops; Array.rescope / MetaSymbol wrappers are unverified and named.',
    'trusted_base': ['pyvc engine', 'SymbolTable lookup/__setitem__ (C12 contracts)', 'weakref.ref (plain reference)',
                     'pymbolic primitives constructors'],
    'assumptions': ['BasicType.DEFERRED is the only falsy dtype', 'SymbolAttributes objects are truthy',
                    'ASCII lower-casing for names', 'termination: loop-free code'],
}
