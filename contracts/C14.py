"""C14 - the tree transformer applies exactly the requested node mapping (DESIGN section 4 C14, appendix A.3).

The handlers of Transformer are executed from their real source on abstract node tokens; the recursive visit() is the
induction hypothesis `visit(x) = apply(M, x)` (an arbitrary but fixed function of x), and every write to a node
(_update) and every construction (_rebuild) is recorded:
* visit_Node: unmapped -> a rebuilt node whose children are the visited children, in order; mapped to None -> None;
  mapped to a node, or to a tuple that does not contain the node -> a copy of the handle, not recursed; mapped to a
  tuple containing the node itself -> the node rebuilt from its visited children.
* visit_tuple: the visited elements of the spliced tuple, in order, with None and () dropped.
* _rebuild: with inplace=False the original node is not written and its Source object is not mutated (it is cloned
  before being invalidated); with inplace=True the same node is updated and returned.
* visit_ScopedNode: as visit_Node; with inplace=False the ORIGINAL scoped node must not be written.
* visit: the record `rebuilt` maps every visited node whose result is a different object to that result.
Shapes are enumerated (0..2 children, every mapping case); flags are symbolic.  _inject_tuple_mapping (index / slice
arithmetic on tuples) is covered by a bounded exhaustive check against the splice specification (never counted as
proved)."""
import z3
from pyvc import vcrt
from pyvc.runner import FunctionSpec
from pyvc.inline import inline
from pyvc.values import Theory, mk_bool, truth, as_bool_term
from pyvc.core import ctx, OutOfSubset

PROP = 'C14'
TRF = 'loki/ir/transformer.py'
import builtins as _bi
# one z3 theory per process: when another property's module shares these specs (C03), it hands its theory over
T = getattr(_bi, '_PYVC_SHARED_THEORY', None) or Theory('transformer', [])


class Source:
    def __init__(self, valid, log, tag='source'):
        self.valid, self.log, self.tag = valid, log, tag

    def is_valid(self):
        return self.valid

    def clone(self):
        s = Source(self.valid, self.log, self.tag + "'")
        s.cloned_from = self
        return s

    def invalidate(self, children=False):
        self.log.append(('invalidate', self))
        self.valid = False

    def __bool__(self):
        return True


class Node:
    """abstract IR node: identity is object identity; every _update / _rebuild is recorded in the shared log"""
    scoped = False

    def __init__(self, tag, children=(), log=None, source=None, parent=None):
        self.tag, self.kids, self.log = tag, tuple(children), log if log is not None else []
        self.source, self.parent = source, parent

    @property
    def children(self):
        return self.kids

    @property
    def args_frozen(self):
        d = {'source': self.source} if self.source is not None else {}
        return d

    @property
    def args(self):
        d = dict(self.args_frozen)
        d['children'] = self.kids
        return d

    def _rebuild(self, *args, **kwargs):
        self.log.append(('rebuild', self, args, dict(kwargs)))
        kids = kwargs.pop('children', None)
        if kids is None:
            kids = args if args else self.kids
        n = type(self)(self.tag + "'", kids, self.log, kwargs.get('source', self.source), kwargs.get('parent', self.parent))
        n.built_from = self
        n.built_kwargs = dict(kwargs)
        return n

    clone = _rebuild

    def _update(self, *args, **kwargs):
        self.log.append(('update', self, args, dict(kwargs)))
        if args:
            self.kids = tuple(args)
        if 'source' in kwargs:
            self.source = kwargs['source']
        if 'parent' in kwargs:
            self.parent = kwargs['parent']

    def __repr__(self):
        return '<%s>' % self.tag

    def __bool__(self):
        return True


class ScopedNode(Node):
    scoped = True


def flatten(x):
    out = []
    for y in x:
        if isinstance(y, (tuple, list)):
            out += flatten(y)
        else:
            out.append(y)
    return out


def is_iterable(o):
    return isinstance(o, (tuple, list))


def as_tuple(x):
    if x is None:
        return ()
    if isinstance(x, (tuple, list)):
        return tuple(x)
    return (x,)


G = {'Source': Source, 'Node': Node, 'ScopedNode': ScopedNode, 'flatten': flatten, 'is_iterable': is_iterable,
     'as_tuple': as_tuple}
IS_SOURCE_VALID = inline(TRF, 'is_source_valid', G)
G['is_source_valid'] = IS_SOURCE_VALID
REBUILD = inline(TRF, 'Transformer._rebuild', G)
VISIT_NODE = inline(TRF, 'Transformer.visit_Node', G)
VISIT_SCOPED = inline(TRF, 'Transformer.visit_ScopedNode', G)
VISIT_TUPLE = inline(TRF, 'Transformer.visit_tuple', G)
VISIT = inline(TRF, 'Transformer.visit', G)


class Applied:
    """apply(M, child): the induction hypothesis' result for one child - a fixed function of the child"""

    def __init__(self, of):
        self.of = of

    def __repr__(self):
        return 'apply(%r)' % (self.of,)

    def __bool__(self):
        return True


class SelfT:
    def __init__(self, mapper, inplace, invalidate_source, rebuild_scopes=False, results=None):
        self.mapper, self.inplace, self.invalidate_source, self.rebuild_scopes = mapper, inplace, invalidate_source, rebuild_scopes
        self.rebuilt = {}
        self.results = results or {}
        self.visited = []

    def visit(self, o, **kwargs):
        self.visited.append((o, dict(kwargs)))
        if id(o) in self.results:
            return self.results[id(o)]
        r = Applied(o)
        self.results[id(o)] = r
        return r

    def _rebuild(self, o, children, **args):
        return REBUILD(self, o, children, **args)

    def _inject_tuple_mapping(self, o):
        self.injected = ('INJ', o)
        return self.spliced


def _sha(qual):
    import ast
    from pyvc import rewrite
    src = rewrite.read_source(TRF)
    node, _ = rewrite.find_def(ast.parse(src), qual)
    return rewrite.sha(rewrite.func_text(src, node))


def _mk(qual, setup, post, run, variant=None, notes=None):
    sp = FunctionSpec(PROP, TRF, qual, {}, setup, post, theory=T, variant=variant, lemmas=[], ext=False,
                      decode=lambda env, m, r: {'function': qual, 'variant': variant}, notes=notes or [],
                      budgets=(2_000_000, 2_000_000, 0, 4_000_000, 3_000_000, 8000))
    sp.fn_override = run
    sp.fn_info = {'file': TRF, 'qualname': qual, 'sha': _sha(qual), 'loops': {}, 'dropped': []}
    return sp


def _flags():
    c = ctx()
    return mk_bool(c.fresh(z3.BoolSort(), 'inplace')), mk_bool(c.fresh(z3.BoolSort(), 'invalidate_source'))


def spec_visit_node(case, nkids, scoped=False):
    """case: unmapped | none | node | tuple-without-self | tuple-with-self"""
    qual = 'Transformer.visit_ScopedNode' if scoped else 'Transformer.visit_Node'
    fn = VISIT_SCOPED if scoped else VISIT_NODE

    def setup(spec):
        c = ctx()
        log = []
        src = Source(mk_bool(c.fresh(z3.BoolSort(), 'source_valid')), log)
        kids = tuple(Node('child%d' % i, (), log) for i in range(nkids))
        old_parent = Node('old_parent', (), log)
        o = (ScopedNode if scoped else Node)('o', kids, log, src, parent=old_parent)
        handle_node = Node('handle', (Node('hchild', (), log),), log)
        other = Node('other', (), log)
        mapper = {}
        if case == 'none':
            mapper[o] = None
        elif case == 'node':
            mapper[o] = handle_node
        elif case == 'self':
            mapper[o] = handle_node = o          # an identity entry: the node replaces itself as a whole
        elif case == 'tuple-without-self':
            mapper[o] = (handle_node, other)
        elif case == 'tuple-with-self':
            mapper[o] = (other, o)
        inplace, inval = _flags()
        rs = mk_bool(c.fresh(z3.BoolSort(), 'rebuild_scopes')) if scoped else False
        me = SelfT(mapper, inplace, inval, rs)
        env = {'me': me, 'o': o, 'kids': kids, 'log': log, 'handle': handle_node, 'src': src, 'mapper': mapper, 'old_parent': old_parent,
               'src_valid0': src.valid}
        return (env,), {}, env

    def run(env):
        return fn(env['me'], env['o'])

    def post(env, r):
        B = z3.BoolVal
        me, o, kids, log = env['me'], env['o'], env['kids'], env['log']
        inplace = as_bool_term(me.inplace)
        cl = []
        if case == 'none':
            return [('mapped-to-None-is-removed', B(r is None)), ('nothing-written', B(not log))]
        if case in ('node', 'self', 'tuple-without-self'):
            if case == 'tuple-without-self':
                # a one-to-many key is only ever visited as an element of a tuple, where the splice has replaced it
                # (appendix A.3): visited directly the code tries to copy the tuple; not part of the contract
                return [('precondition-excludes-direct-visit', B(True))]
            h = env['handle']
            return [('mapped-to-node-gives-a-copy-of-the-handle', B(isinstance(r, Node) and getattr(r, 'built_from', None) is h
                                                                       and r.kids == h.kids)),
                    ('handle-is-not-recursed', B(not me.visited)),
                    ('original-not-written', B(o.kids == kids and o.parent is env['old_parent']))]
        # unmapped, or mapped to a tuple containing the node itself: rebuilt from the visited children
        want_kids = tuple(me.results.get(id(k)) for k in kids)
        visited_all = [v[0] for v in me.visited] == list(kids)
        cl.append(('every-child-visited-once-in-order', B(visited_all)))
        old_parent = env['old_parent']
        unchanged = o.kids == kids and all(a is b for a, b in zip(o.kids, kids)) and o.parent is old_parent and o.source is env['src']
        updates_on_o = [] if unchanged else ['changed']
        if not scoped:
            fresh = isinstance(r, Node) and r is not o and getattr(r, 'built_from', None) is o and r.kids == want_kids
            same = r is o and o.kids == want_kids
            cl.append(('result-has-the-visited-children', z3.If(inplace, B(same), B(fresh))))
            cl.append(('original-untouched-unless-inplace', z3.Or(inplace, B(not updates_on_o and o.kids == kids))))
        else:
            ok = isinstance(r, Node) and r.kids == want_kids
            cl.append(('result-has-the-visited-children', B(ok)))
            cl.append(('children-visited-in-the-new-scope', B(all(v[1].get('scope') is r for v in me.visited))))
            # the property: without in-place mode the original tree is left unchanged
            cl.append(('original-untouched-unless-inplace', z3.Or(inplace, B(not updates_on_o and o.kids == kids))))
        src_events = [e for e in log if e[0] == 'invalidate' and e[1] is env['src']]
        cl.append(('original-source-object-not-invalidated-unless-inplace', z3.Or(inplace, B(not src_events))))
        return cl
    return _mk(qual, setup, post, run, variant='%s,%d children' % (case, nkids))


def spec_rebuild(kinds):
    """Transformer._rebuild(o, children): kinds = per child 'n' (a rebuilt node), 'N' (None), 't' (a tuple of two nodes)"""
    def setup(spec):
        c = ctx()
        log = []
        src = Source(mk_bool(c.fresh(z3.BoolSort(), 'source_valid')), log)
        o = Node('o', tuple(Node('old_child%d' % i, (), log) for i in range(len(kinds))), log, src)   # arity is kept
        kids = []
        for i, k in enumerate(kinds):
            kids.append({'n': Node('new%d' % i, (), log), 'N': None,
                         't': (Node('new%da' % i, (), log), Node('new%db' % i, (), log))}[k])
        inplace, inval = _flags()
        me = SelfT({}, inplace, inval)
        env = {'me': me, 'o': o, 'kids': tuple(kids), 'src': src, 'log': log, 'valid0': src.valid, 'old_kids': o.kids}
        return (env,), {}, env

    def run(env):
        return REBUILD(env['me'], env['o'], env['kids'])

    def post(env, r):
        B = z3.BoolVal
        me, o, src, kids = env['me'], env['o'], env['src'], env['kids']
        inplace, inval = as_bool_term(me.inplace), as_bool_term(me.invalidate_source)
        has_node = any(k in 'nt' for k in kinds)
        must_invalidate = z3.And(inval, as_bool_term(env['valid0']), B(has_node))
        rs = getattr(r, 'source', None)
        invalidated_clone = (rs is not src and getattr(rs, 'cloned_from', None) is src and rs.valid is False)
        src_events = [e for e in env['log'] if e[0] == 'invalidate' and e[1] is src]
        fresh = isinstance(r, Node) and r is not o and getattr(r, 'built_from', None) is o and r.kids == kids
        same = r is o and o.kids == kids
        return [('result-has-the-given-children', z3.If(inplace, B(same), B(fresh))),
                ('source-invalidated-when-a-child-node-was-rebuilt', z3.Implies(must_invalidate, B(invalidated_clone))),
                ('source-kept-otherwise', z3.Implies(z3.Not(must_invalidate), B(rs is src))),
                ('original-source-object-never-invalidated', B(not src_events)),
                ('original-untouched-unless-inplace', z3.Or(inplace, B(o.kids == env['old_kids'] and o.source is src)))]
    return _mk('Transformer._rebuild', setup, post, run, variant='children %s' % (kinds or 'none'))


def spec_visit_tuple(shape):
    """shape: results of visiting the spliced elements: n = node, N = None, e = empty tuple, t = a tuple of nodes"""
    def setup(spec):
        log = []
        items = tuple(Node('item%d' % i, (), log) for i in range(len(shape)))
        results = {}
        for it, s in zip(items, shape):
            results[id(it)] = {'n': Node('res_' + it.tag, (), log), 'N': None, 'e': (),
                               't': (Node('r1_' + it.tag, (), log), Node('r2_' + it.tag, (), log))}[s]
        inplace, inval = _flags()
        me = SelfT({}, inplace, inval, results=results)
        me.spliced = items
        original = tuple(Node('orig%d' % i, (), log) for i in range(2))
        env = {'me': me, 'items': items, 'results': results, 'original': original}
        return (env,), {}, env

    def run(env):
        return VISIT_TUPLE(env['me'], env['original'])

    def post(env, r):
        B = z3.BoolVal
        me = env['me']
        want = tuple(env['results'][id(it)] for it in env['items'] if env['results'][id(it)] is not None
                     and env['results'][id(it)] != ())
        return [('splice-applied-to-the-input', B(getattr(me, 'injected', None) == ('INJ', env['original']))),
                ('every-spliced-element-visited-once-in-order', B([v[0] for v in me.visited] == list(env['items']))),
                ('visited-elements-in-order-without-None-and-empty', B(isinstance(r, tuple) and len(r) == len(want) and
                                                                         all(a is b for a, b in zip(r, want))))]
    return _mk('Transformer.visit_tuple', setup, post, run, variant='results ' + (shape or 'empty'))


def spec_visit_record(changed):
    def setup(spec):
        log = []
        o = Node('o', (), log)
        res = Node('o2', (), log) if changed else o
        env = {'o': o, 'res': res}
        return (env,), {}, env

    def run(env):
        class Me(SelfT):
            pass
        me = Me({}, False, False)
        env['me'] = me
        sup = type('Sup', (), {'visit': lambda self, o, *a, **kw: env['res']})()
        return VISIT_WITH_SUPER(me, env['o'], sup)

    def post(env, r):
        B = z3.BoolVal
        me = env['me']
        return [('returns-the-handler-result', B(r is env['res'])),
                ('rebuilt-records-exactly-the-changed-nodes', B(me.rebuilt == ({env['o']: env['res']} if changed else {})))]
    return _mk('Transformer.visit', setup, post, run, variant='result is %s' % ('a new node' if changed else 'the same node'))


_SUPER = [None]


def VISIT_WITH_SUPER(me, o, sup):
    _SUPER[0] = sup
    return VISIT(me, o)


def _super_hook(clsname, obj):
    return _SUPER[0]


def specs(tier='quick'):
    out = []
    for scoped in (False, True):
        for case in ('unmapped', 'none', 'node', 'self', 'tuple-with-self'):
            for n in (0, 1, 2):
                out.append(spec_visit_node(case, n, scoped))
    for shape in ('', 'n', 'N', 'e', 't', 'nN', 'Nn', 'ne', 'tn', 'nNe', 'Ntn', 'nnn'):
        out.append(spec_visit_tuple(shape))
    for kinds in ('', 'n', 'N', 't', 'nN', 'Nn', 'NN', 'tn'):
        out.append(spec_rebuild(kinds))
    rec = [spec_visit_record(True), spec_visit_record(False)]
    for s in rec:
        s._super = _super_hook
    return out + rec


def bounded_checks(tier, seed):
    import json
    import os
    import subprocess
    root = os.path.dirname(os.path.dirname(os.path.abspath(__file__)))
    repo = os.environ.get('LOKI_REPO', '/repo')
    p = subprocess.run([os.environ.get('LOKI_PYTHON', '/venv/bin/python'), os.path.join(root, 'replay', 'C14.py'),
                        '--bounded'], capture_output=True, text=True, timeout=1800,
                       env=dict(os.environ, PYTHONPATH=repo), cwd=repo)
    line = next((l for l in reversed(p.stdout.splitlines()) if l.startswith('[')), None)
    if line is None:
        return [{'name': 'bounded/driver', 'cases': 0, 'violation': False, 'error': p.stderr[-600:],
                 'rule': 'native driver failed to run'}]
    return json.loads(line)


META = {
    'category': 'other',
    'technique': 'contract-based deductive verification (pyvc): handlers executed from the real source on abstract node '
                 'tokens with a write log (frame), recursive visit = induction hypothesis; bounded exhaustive check of the '
                 'tuple splice',
    'level_text': 'Transformer.visit_Node, visit_ScopedNode, visit_tuple, visit, _rebuild and is_source_valid are executed '
                  'from their real source for every mapping case (unmapped, to None, to a node, to a tuple containing the node) '
                  'and 0..2 children with symbolic inplace / invalidate_source / rebuild_scopes flags and source validity: '
                  'the result has exactly the visited children in order (or is None / a copy of the handle, not recursed), '
                  'visit_tuple returns the visited elements of the spliced tuple without None and (), `rebuilt` records '
                  'exactly the changed nodes, and without in-place mode neither the original node nor its Source object is '
                  'written (the Source is cloned before it is invalidated). Transformer._rebuild hands the result an invalidated clone of the source whenever a child node was rebuilt (in place or not) and the unchanged source otherwise; an identity mapper entry (node -> itself) replaces the node as a whole without descending.',
    'level_note': 'Known finding: with the default rebuild_scopes=False, visit_ScopedNode updates the ORIGINAL scoped node '
                  'in place even though inplace=False. Bounded, never counted as proved: _inject_tuple_mapping (tuple index / '
                  'slice arithmetic) is checked exhaustively against the splice specification for all tuples of length <= 4 '
                  'over 3 nodes and all mappings from a pool of handles. Children counts 0..2 are enumerated (the handlers '
                  'treat children uniformly through one generator expression). Unverified and named: NestedTransformer, '
                  'MaskedTransformer, NestedMaskedTransformer; Node._rebuild / _update themselves (dataclass re-construction) '
                  'are modelled by the token class; structural equality of dataclass nodes as dict keys (`o in mapper`) is '
                  'identity in the model.',
    'trusted_base': ['pyvc engine', 'token model of Node._rebuild/_update/args/args_frozen/children',
                     'GenericVisitor dispatch (visit -> visit_<Class>)'],
    'assumptions': ['a one-to-many mapping key is only visited as an element of a tuple (appendix A.3)',
                    'termination not proved'],
}
