"""C15 - node and expression finders return exactly the matching nodes (DESIGN section 4 C15).

IR tree datatype: NodeM(uid, matches, is_typedef, children) with children a list whose elements are nodes, tuples of
such elements, or other objects (expressions, strings).  Spec functions (mutually recursive, from the property):
    pre(x)   = pre-order list of the matching nodes below x, not descending below a TypeDef, and in greedy mode not
               below a match;             prel(list) = concatenation of pre over the elements
    chains(x, anc) = for FindScopes: the ancestor chains (anc ++ path to the node) of the matching nodes
Contract of FindNodes.visit(o, ret) - the induction hypothesis at the recursive calls -: it returns ret ++ pre(o).
visit_Node, visit_TypeDef, visit_tuple, visit_object (and FindScopes.visit_Node) are executed from their real source
with the loops over children cut at the invariant ret == ret0 ++ prel(seen), for a symbolic greedy flag.

Expression walkers: every map_* method that LokiWalkMapper defines itself is executed on a node whose children are
opaque tokens; it must call rec() exactly on the structural children of that node kind (table CHILDREN below, written
from the class definitions in symbols.py / literals.py / operations.py) in order, and post_visit(expr) exactly once -
unless visit(expr) vetoes the node, in which case nothing is visited."""
import z3
from pyvc import vcrt
from pyvc.runner import FunctionSpec
from pyvc.inline import inline
from pyvc.values import ClassModel, Theory, SV, SSeq, SBool, mk_bool, truth, as_bool_term
from pyvc.core import ctx, OutOfSubset, define_rec, check_retry, P_BIG

PROP = 'C15'
FIND = 'loki/ir/find.py'
MAP = 'loki/expression/mappers.py'

T = Theory('find', [ClassModel('NodeM', [], [('uid', 'Int'), ('matches', 'Bool'), ('is_typedef', 'Bool'), ('children', 'VL')])])
V, VL = T.V, T.VL
A = T.acc
is_node = T.recog['is_C_NodeM']
GREEDY = z3.Bool('greedy')
app = T.app
nil, cons = VL.nil, VL.cons

pre = z3.RecFunction('pre', V, VL)
prel = z3.RecFunction('prel', VL, VL)
_x, _s = z3.Const('x!f', V), z3.Const('s!f', VL)


def _one(x):
    return cons(x, nil)


define_rec(pre, [_x], z3.If(is_node(_x),
                            z3.If(A['NodeM__matches'](_x),
                                  z3.If(z3.Or(GREEDY, A['NodeM__is_typedef'](_x)), _one(_x),
                                        cons(_x, prel(A['NodeM__children'](_x)))),
                                  z3.If(A['NodeM__is_typedef'](_x), nil, prel(A['NodeM__children'](_x)))),
                            z3.If(V.is_VTuple(_x), prel(V.titems(_x)),
                                  z3.If(V.is_VList(_x), prel(V.litems(_x)), nil))))
define_rec(prel, [_s], z3.If(VL.is_nil(_s), nil, app(pre(VL.hd(_s)), prel(VL.tl(_s)))))

# FindScopes: chains(x, anc) - lists of ancestor lists (each chain is a VList value)
chains = z3.RecFunction('chains', V, VL, VL)
chainsl = z3.RecFunction('chainsl', VL, VL, VL)
_a = z3.Const('anc!f', VL)
_here = app(_a, _one(_x))
define_rec(chains, [_x, _a], z3.If(is_node(_x),
                                   z3.If(A['NodeM__matches'](_x),
                                         z3.If(GREEDY, _one(V.VList(_here)),
                                               cons(V.VList(_here), chainsl(A['NodeM__children'](_x), _here))),
                                         chainsl(A['NodeM__children'](_x), _here)),
                                   z3.If(V.is_VTuple(_x), chainsl(V.titems(_x), _a),
                                         z3.If(V.is_VList(_x), chainsl(V.litems(_x), _a), nil))))
define_rec(chainsl, [_s, _a], z3.If(VL.is_nil(_s), nil, app(chains(VL.hd(_s), _a), chainsl(VL.tl(_s), _a))))


def _lemmas():
    a, b = z3.Consts('a!fl b!fl', VL)
    anc = z3.Const('anc!fl', VL)
    return list(T.base_lemmas) + [
        z3.ForAll([a, b], prel(app(a, b)) == app(prel(a), prel(b)), patterns=[prel(app(a, b))]),
        z3.ForAll([a, b, anc], chainsl(app(a, b), anc) == app(chainsl(a, anc), chainsl(b, anc)),
                  patterns=[chainsl(app(a, b), anc)]),
    ]


LEMMAS = _lemmas()
NODE = T.classes['NodeM']
NODE.props['children'] = lambda self: SSeq(T, A['NodeM__children'](self.t), 'tuple')


class Finder:
    """`self` of FindNodes / FindScopes: rule() is the abstract match predicate, visit() the induction hypothesis"""
    match = 'MATCH'

    def __init__(self, scopes=False):
        self.greedy = mk_bool(GREEDY)
        self.scopes = scopes

    def default_retval(self):
        return vcrt.VC.mkseq(vcrt.CURRENT, 'list', []) if False else SSeq(T, nil, 'list')

    def rule(self, match, o):
        if not isinstance(o, SV):
            raise OutOfSubset('rule(%r)' % (o,))
        return mk_bool(A['NodeM__matches'](o.t))

    def visit(self, o, ret=None, ancestors=None, **kwargs):
        if kwargs:
            raise OutOfSubset('visit(**%s)' % sorted(kwargs))
        c = ctx()
        ot = T.lift(o)
        r0 = nil if ret is None else T.lift_seq(ret)
        if self.scopes:
            anc = nil if ancestors is None else T.lift_seq(ancestors)
            res = app(r0, chains(ot, anc))
        else:
            res = app(r0, pre(ot))
        if isinstance(ret, SSeq):
            ret.t = c.fresh(VL, 'ret_mutated')         # the callee may have appended to the list it was given
        return SSeq(T, z3.simplify(res), 'list')


G = {}


def _fresh_node(typedef=None):
    c = ctx()
    t = c.fresh(V, 'o')
    c.assume(is_node(t))
    if typedef is not None:
        c.assume(A['NodeM__is_typedef'](t) == z3.BoolVal(typedef))
    return SV(T, t, cls='NodeM')


def _ret_arg(with_ret):
    if not with_ret:
        return {}, nil
    r = ctx().fresh(VL, 'ret0')
    return {'ret': SSeq(T, r, 'list')}, r


def spec_visit_node(method, typedef, with_ret):
    state = {}

    def setup(spec):
        o = _fresh_node(typedef)
        kw, r0 = _ret_arg(with_ret)
        env = {'o': o, 'r0': r0}
        state['env'] = env
        return (Finder(), o), kw, env

    def inv(L):
        env = state['env']
        o = env['o'].t
        base = z3.If(A['NodeM__matches'](o), app(env['r0'], _one(o)), env['r0'])
        return {'collected-so-far': T.lift_seq(L['ret']) == app(base, prel(L['__seen'].t)),
                'children': L['__seq'].t == A['NodeM__children'](o)}

    def post(env, r):
        return [('returns-ret-plus-preorder-matches', T.lift_seq(r) == app(env['r0'], pre(env['o'].t)))]
    return FunctionSpec(PROP, FIND, 'FindNodes.' + method, G, setup, post, invariants={1: inv} if method == 'visit_Node' else {},
                        theory=T, lemmas=LEMMAS, variant='%s,%s' % ('typedef' if typedef else 'node', 'ret given' if with_ret else 'no ret'),
                        decode=lambda env, m, r: {'function': 'FindNodes.' + method})


def spec_visit_tuple(with_ret):
    state = {}

    def setup(spec):
        c = ctx()
        items = c.fresh(VL, 'items')
        kw, r0 = _ret_arg(with_ret)
        env = {'items': items, 'r0': r0}
        state['env'] = env
        return (Finder(), SSeq(T, items, 'tuple')), kw, env

    def inv(L):
        env = state['env']
        return {'collected-so-far': T.lift_seq(L['ret']) == app(env['r0'], prel(L['__seen'].t)),
                'items': L['__seq'].t == env['items']}

    def post(env, r):
        return [('returns-ret-plus-preorder-matches', T.lift_seq(r) == app(env['r0'], prel(env['items'])))]
    return FunctionSpec(PROP, FIND, 'FindNodes.visit_tuple', G, setup, post, invariants={1: inv}, theory=T, lemmas=LEMMAS,
                        variant='ret given' if with_ret else 'no ret',
                        decode=lambda env, m, r: {'function': 'FindNodes.visit_tuple'})


def spec_visit_object(with_ret):
    def setup(spec):
        kw, r0 = _ret_arg(with_ret)
        return (Finder(), 'some expression or string'), kw, {'r0': r0}

    def post(env, r):
        return [('returns-ret-unchanged', T.lift_seq(r) == env['r0'])]
    return FunctionSpec(PROP, FIND, 'FindNodes.visit_object', G, setup, post, theory=T, lemmas=LEMMAS,
                        variant='ret given' if with_ret else 'no ret',
                        decode=lambda env, m, r: {'function': 'FindNodes.visit_object'})


def spec_scopes_visit_node(with_ret):
    state = {}

    def setup(spec):
        c = ctx()
        o = _fresh_node(False)
        kw, r0 = _ret_arg(with_ret)
        anc = c.fresh(VL, 'ancestors0')
        kw['ancestors'] = SSeq(T, anc, 'list')
        env = {'o': o, 'r0': r0, 'anc': anc}
        state['env'] = env
        return (Finder(scopes=True), o), kw, env

    def inv(L):
        env = state['env']
        o = env['o'].t
        here = app(env['anc'], _one(o))
        base = z3.If(A['NodeM__matches'](o), app(env['r0'], _one(V.VList(here))), env['r0'])
        return {'collected-so-far': T.lift_seq(L['ret']) == app(base, chainsl(L['__seen'].t, here)),
                'ancestors-extended': T.lift_seq(L['ancestors']) == here,
                'children': L['__seq'].t == A['NodeM__children'](o)}

    def post(env, r):
        return [('returns-ret-plus-ancestor-chains', T.lift_seq(r) == app(env['r0'], chains(env['o'].t, env['anc'])))]
    return FunctionSpec(PROP, FIND, 'FindScopes.visit_Node', G, setup, post, invariants={1: inv}, theory=T, lemmas=LEMMAS,
                        variant='ret given' if with_ret else 'no ret',
                        decode=lambda env, m, r: {'function': 'FindScopes.visit_Node'})


# ---- expression walkers: every map_* of LokiWalkMapper visits exactly the structural children ---------------------
class _Tok:
    def __init__(self, name, truthy=True):
        self.name, self._truthy = name, truthy

    def __getattr__(self, attr):
        if attr.startswith('__'):
            raise AttributeError(attr)
        from pyvc.values import ModelAttributeError
        raise ModelAttributeError('the node token of the C15 sidecar has no attribute %r' % attr)

    def __bool__(self):
        return truth(self._truthy)

    def __repr__(self):
        return '<%s>' % self.name


# structural children per walker method: attribute name -> how it contributes
#   'one'  a single child expression           'opt'  a child that may be None / falsy (then not visited)
#   'many' a tuple of child expressions (model: 2 elements)
CHILDREN = {
    'map_variable_symbol': [('parent', 'opt')],
    'map_meta_symbol': [('_symbol', 'one')],
    'map_array_subscript': [('aggregate', 'one'), ('index', 'one')],
    'map_float_literal': [('kind', 'opt')],
    'map_cast': [('function', 'one'), ('parameters', 'many'), ('kind', 'optnone')],
    'map_literal_list': [('elements', 'many-nonstr')],
    'map_inline_do': [('values', 'one'), ('variable', 'one'), ('bounds', 'one')],
    'map_c_reference': [('expression', 'one')],
    'map_c_dereference': [('expression', 'one')],
    # aliases / overrides a back end or a later version may define for nodes whose walker is pymbolic's today
    'map_inline_call': [('function', 'one'), ('parameters', 'many'), ('kw_parameters', 'dict-values')],
    'map_call_with_kwargs': [('function', 'one'), ('parameters', 'many'), ('kw_parameters', 'dict-values')],
}


class Walker:
    def __init__(self, veto):
        self.veto = veto
        self.log = []

    def visit(self, expr, *a, **kw):
        self.log.append(('visit', expr))
        return mk_bool(z3.Not(self.veto))

    def rec(self, expr, *a, **kw):
        self.log.append(('rec', expr))

    def post_visit(self, expr, *a, **kw):
        self.log.append(('post', expr))


WALK = '/venv/lib/python3.12/site-packages/pymbolic/mapper/__init__.py'


def walker_methods():
    import ast
    from pyvc import rewrite
    node, _ = rewrite.find_def(ast.parse(rewrite.read_source(MAP)), 'LokiWalkMapper')
    return [st.name for st in node.body if isinstance(st, ast.FunctionDef) and st.name.startswith('map_')]


# literal node kinds and their structural children: whatever walker LokiWalkMapper ALIASES them to must visit these
ALIASED_CHILDREN = {'map_int_literal': [('kind', 'opt')], 'map_logic_literal': [], 'map_string_literal': [],
                    'map_intrinsic_literal': []}


def walker_aliases():
    """class-level assignments `map_x = map_y` / `map_x = WalkMapper.map_y` of LokiWalkMapper for the literal kinds:
    (alias, source file, qualified name of the function that really runs)"""
    import ast
    from pyvc import rewrite
    node, _ = rewrite.find_def(ast.parse(rewrite.read_source(MAP)), 'LokiWalkMapper')
    out = []
    for st in node.body:
        if isinstance(st, ast.Assign) and len(st.targets) == 1 and isinstance(st.targets[0], ast.Name):
            name = st.targets[0].id
            if name not in ALIASED_CHILDREN:
                continue
            v = st.value
            if isinstance(v, ast.Name):
                out.append((name, MAP, 'LokiWalkMapper.' + v.id))
            elif isinstance(v, ast.Attribute) and isinstance(v.value, ast.Name) and v.value.id == 'WalkMapper':
                out.append((name, WALK, 'WalkMapper.' + v.attr))
            else:
                out.append((name, None, ast.unparse(v)))
    return out


def spec_walker(method, presence, alias_of=None):
    """presence: tuple of booleans, one per optional child: present / absent; alias_of: (file, qualname) of the function a
    class-level alias `method = ...` resolves to (the children table is the alias's own)"""
    src_file, src_qual = MAP, 'LokiWalkMapper.' + method
    if method.startswith('pymbolic:'):
        method = method.split(':')[1]
        src_file, src_qual = WALK, 'WalkMapper.' + method
    table = CHILDREN.get(method)
    if alias_of is not None:
        src_file, src_qual = alias_of
        table = ALIASED_CHILDREN[method]
        if src_file is None:
            raise OutOfSubset('LokiWalkMapper.%s is aliased to %s, which the sidecar cannot resolve' % (method, src_qual))
    fn = inline(src_file, src_qual, {'list': list})

    def setup(spec):
        c = ctx()
        if table is None:
            raise OutOfSubset('LokiWalkMapper.%s has no entry in the structural-children table of the sidecar '
                              '(a new walker method: add its children)' % method)
        expr = _Tok('expr')
        want = []
        k = 0
        for attr, how in table:
            if how == 'one':
                t = _Tok(attr)
                setattr(expr, attr, t)
                want.append(t)
            elif how in ('opt', 'optnone'):
                if presence[k]:
                    t = _Tok(attr)
                    setattr(expr, attr, t)
                    want.append(t)
                else:
                    setattr(expr, attr, None)
                k += 1
            elif how == 'many':
                ts = (_Tok(attr + '0'), _Tok(attr + '1'))
                setattr(expr, attr, ts)
                want += list(ts)
            elif how == 'dict-values':
                ts = {'key_a': _Tok(attr + '_a'), 'key_b': _Tok(attr + '_b')}
                setattr(expr, attr, ts)
                want += list(ts.values())
            elif how == 'many-nonstr':
                ts = (_Tok(attr + '0'), 'implied-do as plain string', _Tok(attr + '2'))
                setattr(expr, attr, ts)
                want += [ts[0], ts[2]]
        if method in ('map_inline_call', 'map_call_with_kwargs'):
            expr.arguments = expr.parameters            # InlineCall.arguments: the positional parameters
            expr.kwarguments = tuple(expr.kw_parameters.items())
        veto = c.fresh(z3.BoolSort(), 'visit_vetoes')
        w = Walker(veto)
        env = {'w': w, 'expr': expr, 'want': want, 'veto': veto}
        return (env,), {}, env

    def run(env):
        fn(env['w'], env['expr'])
        return env['w'].log

    def post(env, log):
        B = z3.BoolVal
        expr, want = env['expr'], env['want']
        full = [('visit', expr)] + [('rec', t) for t in want] + [('post', expr)]
        vetoed = [('visit', expr)]
        same = lambda a, b: len(a) == len(b) and all(x[0] == y[0] and x[1] is y[1] for x, y in zip(a, b))
        if not want:
            # a leaf: there is nothing to descend into, so a veto of visit() has no child visits to suppress (pymbolic's
            # leaf walkers post-visit regardless)
            return [('visits-exactly-the-structural-children', B(same(log, full) or same(log, vetoed)))]
        return [('visits-exactly-the-structural-children', z3.If(env['veto'], B(same(log, vetoed)), B(same(log, full))))]
    sp = FunctionSpec(PROP, src_file, src_qual, {}, setup, post, theory=T, lemmas=[],
                      variant=(('alias %s, ' % method) if alias_of is not None else '') + (
                          'optional children %s' % (presence,) if presence else 'no optional children') if (presence or alias_of) else None,
                      decode=lambda env, m, r: {'function': src_qual})
    sp.fn_override = run
    import ast
    from pyvc import rewrite
    src = rewrite.read_source(src_file)
    nd, _ = rewrite.find_def(ast.parse(src), src_qual)
    sp.fn_info = {'file': src_file, 'qualname': src_qual, 'sha': rewrite.sha(rewrite.func_text(src, nd)),
                  'loops': {}, 'dropped': []}
    return sp


# ---- ExpressionFinder (loki/ir/expr_visitors.py): every match of every expression child, declarations included -----
# Executed from the real source on abstract tokens (a finite enumeration of shapes; every function is loop-free once the
# children are concrete): `visit(child)` is the induction hypothesis (an arbitrary fixed tuple of matches per child),
# `retrieve(expr)` an arbitrary fixed tuple of matches per expression.
EXV = 'loki/ir/expr_visitors.py'


class _XExpr:
    """a matched sub-expression / an expression child (a pymbolic Expression for isinstance purposes)"""
    def __init__(self, tag):
        self.tag = tag

    def __repr__(self):
        return self.tag

    __str__ = __repr__


class _XNode:
    def __init__(self, tag, children=(), symbols=()):
        self.tag, self.children, self.symbols = tag, children, symbols

    def __repr__(self):
        return '<%s>' % self.tag


class _XType:
    def __init__(self, initial):
        self.initial = initial


class _XSymbol(_XExpr):
    def __init__(self, tag, initial):
        _XExpr.__init__(self, tag)
        self.type = _XType(initial)


class _XScalar(_XExpr):
    pass


class _XArray(_XExpr):
    pass


def _x_flatten(l, is_leaf=None):
    from pyvc.inline import inline as _inl
    return _X['flatten'](l, is_leaf=is_leaf)


_X = {}


def _x_setup():
    if _X:
        return
    import collections
    util = 'loki/tools/util.py'
    g_util = {'is_iterable': lambda o: isinstance(o, (tuple, list)), 'Iterable': collections.abc.Iterable}
    _X['flatten'] = inline(util, 'flatten', g_util)
    g_util['flatten'] = _X['flatten']

    class _OrderedSet(list):
        """loki.tools.OrderedSet as far as the finder uses it: an insertion-ordered collection without duplicates"""
        def __init__(self, items=()):
            list.__init__(self)
            for i in items:
                if not any(i is j for j in self):
                    self.append(i)
    G = {'flatten': _X['flatten'], 'as_tuple': lambda x: () if x is None else (tuple(x) if isinstance(x, (tuple, list)) else (x,)),
         'Expression': _XExpr, 'Scalar': _XScalar, 'Array': _XArray, 'Node': _XNode, 'OrderedSet': _OrderedSet}
    _X['G'] = G
    for m in ('find_uniques', '_return', 'visit_tuple', 'visit_Node', 'visit_TypeDef', 'visit_VariableDeclaration',
              'visit_Expression'):
        _X[m] = inline(EXV, 'ExpressionFinder.' + m, G)


class _XSelf:
    """an ExpressionFinder instance: the real methods bound to it; visit / retrieve are the fixed functions"""
    def __init__(self, unique, results, retrieved):
        import types
        self.unique, self.with_ir_node = unique, False
        self.results, self.retrieved, self.visited, self.retrieved_calls = results, retrieved, [], []
        for m in ('find_uniques', '_return', 'visit_tuple', 'visit_Node', 'visit_TypeDef', 'visit_VariableDeclaration',
                  'visit_Expression'):
            setattr(self, m, types.MethodType(_X[m], self))

    def visit(self, o, **kw):
        if isinstance(o, (tuple, list)):
            return self.visit_tuple(o, **kw)
        self.visited.append(o)
        return self.results[id(o)]

    def retrieve(self, e):
        self.retrieved_calls.append(e)
        return self.retrieved[id(e)]


def _x_sha(meth):
    import ast
    from pyvc import rewrite
    src = rewrite.read_source(EXV)
    node, _ = rewrite.find_def(ast.parse(src), 'ExpressionFinder.' + meth)
    return rewrite.sha(rewrite.func_text(src, node))


def _x_super(clsname, obj):
    return obj          # super().visit(...) of the finder is the generic dispatch: the model's visit


def spec_finder(meth, shape, unique):
    """shape: visit_Node / visit_tuple: a tuple of child kinds ('n' node with 2 matches, 'z' node without, 't' nested tuple
    of two nodes); visit_VariableDeclaration: a tuple of booleans (symbol k has an initialiser)"""
    def setup(spec):
        _x_setup()
        results, retrieved = {}, {}
        env = {}
        if meth == 'visit_VariableDeclaration':
            syms = []
            for k, has in enumerate(shape):
                init = _XExpr('init%d' % k) if has else None
                if init is not None:
                    retrieved[id(init)] = [_XExpr('m_init%d_%d' % (k, j)) for j in range(2)]
                syms.append(_XSymbol('sym%d' % k, init))
            for sy in syms:
                results[id(sy)] = (_XExpr('m_' + sy.tag),)
            dims = _XExpr('dim')
            results[id(dims)] = (_XExpr('m_dim'),)
            o = _XNode('decl', (tuple(syms), (dims,)), tuple(syms))
            want = [results[id(sy)][0] for sy in syms] + [results[id(dims)][0]]
            for sy in syms:
                if sy.type.initial is not None:
                    want += list(retrieved[id(sy.type.initial)])
            arg = o
        else:
            kids, want = [], []
            for k, kind in enumerate(shape):
                if kind == 't':
                    sub = tuple(_XNode('c%d_%d' % (k, j)) for j in range(2))
                    for n in sub:
                        results[id(n)] = (_XExpr('m_' + n.tag),)
                        want.append(results[id(n)][0])
                    kids.append(sub)
                else:
                    n = _XNode('c%d' % k)
                    results[id(n)] = tuple(_XExpr('m_%s_%d' % (n.tag, j)) for j in range(2)) if kind == 'n' else ()
                    want += list(results[id(n)])
                    kids.append(n)
            arg = _XNode('o', tuple(kids)) if meth == 'visit_Node' else tuple(kids)
        me = _XSelf(unique, results, retrieved)
        env.update(me=me, arg=arg, want=want)
        return (env,), {}, env

    def run(env):
        return getattr(env['me'], meth)(env['arg'])

    def post(env, r):
        got = list(r)
        want = env['want']
        same = len(got) == len(want) and all(a is b for a, b in zip(got, want))
        return [('returns-every-match-of-every-child-in-order', z3.BoolVal(same))]
    sp = FunctionSpec(PROP, EXV, 'ExpressionFinder.' + meth, {}, setup, post, theory=T, lemmas=[], ext=False,
                      variant='%s, unique=%s' % (''.join(str(int(x)) if isinstance(x, bool) else x for x in shape) or 'empty', unique),
                      super_=_x_super, decode=lambda env, m, r: {'function': 'ExpressionFinder.' + meth, 'shape': list(shape), 'unique': unique})
    sp.fn_override = run
    sp.fn_info = {'file': EXV, 'qualname': 'ExpressionFinder.' + meth, 'sha': _x_sha(meth), 'loops': {}, 'dropped': []}
    return sp


def finder_specs():
    import itertools
    out = []
    for unique in (False, True):
        for n in range(0, 4):
            for shape in itertools.product('nzt', repeat=n):
                if n == 3 and shape.count('t') > 1:
                    continue
                out.append(spec_finder('visit_Node', shape, unique))
                if n <= 2:
                    out.append(spec_finder('visit_tuple', shape, unique))
        for k in (1, 2, 3):
            for shape in itertools.product((True, False), repeat=k):
                out.append(spec_finder('visit_VariableDeclaration', shape, unique))
    return out


def specs(tier='quick'):
    out = []
    for wr in (False, True):
        out += [spec_visit_node('visit_Node', False, wr), spec_visit_node('visit_TypeDef', True, wr), spec_visit_tuple(wr),
                spec_visit_object(wr), spec_scopes_visit_node(wr)]
    import itertools
    # the walker of inline calls is pymbolic's map_call_with_kwargs (alias in LokiWalkMapper): verified from its source
    out.append(spec_walker('pymbolic:map_call_with_kwargs', ()))
    for m in walker_methods():
        nopt = sum(1 for _, how in CHILDREN.get(m, []) if how in ('opt', 'optnone'))
        for pres in itertools.product((True, False), repeat=nopt):
            out.append(spec_walker(m, pres))
    for alias, f, q in walker_aliases():
        nopt = sum(1 for _, how in ALIASED_CHILDREN[alias] if how in ('opt', 'optnone'))
        for pres in itertools.product((True, False), repeat=nopt):
            out.append(spec_walker(alias, pres, alias_of=(f, q)))
    return out + finder_specs()


def lemma_proofs():
    b = z3.Const('ind!b', VL)
    anc = z3.Const('ind!anc', VL)
    x, r = z3.Const('ind!x', V), z3.Const('ind!r', VL)
    stmts = {
        'prel(app(a,b)) == app(prel(a), prel(b))': lambda a: prel(app(a, b)) == app(prel(a), prel(b)),
        'chainsl(app(a,b), anc) == app(chainsl(a, anc), chainsl(b, anc))':
            lambda a: chainsl(app(a, b), anc) == app(chainsl(a, anc), chainsl(b, anc)),
    }
    out = []
    for name, stmt in stmts.items():
        def thunk(stmt=stmt):
            res = []
            for tag, hyps, goal in (('base', [], stmt(nil)), ('step', [stmt(r)], stmt(cons(x, r)))):
                res.append((tag, str(check_retry(list(T.base_lemmas) + list(hyps) + [z3.Not(goal)], P_BIG))))
            return res
        out.append(('list lemma: ' + name, thunk))
    return T.base_lemma_proofs() + out


META = {
    'category': 'other',
    'technique': 'contract-based deductive verification (pyvc): tree datatype with mutually recursive spec functions, '
                 'loop invariants over the children, recursive visit = induction hypothesis; walker methods against a '
                 'structural-children table',
    'level_text': 'FindNodes.visit_Node / visit_TypeDef / visit_tuple / visit_object and FindScopes.visit_Node are executed from '
                  'their real source on a symbolic IR node (arbitrary children: nodes, nested tuples, other objects), for a '
                  'symbolic greedy flag, with and without an accumulator: the result is exactly ret ++ pre(o), the pre-order '
                  'list of matching nodes that does not descend below a TypeDef and, in greedy mode, below a match (for '
                  'FindScopes: the ancestor chains). Every map_* method LokiWalkMapper defines is executed and must visit '
                  'exactly the structural children of its node kind, in order, and post-visit the node once (nothing if '
                  'visit() vetoes). The list lemmas are proved by induction on every run. The class-level aliases of the literal kinds (map_int_literal = ..., map_logic_literal = ...) are resolved and the function they point to is verified against the children of that literal kind. ExpressionFinder.visit_Node / visit_tuple / visit_VariableDeclaration / _return / find_uniques are executed from their real source on abstract tokens for every shape of up to three children (nodes with and without matches, nested tuples) and declarations of one to three symbols with every pattern of initialisers, unique or not: the result is every match of every child, in order, including the matches of every declared symbol\'s initialiser.',
    'level_note': 'Level other: ExpressionFinder (visit_Node / visit_tuple / _return / find_uniques / with_ir_node pairing / '
                  'visit_VariableDeclaration) and ExpressionRetriever.retrieve are NOT under contract (generator expressions '
                  'with nested flatten; named), nor are the pymbolic WalkMapper methods that LokiWalkMapper re-uses '
                  '(map_sum, map_call_with_kwargs, map_slice ...: external). Trusted: pyvc engine; Visitor.visit dispatch '
                  '(lookup_method by class name / MRO); the structural-children table CHILDREN (written from the class '
                  'definitions); the match rule is an arbitrary predicate of the node.',
    'trusted_base': ['pyvc engine', 'GenericVisitor.lookup_method dispatch', 'structural-children table of the sidecar',
                     'pymbolic.mapper.WalkMapper (external)'],
    'assumptions': ['lists passed as `ret` may be mutated by the callee (callers only use the returned list)',
                    'termination not proved'],
}
