"""C16 - attaching and then detaching analysis information leaves the IR unchanged (DESIGN section 4 C16).

* PragmaAttacher.visit_tuple and PragmaDetacher.visit_tuple are executed from their real source on every sequence of
  length <= 5 over four element kinds (a pragma; a node of the requested type with a pragma_post field; a node of the
  requested type without that field; any other node), for both values of the post flag:
      flat(attach(s)) == s        (flat = every node preceded by its .pragma and followed by its .pragma_post: no
                                   pragma is lost, duplicated or reordered)
      detach(attach(s)) == s      element by element, by identity (references stay valid), and afterwards every node
                                   has pragma = pragma_post = None again
      frame                       only the fields pragma / pragma_post of nodes of the requested type are written
  The sequences are enumerated exhaustively up to the stated length (the two loops treat each pragma run and its two
  neighbours locally), so this part is BOUNDED in the sequence length and labelled so.
* pragmas_attached, pragma_regions_attached and dfa_attached (the real generator functions) are driven through normal
  exit and through an exception raised in the with-body: the detach call mirrors the attach call (same unit parts, same
  node type, same post flag) on both exits.
* DataflowAnalysisDetacher.visit_Node resets exactly the three dataflow fields."""
import itertools
import z3
from pyvc import vcrt
from pyvc.runner import FunctionSpec
from pyvc.inline import inline
from pyvc.values import Theory
from pyvc.core import ctx, OutOfSubset

PROP = 'C16'
PU = 'loki/ir/pragma_utils.py'
DFA = 'loki/analyse/abstract_dfa.py'
DF = 'loki/analyse/dataflow_analysis.py'
T = Theory('attach', [])
LOG = []


class Node:
    def __init__(self, tag):
        self.tag = tag

    def _update(self, *args, **kwargs):
        LOG.append((self, args, dict(kwargs)))
        if args:
            raise OutOfSubset('_update with positional arguments on a list element')
        self.__dict__.update(kwargs)

    def __repr__(self):
        return '<%s>' % self.tag


class Pragma(Node):
    pass


class Typed(Node):              # node of the requested type, with pragma / pragma_post fields (Loop, CallStatement ...)
    def __init__(self, tag):
        super().__init__(tag)
        self.pragma, self.pragma_post = None, None


class TypedNoPost(Node):        # node of the requested type that has no pragma_post field (VariableDeclaration ...)
    def __init__(self, tag):
        super().__init__(tag)
        self.pragma = None


class Other(Node):
    pass


def as_tuple(x):
    if x is None:
        return ()
    if isinstance(x, (tuple, list)):
        return tuple(x)
    return (x,)


G = {'Pragma': Pragma, 'as_tuple': as_tuple}
ATTACH = inline(PU, 'PragmaAttacher.visit_tuple', G)
DETACH = inline(PU, 'PragmaDetacher.visit_tuple', G)
KINDS = {'P': Pragma, 'T': Typed, 'U': TypedNoPost, 'O': Other}


class SelfA:
    def __init__(self, post):
        self.node_type = (Typed, TypedNoPost)
        self.attach_pragma_post = post
        self.detach_pragma_post = post

    def visit(self, i, **kw):
        return i


def flat(seq):
    out = []
    for x in seq:
        out += list(as_tuple(getattr(x, 'pragma', None))) + [x] + list(as_tuple(getattr(x, 'pragma_post', None)))
    return out


def _sha(file, qual):
    import ast
    from pyvc import rewrite
    src = rewrite.read_source(file)
    node, _ = rewrite.find_def(ast.parse(src), qual)
    return rewrite.sha(rewrite.func_text(src, node))


def _mk(file, qual, run, post, variant, notes=None):
    def setup(spec):
        env = {}
        return (env,), {}, env
    sp = FunctionSpec(PROP, file, qual, {}, setup, post, theory=T, variant=variant, lemmas=[],
                      ext=False, decode=lambda env, m, r: {'function': qual, 'variant': variant}, notes=notes or [])
    sp.fn_override = run
    sp.fn_info = {'file': file, 'qualname': qual, 'sha': _sha(file, qual.split(' ')[0]) if '.' in qual or qual in ('pragmas_attached', 'pragma_regions_attached', 'dfa_attached') else None, 'loops': {}, 'dropped': []}
    return sp


def spec_roundtrip(n, post_flag):
    def run(env):
        bad = []
        count = 0
        for shape in itertools.product('PTUO', repeat=n):
            count += 1
            del LOG[:]
            seq = tuple(KINDS[k]('%s%d' % (k, i)) for i, k in enumerate(shape))
            att = ATTACH(SelfA(post_flag), seq)
            name = ''.join(shape) or 'empty'
            if flat(att) != list(seq) or any(a is not b for a, b in zip(flat(att), seq)):
                bad.append((name, 'attach loses, duplicates or reorders elements: %r' % (flat(att),)))
            wrong_writes = [e for e in LOG if not isinstance(e[0], (Typed, TypedNoPost)) or set(e[2]) - {'pragma', 'pragma_post'}]
            if wrong_writes:
                bad.append((name, 'attach writes outside pragma / pragma_post of typed nodes: %r' % (wrong_writes[:1],)))
            det = DETACH(SelfA(post_flag), att)
            if len(det) != len(seq) or any(a is not b for a, b in zip(det, seq)):
                bad.append((name, 'detach(attach(s)) != s: %r' % (det,)))
            left = [x for x in seq if getattr(x, 'pragma', None) or getattr(x, 'pragma_post', None)]
            if left:
                bad.append((name, 'pragmas still attached after detach: %r' % (left,)))
        return {'bad': bad, 'count': count}

    def post(env, r):
        cl = [('all-sequences-enumerated', z3.BoolVal(r['count'] == 4 ** n))]
        kinds = {}
        for name, what in r['bad']:
            kinds.setdefault(what.split(':')[0], []).append(name)
        for tag in ('attach loses, duplicates or reorders elements', 'attach writes outside pragma / pragma_post of typed nodes',
                    'detach(attach(s)) != s', 'pragmas still attached after detach'):
            cl.append((tag.replace(' ', '-') + ('' if tag not in kinds else ' [e.g. %s]' % kinds[tag][0]),
                       z3.BoolVal(tag not in kinds)))
        return cl
    return _mk(PU, 'PragmaAttacher.visit_tuple', run, post,
               'with PragmaDetacher.visit_tuple, all sequences of length %d, post=%s' % (n, post_flag),
               notes=['bounded: exhaustive over 4^%d sequences' % n])


# ---- context managers ----------------------------------------------------------------------------------------------
class Unit:
    def __init__(self, parts):
        for p in parts:
            setattr(self, p, 'ORIGINAL_' + p)


def _drive(gen_fn, args, kwargs, raising):
    g = gen_fn(*args, **kwargs)
    next(g)
    try:
        if raising:
            g.throw(RuntimeError('body failed'))
        else:
            next(g)
    except StopIteration:
        return 'returned'
    except RuntimeError:
        return 'propagated'
    return 'suspended-again'


def spec_context(name, parts, raising):
    calls = []

    def attach(ir, *a, **kw):
        calls.append(('attach', ir, a, tuple(sorted(kw.items()))))
        return ('ATTACHED', ir)

    def detach(ir, *a, **kw):
        calls.append(('detach', ir, a, tuple(sorted(kw.items()))))
        return ir[1] if isinstance(ir, tuple) and ir[0] == 'ATTACHED' else ('DETACHED-UNATTACHED', ir)

    class Dfa:
        def attach_dataflow_analysis(self, u):
            calls.append(('attach', u, (), ()))

        def detach_dataflow_analysis(self, u):
            calls.append(('detach', u, (), ()))
    g = {'attach_pragmas': attach, 'detach_pragmas': detach, 'attach_pragma_regions': attach,
         'detach_pragma_regions': detach, 'hasattr': hasattr}
    file = DFA if name == 'dfa_attached' else PU
    fn = inline(file, name, g)

    def run(env):
        del calls[:]
        u = Unit(parts)
        if name == 'pragmas_attached':
            out = _drive(fn, (u, 'NODE_TYPE'), {'attach_pragma_post': 'POSTFLAG'}, raising)
        elif name == 'pragma_regions_attached':
            out = _drive(fn, (u,), {'keyword': 'KW'}, raising)
        else:
            out = _drive(fn, (u, Dfa()), {}, raising)
        return {'out': out, 'unit': u, 'calls': list(calls)}

    def post(env, r):
        B = z3.BoolVal
        calls_, u = r['calls'], r['unit']
        att = [c for c in calls_ if c[0] == 'attach']
        det = [c for c in calls_ if c[0] == 'detach']
        cl = [('exit-behaviour', B(r['out'] == ('propagated' if raising else 'returned'))),
              ('detach-mirrors-attach-on-%s' % ('exception' if raising else 'normal-exit'), B(len(att) == len(det) and len(att) >= 1))]
        if name == 'pragmas_attached':
            cl.append(('same-node-type-and-post-flag', B(all(a[2] == ('NODE_TYPE',) and d[2] == ('NODE_TYPE',) and
                                                               dict(a[3]).get('attach_pragma_post') == 'POSTFLAG' and
                                                               dict(d[3]).get('detach_pragma_post') == 'POSTFLAG'
                                                               for a, d in zip(att, det)))))
        if name != 'dfa_attached':
            cl.append(('every-part-restored', B(all(getattr(u, p) == 'ORIGINAL_' + p for p in parts))))
            cl.append(('one-attach-per-part', B(len(att) == len(parts))))
        return cl
    return _mk(file, name, run, post, 'unit with %s; %s' % ('+'.join(parts) or 'no parts', 'body raises' if raising else 'normal exit'))


def spec_dfa_detacher():
    class Sup:
        def visit_Node(self, o, **kw):
            return o
    fn = inline(DF, 'DataflowAnalysisDetacher.visit_Node', {})

    def run(env):
        del LOG[:]
        n = Node('n')
        n._live_symbols, n._defines_symbols, n._uses_symbols, n.body = 'L', 'D', 'U', 'BODY'
        env['n'] = n
        return fn(object(), n)

    def post(env, r):
        n = env['n']
        B = z3.BoolVal
        return [('resets-the-three-dataflow-fields', B(n._live_symbols is None and n._defines_symbols is None and n._uses_symbols is None)),
                ('writes-nothing-else', B(n.body == 'BODY' and all(set(e[2]) <= {'_live_symbols', '_defines_symbols', '_uses_symbols'} for e in LOG))),
                ('returns-the-node', B(r is n))]
    sp = _mk(DF, 'DataflowAnalysisDetacher.visit_Node', run, post, None)
    sp._super = lambda clsname, obj: Sup()
    return sp


# ---- dispatch: every attach / detach visitor recurses into the children of every IR node class ---------------------
import ast as _ast                 # noqa: E402
from pyvc import rewrite as _rw    # noqa: E402
NODE_FILES = ['loki/ir/nodes/abstract_nodes.py', 'loki/ir/nodes/internal_nodes.py', 'loki/ir/nodes/leaf_nodes.py',
              'loki/ir/nodes/stmt_nodes.py']
VISITOR_CHAINS = {
    'PragmaAttacher': [('PragmaAttacher', PU), ('Visitor', 'loki/ir/visitor.py'), ('GenericVisitor', 'loki/ir/visitor.py')],
    'PragmaDetacher': [('PragmaDetacher', PU), ('Visitor', 'loki/ir/visitor.py'), ('GenericVisitor', 'loki/ir/visitor.py')],
    'PragmaRegionAttacher': [('PragmaRegionAttacher', PU), ('Transformer', 'loki/ir/transformer.py'), ('Visitor', 'loki/ir/visitor.py'),
                             ('GenericVisitor', 'loki/ir/visitor.py')],
    'PragmaRegionDetacher': [('PragmaRegionDetacher', PU), ('Transformer', 'loki/ir/transformer.py'), ('Visitor', 'loki/ir/visitor.py'),
                             ('GenericVisitor', 'loki/ir/visitor.py')],
}


def _handlers(chain):
    out = {}
    for cls, file in reversed(chain):
        node, _ = _rw.find_def(_ast.parse(_rw.read_source(file)), cls)
        for st in node.body:
            if isinstance(st, _ast.FunctionDef) and st.name.startswith('visit_'):
                out[st.name[6:]] = (cls, file, st.name)
            if isinstance(st, _ast.Assign) and isinstance(st.value, _ast.Name) and st.value.id.startswith('visit_'):
                for t in st.targets:
                    if isinstance(t, _ast.Name) and t.id.startswith('visit_') and st.value.id[6:] in out:
                        out[t.id[6:]] = out[st.value.id[6:]]
    return out


def _node_classes():
    decl, trav = {}, {}
    for f in NODE_FILES:
        for n in _ast.parse(_rw.read_source(f)).body:
            if isinstance(n, _ast.ClassDef):
                decl[n.name] = [_ast.unparse(b).split('.')[-1] for b in n.bases]
                for st in n.body:
                    if isinstance(st, _ast.Assign) and any(isinstance(t, _ast.Name) and t.id == '_traversable' for t in st.targets):
                        trav[n.name] = _ast.literal_eval(st.value)
    built = {}

    def build(name):
        if name not in built:
            built[name] = type(name, tuple(build(b) for b in decl.get(name, []) if b in decl) or (object,), {})
        return built[name]
    for n in decl:
        build(n)
    bodies = ('body', 'else_body', 'bodies', 'default')
    with_bodies = sorted(n for n in decl if not n.startswith('_') and any(k.__name__ == 'Node' for k in built[n].__mro__)
                         and any(b in trav.get(n, []) for b in bodies))
    return built, with_bodies


def spec_recurses(visitor, node_class, built, handlers):
    key = next((k.__name__ for k in built[node_class].__mro__ if k.__name__ in handlers), None)
    cls, file, meth = handlers.get(key, (None, None, None))

    class Child(Node):
        pass

    class Me:
        mapper, inplace, invalidate_source, rebuild_scopes, rebuilt = {}, True, False, False, {}

        def __init__(self):
            self.visited = []

        def visit(self, o, **kw):
            if isinstance(o, tuple):
                for x in o:
                    self.visit(x, **kw)
                return o
            self.visited.append(o)
            return o

        def _rebuild(self, o, children, **a):
            return o

    def run(env):
        if cls is None:
            return None
        fn = inline(file, '%s.%s' % (cls, meth), {'is_iterable': lambda x: isinstance(x, (tuple, list)), 'as_tuple': as_tuple,
                                                 'Pragma': Pragma})
        o = Node('node')
        kids = (Child('c0'), Child('c1'))
        o.children = (kids,)            # one body holding two statements
        o.parent = None

        def upd(*a, **kw):
            return None
        o._update = upd
        me = Me()
        env['kids'] = kids
        fn(me, o)
        return me.visited

    def post(env, r):
        if r is None:
            return [('a-handler-is-found', z3.BoolVal(False))]
        seen = [x for x in r if x in env['kids']]
        return [('statements-inside-%s-are-visited [%s.%s]' % (node_class, cls, meth), z3.BoolVal(seen == list(env['kids'])))]
    sp = _mk(file or PU, '%s.%s' % (cls, meth) if cls else visitor, run, post, '%s dispatch for %s' % (visitor, node_class))
    return sp


def specs(tier='quick'):
    out = [spec_roundtrip(n, p) for n in range(0, 6) for p in (True, False)]
    for name in ('pragmas_attached', 'pragma_regions_attached'):
        for parts in (('spec', 'body'), ('body',), ('spec',)):
            for raising in (False, True):
                out.append(spec_context(name, parts, raising))
    out += [spec_context('dfa_attached', (), False), spec_context('dfa_attached', (), True), spec_dfa_detacher()]
    built, with_bodies = _node_classes()
    for visitor, chain in VISITOR_CHAINS.items():
        h = _handlers(chain)
        for nc in with_bodies:
            out.append(spec_recurses(visitor, nc, built, h))
    return out


META = {
    'category': 'other',
    'technique': 'contract-based checking through pyvc of the real attach / detach code on abstract nodes: bounded exhaustive '
                 'enumeration of sequences for the list handlers, the real context-manager generators driven through both exits',
    'level_text': 'PragmaAttacher.visit_tuple followed by PragmaDetacher.visit_tuple (real source) is the identity - element by '
                  'element, by object identity, with all pragma fields cleared and nothing but pragma / pragma_post of typed '
                  'nodes written - on every sequence of length <= 5 over {pragma, typed node, typed node without pragma_post, '
                  'other node}, for both post flags (BOUNDED in the length, exhaustive within it, 2730 sequences). The real '
                  'generator functions pragmas_attached, pragma_regions_attached and dfa_attached call the detach '
                  'counterpart with mirrored arguments on normal exit and when the body raises. DataflowAnalysisDetacher.visit_Node '
                  'resets exactly the three dataflow fields.',
    'level_note': 'Level other and bounded: no inductive invariant over the sequence is proved (the handlers mutate node '
                  'fields in place; the heap-and-sequence invariant was not attempted in the time available). Unverified and '
                  'named: attach_pragma_regions / detach_pragma_regions bodies (PragmaRegionAttacher), the recursion through '
                  'visit_Node (_update(*children)), DataflowAnalysisAttacher frame (C26 checks its sets), generated-code '
                  'equality (fgen). Trusted: pyvc engine; contextlib.contextmanager protocol (the generator is driven directly).',
    'trusted_base': ['pyvc engine', 'contextlib.contextmanager (external)', 'token model of Node._update'],
    'assumptions': ['the input list carries no attached pragmas before attaching', 'termination not proved'],
}
