"""C21 - the scheduler graph is exactly the pruned dependency closure of the seeds (DESIGN section 4 C21).

With   DEPS(i)  = item.create_dependency_items(...)            (ASSUMED: a deterministic list of items; this is where
                                                                 calls / imports / type uses and `disable` are read)
       BL(i)    = {d | SchedulerConfig.match_item_keys(d.name, i.block)}     (ASSUMED: the string matcher, see C23)
       PD(i)    = set(DEPS(i)) - BL(i)                          the pruned dependencies of i

SGraph._add_children(item)  returns PD(item) - nodes, adds exactly those nodes and exactly the edges
                            {(item, d) | d in PD(item), d != item}                         (loop invariant, set algebra)
SGraph._populate(seed)      worklist invariant; at exit the node set N contains the seed items, is closed
                            (p in N, p.expand  =>  PD(p) <= N), is contained in EVERY closed set containing the seed items
                            (so it is the least one: exactly the reachable set), and the edge set is exactly
                            {(p, d) | p in N, p.expand, d in PD(p), d != p}.
Universally quantified clauses are proved for arbitrary-but-fixed probe constants (skolemisation by hand: the
preservation of each clause at a probe only needs the clause at the same probe)."""
import z3
from pyvc import vcrt
from pyvc.runner import FunctionSpec
from pyvc.values import ClassModel, Theory, SV, SSeq, mk_bool
from pyvc.core import ctx, OutOfSubset, define_rec, check_retry, P_BIG

PROP = 'C21'
F = 'loki/batch/sgraph.py'

T = Theory('sgraph', [ClassModel('ItemM', [], [('uid', 'Int')]), ClassModel('NameM', [], [('nid', 'Int')])])
V, VL = T.V, T.VL
SetV = z3.SetSort(V)
EMPTY = z3.EmptySet(V)
is_item = T.recog['is_C_ItemM']

DEPS = z3.Function('create_dependency_items', V, VL)
BL = z3.Function('blocked_for', V, SetV)                # {d | match_item_keys(d.name, item.block)}
IGN = z3.Function('ignore_match_for', V, SetV)          # {d | match_item_keys(d.name, item.ignore, match_item_parents=True)}
PD = z3.Function('pruned_dependencies', V, SetV)
EXPAND = z3.Function('expand', V, z3.BoolSort())
SI = z3.Function('items_created_for_seed', V, VL)       # _create_item(_get_seed_name(name)) as a tuple
_s = z3.Const('s!sg', VL)
set_of = z3.RecFunction('set_of', VL, SetV)
define_rec(set_of, [_s], z3.If(VL.is_nil(_s), EMPTY, z3.SetAdd(set_of(VL.tl(_s)), VL.hd(_s))))
all_items = z3.RecFunction('all_items', VL, z3.BoolSort())
define_rec(all_items, [_s], z3.If(VL.is_nil(_s), True, z3.And(is_item(VL.hd(_s)), all_items(VL.tl(_s)))))
seedset = z3.RecFunction('seed_items', VL, SetV)        # union of the items created for a list of seed names
define_rec(seedset, [_s], z3.If(VL.is_nil(_s), EMPTY, z3.SetUnion(set_of(SI(VL.hd(_s))), seedset(VL.tl(_s)))))
seeds_ok = z3.RecFunction('seed_items_are_items', VL, z3.BoolSort())
define_rec(seeds_ok, [_s], z3.If(VL.is_nil(_s), True, z3.And(all_items(SI(VL.hd(_s))), seeds_ok(VL.tl(_s)))))


def pair(a, b):
    return V.VTuple(VL.cons(a, VL.cons(b, VL.nil)))


def fst(y):
    return VL.hd(V.titems(y))


def snd(y):
    return VL.hd(VL.tl(V.titems(y)))


def un(*xs):
    r = xs[0]
    for x in xs[1:]:
        r = z3.SetUnion(r, x)
    return r


def sub(a, b):
    return z3.IsSubset(a, b)


def edges_from(item, K):
    """{(item, d) | d in K, d != item} as a set of pair values"""
    y = z3.Const('y!edge', V)
    return z3.Lambda([y], z3.And(y == pair(item, snd(y)), z3.IsMember(snd(y), K), snd(y) != item))


def _lemmas():
    a, b = z3.Consts('a!sg b!sg', VL)
    x = z3.Const('x!sg', V)
    ap = T.app(a, b)
    return list(T.base_lemmas) + [
        z3.ForAll([a, b], set_of(ap) == un(set_of(a), set_of(b)), patterns=[set_of(ap)]),
        z3.ForAll([a, b], all_items(ap) == z3.And(all_items(a), all_items(b)), patterns=[all_items(ap)]),
        z3.ForAll([a, b], seedset(ap) == un(seedset(a), seedset(b)), patterns=[seedset(ap)]),
        z3.ForAll([a, b], seeds_ok(ap) == z3.And(seeds_ok(a), seeds_ok(b)), patterns=[seeds_ok(ap)]),
        z3.ForAll([x, a], T.mem(x, a) == z3.IsMember(x, set_of(a)), patterns=[T.mem(x, a)]),
    ]


LEMMAS = _lemmas()


# ---- models ---------------------------------------------------------------------------------------------------------
class NameTok:
    """item.name of a symbolic item (only handed to the string matcher)"""
    def __init__(self, t):
        self.t = t


class KeysTok:
    """item.block / item.ignore of a symbolic item"""
    def __init__(self, kind, t):
        self.kind, self.t = kind, t


class ConfigDict:
    """item.config: writes of is_ignored / lib are outside this property's contract (not tracked)"""
    def __init__(self, t):
        self.t = t

    def __setitem__(self, k, v):
        if k not in ('is_ignored', 'lib'):
            raise OutOfSubset('item.config[%r] written' % (k,))

    def get(self, k, d=None):
        if k != 'lib':
            raise OutOfSubset('item.config.get(%r)' % (k,))
        return SV(T, ctx().fresh(V, 'lib'))


def _item_model():
    cm = T.classes['ItemM']
    cm.props['name'] = lambda self: NameTok(self.t)
    cm.props['block'] = lambda self: KeysTok('block', self.t)
    cm.props['ignore'] = lambda self: KeysTok('ignore', self.t)
    cm.props['is_ignored'] = lambda self: mk_bool(ctx().fresh(z3.BoolSort(), 'is_ignored'))
    cm.props['config'] = lambda self: ConfigDict(self.t)
    cm.props['expand'] = lambda self: mk_bool(EXPAND(self.t))

    def create_dependency_items(self, item_factory=None, config=None, **kw):
        ctx().assume(all_items(DEPS(self.t)))
        return SSeq(T, DEPS(self.t), 'tuple')
    cm.methods['create_dependency_items'] = create_dependency_items


_item_model()


class SchedulerConfigModel:
    """the class object SchedulerConfig as far as _add_children uses it: the static string matcher"""
    @staticmethod
    def match_item_keys(name, keys, use_pattern_matching=False, match_item_parents=False):
        if not (isinstance(name, NameTok) and isinstance(keys, KeysTok)):
            raise OutOfSubset('match_item_keys(%r, %r)' % (name, keys))
        if keys.kind == 'block':
            return mk_bool(z3.IsMember(name.t, BL(keys.t)))
        return mk_bool(z3.IsMember(name.t, IGN(keys.t)))


class _Key:
    def __init__(self, has_lib):
        self.has_lib = has_lib


class _Entry:
    def __init__(self, key):
        self.key = key

    def __contains__(self, k):
        if k != 'lib':
            raise OutOfSubset('%r in config.routines[key]' % (k,))
        return self.key.has_lib


class _Routines:
    def __getitem__(self, key):
        return _Entry(key)


class ConfigTok:
    """the SchedulerConfig instance: match_item_keys(name, routines) yields 0..2 keys, each with or without a lib"""
    routines = _Routines()

    def match_item_keys(self, name, keys, **kw):
        c = ctx()
        out = []
        for k in range(2):
            if not c.branch(c.fresh(z3.BoolSort(), 'routine_key%d' % k), 'config-key-matches'):
                break
            out.append(_Key(bool(c.branch(c.fresh(z3.BoolSort(), 'has_lib%d' % k), 'key-has-lib'))))
        return tuple(out)

    def __vc_havoc__(self, name, assigned):
        return self


class _Opaque:
    def __init__(self, n):
        self.n = n

    def __vc_havoc__(self, name, assigned):
        return self

    def __repr__(self):
        return '<%s>' % self.n


class GraphM:
    """networkx.DiGraph as far as SGraph uses it here: a node set and an edge set (ASSUMED: add_nodes_from /
    add_edges_from add every element of the iterable, once; `x in g` is node membership)"""
    def __init__(self, nodes, edges):
        self.nodes, self.edges = nodes, edges

    def __contains__(self, x):
        return mk_bool(z3.IsMember(T.lift(x), self.nodes))

    def add_nodes_from(self, items):
        self.nodes = z3.SetUnion(self.nodes, set_of(T.lift_seq(items)))

    def add_edges_from(self, edges):
        self.edges = z3.SetUnion(self.edges, set_of(T.lift_seq(edges)))


def as_tuple(x, **kw):
    if x is None:
        return SSeq(T, VL.nil, 'tuple')
    if isinstance(x, SSeq):
        return SSeq(T, x.t, 'tuple')
    if isinstance(x, (tuple, list)):
        return SSeq(T, T.lift_seq(x), 'tuple')
    raise OutOfSubset('as_tuple(%r)' % (x,))


def image_lemma(tag, f, x, cond_t, elt_t, seq):
    """set_of([elt(x) for x in L if cond(x)]) == {elt(x) | x in set_of(L), cond(x)} - proved by list induction inside the
    comprehension hook (two obligations), then used for the actual sequence.  elt must be injective in x with a
    syntactic inverse (identity, or the second component of a pair)."""
    y = z3.Const('y!img', V)
    inv = None
    for cand in (y, snd(y), fst(y)):
        s = z3.Solver()
        s.set('rlimit', 2_000_000)
        s.add(cond_t, z3.substitute(cand, (y, elt_t)) != x)
        if s.check() == z3.unsat:
            inv = cand
            break
    if inv is None:
        raise OutOfSubset('comprehension element %s has no known inverse' % elt_t)
    body = z3.And(z3.substitute(cond_t, (x, inv)), y == z3.substitute(elt_t, (x, inv)))
    alg = None
    if inv is y:
        # a filter whose condition is a boolean combination of set memberships: plain set algebra (no lambda term)
        from pyvc.containers import _set_algebra
        alg = _set_algebra(z3.simplify(cond_t), x, V)

    def stmt(L):
        if alg is not None:
            return set_of(f(L)) == z3.SetIntersect(set_of(L), alg)
        return set_of(f(L)) == z3.Lambda([y], z3.And(z3.IsMember(inv, set_of(L)), body))
    c = ctx()
    h, r = c.fresh(V, 'ind_x'), c.fresh(VL, 'ind_r')
    c.check(stmt(VL.nil), 'comp/%s/base' % tag)
    c.check(z3.Implies(stmt(r), stmt(VL.cons(h, r))), 'comp/%s/step' % tag)
    c.assume(stmt(seq.t))


# ---- SGraph._add_children ------------------------------------------------------------------------------------------
def _load(qual, g):
    from pyvc.inline import inline
    return inline(F, qual, g)


class SelfTok:
    """the SGraph instance: _graph is the model graph, add_nodes / add_edges are the REAL methods"""
    def __init__(self, graph, extra=None):
        import types
        self._graph = graph
        for m in ('add_nodes', 'add_edges'):
            setattr(self, m, types.MethodType(_load('SGraph.' + m, {}), self))
        for k, v in (extra or {}).items():
            setattr(self, k, types.MethodType(v, self))

    def __vc_havoc__(self, name, assigned):
        c = ctx()
        self._graph.nodes, self._graph.edges = c.fresh(SetV, 'NODES'), c.fresh(SetV, 'EDGES')
        return self


def spec_add_children(with_initial):
    st = {}

    def setup(spec):
        c = ctx()
        item = T.fresh_obj('item', 'ItemM')
        N0, E0 = c.fresh(SetV, 'NODES0'), c.fresh(SetV, 'EDGES0')
        me = SelfTok(GraphM(N0, E0))
        c.assume(PD(item.t) == z3.SetDifference(set_of(DEPS(item.t)), BL(item.t)))      # definition of PD at item
        init = VL.nil
        kw = {}
        if with_initial:
            init = c.fresh(VL, 'initial_dependencies')
            c.assume(all_items(init))
            kw['dependencies'] = SSeq(T, init, 'tuple')
        env = {'item': item, 'N0': N0, 'E0': E0, 'self': me, 'init': init, 'y': c.fresh(V, 'probe_edge')}
        st['env'] = env
        return (me, item, _Opaque('item_factory'), ConfigTok()), kw, env

    def inv_deps(L):
        env = st['env']
        it = env['item'].t
        d = T.lift_seq(L['dependencies'])
        return {'kept-so-far': set_of(d) == un(set_of(env['init']),
                                               z3.SetDifference(set_of(L['__seen'].t), BL(it))),
                'kept-are-items': all_items(d),
                'rest-are-items': all_items(L['__rest'].t),
                'graph-untouched': z3.And(env['self']._graph.nodes == env['N0'], env['self']._graph.edges == env['E0'])}

    def inv_lib(L):
        return {'rest-are-items': all_items(L['__rest'].t)}

    def hook_new(vc, f, x, cond_t, elt_t, seq, res):
        image_lemma('new-items', f, x, cond_t, elt_t, seq)
        # a filter keeps "all elements are items" (list induction, then the instance for the actual sequence)
        c = ctx()
        h, r = c.fresh(V, 'ind_x2'), c.fresh(VL, 'ind_r2')
        keeps = lambda L: z3.Implies(all_items(L), all_items(f(L)))
        c.check(keeps(VL.nil), 'comp/new-items-are-items/base')
        c.check(z3.Implies(keeps(r), keeps(VL.cons(h, r))), 'comp/new-items-are-items/step')
        c.assume(keeps(seq.t))

    def hook_edges(vc, f, x, cond_t, elt_t, seq, res):
        image_lemma('edges', f, x, cond_t, elt_t, seq)

    def post(env, r):
        it, g, y = env['item'].t, env['self']._graph, env['y']
        K = un(set_of(env['init']), PD(it))
        return [('returns-exactly-the-pruned-dependencies-not-yet-in-the-graph',
                 set_of(T.lift_seq(r)) == z3.SetDifference(K, env['N0'])),
                ('returned-are-items', all_items(T.lift_seq(r))),
                ('nodes-added-are-exactly-the-pruned-dependencies', g.nodes == un(env['N0'], K)),
                ('edges-added-are-exactly-one-per-pruned-dependency',
                 z3.IsMember(y, g.edges) == z3.Or(z3.IsMember(y, env['E0']),
                                                  z3.And(y == pair(it, snd(y)), z3.IsMember(snd(y), K), snd(y) != it)))]

    G = {'as_tuple': as_tuple, 'SchedulerConfig': SchedulerConfigModel}
    return FunctionSpec(PROP, F, 'SGraph._add_children', G, setup, post, invariants={1: inv_deps, 2: inv_lib},
                        comp_hooks={1: hook_new, 3: hook_edges}, theory=T, lemmas=LEMMAS,
                        variant='dependencies given' if with_initial else 'no initial dependencies',
                        decode=lambda env, m, r: {'function': '_add_children'})


# ---- SGraph._populate -----------------------------------------------------------------------------------------------
class DequeM:
    """collections.deque as a FIFO list"""
    def __init__(self, t=None, st=None):
        self.t = VL.nil if t is None else t
        self.st = st

    def extend(self, items):
        self.t = z3.simplify(T.app(self.t, T.lift_seq(items)))

    def popleft(self):
        c = ctx()
        if not c.branch(VL.is_cons(self.t), 'queue-nonempty'):
            raise IndexError('pop from an empty deque')
        x = VL.hd(self.t)
        self.t = z3.simplify(VL.tl(self.t))
        return T.lower(x)

    def __bool__(self):
        return ctx().branch(VL.is_cons(self.t), 'queue-nonempty')

    def __contains__(self, x):
        return bool(ctx().branch(z3.IsMember(T.lift(x), set_of(self.t)), 'in-queue'))

    def append(self, x):
        self.t = z3.simplify(T.app(self.t, VL.cons(T.lift(x), VL.nil)))

    def __vc_havoc__(self, name, assigned):
        return DequeM(ctx().fresh(VL, 'queue'), self.st)


def spec_populate():
    st = {}

    def add_children_contract(self, item, item_factory, config, dependencies=None):
        """contract of _add_children (proved by spec_add_children) for dependencies=None"""
        c = ctx()
        if dependencies is not None:
            raise OutOfSubset('_populate passes initial dependencies')
        it = T.lift(item)
        c.check(is_item(it), 'call:_add_children/pre/item')
        g = self._graph
        K = PD(it)
        new = c.fresh(VL, 'children')
        c.assume(set_of(new) == z3.SetDifference(K, g.nodes))
        c.assume(all_items(new))
        g.edges = z3.SetUnion(g.edges, edges_from(it, K))
        g.nodes = un(g.nodes, K)
        # ground instance (at the item being expanded) of the hypothesis "C is closed under pruned dependencies"
        C = st['env']['C']
        c.assume(z3.Implies(z3.And(z3.IsMember(it, C), EXPAND(it)), sub(K, C)))
        return SSeq(T, new, 'tuple')

    def get_seed_name(self, name, item_factory):
        return name                     # the resolved cache key: SI is indexed by the given name

    def create_item(self, name, item_factory, config):
        c = ctx()
        t = T.lift(name)
        return SSeq(T, SI(t), 'tuple')

    def setup(spec):
        c = ctx()
        me = SelfTok(GraphM(EMPTY, EMPTY), {'_add_children': add_children_contract, '_get_seed_name': get_seed_name,
                                            '_create_item': create_item})
        seeds = c.fresh(VL, 'seed_names')
        c.assume(seeds_ok(seeds))
        C = c.fresh(SetV, 'ANY_CLOSED_SET')
        c.assume(sub(seedset(seeds), C))            # C contains the seed items; its closedness is instantiated at use
        env = {'self': me, 'seeds': seeds, 'C': C, 'p': c.fresh(V, 'probe_node'), 'y': c.fresh(V, 'probe_edge')}
        st['env'] = env
        return (me, SSeq(T, seeds, 'tuple'), _Opaque('item_factory'), ConfigTok()), {}, env

    def inv_seed(L):
        env = st['env']
        g = env['self']._graph
        q = L['queue'].t
        return {'nodes-are-the-seed-items-so-far': g.nodes == seedset(L['__seen'].t),
                'queue-holds-them': set_of(q) == g.nodes,
                'queue-items': all_items(q),
                'no-edges-yet': g.edges == EMPTY,
                'rest-ok': seeds_ok(L['__rest'].t)}

    def clauses(env, N, E, Q):
        p, y, C = env['p'], env['y'], env['C']
        done = z3.SetDifference(N, Q)
        return {
            'seed-items-are-nodes': sub(seedset(env['seeds']), N),
            'processed-nodes-are-closed': z3.Implies(z3.And(z3.IsMember(p, done), EXPAND(p)), sub(PD(p), N)),
            'nodes-in-every-closed-set': sub(N, C),
            'edges-only-for-dependencies': z3.Implies(z3.IsMember(y, E), z3.And(
                y == pair(fst(y), snd(y)), z3.IsMember(fst(y), N), EXPAND(fst(y)), z3.IsMember(snd(y), PD(fst(y))),
                snd(y) != fst(y))),
            'every-dependency-of-a-processed-node-has-its-edge': z3.Implies(z3.And(
                y == pair(fst(y), snd(y)), z3.IsMember(fst(y), done), EXPAND(fst(y)), z3.IsMember(snd(y), PD(fst(y))),
                snd(y) != fst(y)), z3.IsMember(y, E)),
        }

    def inv_work(L):
        env = st['env']
        g = env['self']._graph
        q = L['queue'].t
        out = clauses(env, g.nodes, g.edges, set_of(q))
        out['queue-in-nodes'] = sub(set_of(q), g.nodes)
        out['queue-items'] = all_items(q)
        return out

    def post(env, r):
        g = env['self']._graph
        return [(k, v) for k, v in clauses(env, g.nodes, g.edges, EMPTY).items()]

    G = {'as_tuple': as_tuple, 'deque': lambda: DequeM(st=st), 'debug': lambda *a, **k: None}
    return FunctionSpec(PROP, F, 'SGraph._populate', G, setup, post, invariants={1: inv_seed, 2: inv_work}, theory=T,
                        lemmas=LEMMAS, decode=lambda env, m, r: {'function': '_populate'})


def specs(tier='quick'):
    return [spec_add_children(False), spec_add_children(True), spec_populate()]


def lemma_proofs():
    b = z3.Const('ind!b', VL)
    x, r, z = z3.Const('ind!x', V), z3.Const('ind!r', VL), z3.Const('ind!z', V)
    ap = T.app
    stmts = {
        'set_of(app(a,b)) == set_of(a) | set_of(b)': lambda a: set_of(ap(a, b)) == un(set_of(a), set_of(b)),
        'all_items(app(a,b))': lambda a: all_items(ap(a, b)) == z3.And(all_items(a), all_items(b)),
        'seed_items(app(a,b))': lambda a: seedset(ap(a, b)) == un(seedset(a), seedset(b)),
        'seed_items_are_items(app(a,b))': lambda a: seeds_ok(ap(a, b)) == z3.And(seeds_ok(a), seeds_ok(b)),
        'mem(z,a) == (z in set_of(a))': lambda a: T.mem(z, a) == z3.IsMember(z, set_of(a)),
    }
    out = []
    for name, stmt in stmts.items():
        def thunk(stmt=stmt):
            res = []
            for tag, hyps, goal in (('base', [], stmt(VL.nil)), ('step', [stmt(r)], stmt(VL.cons(x, r)))):
                res.append((tag, str(check_retry(list(hyps) + [z3.Not(goal)], P_BIG))))
            return res
        out.append(('list lemma: ' + name, thunk))
    return T.base_lemma_proofs() + out


META = {
    'category': 'other',
    'technique': 'contract-based deductive verification (pyvc): worklist closure with loop invariants over z3 sets, callee '
                 'used through its proved contract, universally quantified clauses proved at arbitrary probe constants; '
                 'native enumeration of small dependency graphs as bounded stand-in and replay',
    'level_text': 'SGraph._add_children (real source, both loops cut at invariants, both comprehensions summarised as set '
                  'images by a lemma proved by list induction inside the run) returns exactly the pruned dependencies of '
                  'the item that are not yet in the graph, adds exactly those nodes and exactly one edge per pruned '
                  'dependency other than the item itself. SGraph._populate (real source, seed loop and worklist loop cut '
                  'at invariants, _add_children used through that contract) ends with a node set that contains the items '
                  'of the seeds, is closed under the pruned dependencies of its expanded nodes, is contained in every '
                  'closed set containing the seed items (hence is exactly the reachable set), and with an edge set that '
                  'holds exactly one edge per pruned dependency of every expanded node. For all dependency relations, '
                  'block sets, expand flags and seed lists.',
    'level_note': 'ASSUMED (named, not verified): Item.create_dependency_items is a deterministic function of the item '
                  '(it is where calls, imports, type uses and the disable list are read); SchedulerConfig.match_item_keys '
                  'is a function of (name, keys) (its case rule is decided under C23); _create_item / _get_seed_name map a '
                  'seed name to a tuple of items; networkx add_nodes_from / add_edges_from / membership. Outside: '
                  'definition discovery in the search path (file items, frontends), _break_cycles, is_ignored / lib '
                  'propagation, as_filegraph. Bounded, never counted as proved: the real SGraph.from_seed on every '
                  'dependency relation over 3 items x expand flags x one block entry, against a reference closure. Level '
                  'other: the assumed functions carry part of the property.',
    'trusted_base': ['pyvc engine', 'networkx.DiGraph add_nodes_from / add_edges_from / __contains__ (external)',
                     'collections.deque as a FIFO list', 'contract of Item.create_dependency_items (deterministic)',
                     'SchedulerConfig.match_item_keys as a function of its arguments'],
    'assumptions': ['items are identified by their (case-folded) name, as Item.__eq__ has it (C23)',
                    'termination not proved'],
}


def bounded_checks(tier, seed):
    """native harness (replay/C21.py): the real SGraph.from_seed on stub items, every dependency relation over three
    items x expand flags x block entries x seed lists against a reference closure; bounded, never counted as proved"""
    import json
    import os
    import subprocess
    root = os.path.dirname(os.path.dirname(os.path.abspath(__file__)))
    repo = os.environ.get('LOKI_REPO', '/repo')
    args = ['--corpus'] + (['--full'] if tier == 'thorough' else [])
    p = subprocess.run([os.environ.get('LOKI_PYTHON', '/venv/bin/python'), os.path.join(root, 'replay', 'C21.py')] + args,
                       capture_output=True, text=True, timeout=3000, env=dict(os.environ, PYTHONPATH=repo), cwd=repo)
    line = next((l for l in reversed(p.stdout.splitlines()) if l.startswith('{')), None)
    rule = ('3 items; every dependency list per item (subsets%s, self-dependencies included) x expand flags x 3 block '
            'settings (one matched case-insensitively by local name) x 4 seed lists (one with a repeated seed): nodes and '
            'edges of SGraph.from_seed equal the reference closure' % (' in every order' if tier == 'thorough' else ''))
    if line is None:
        return [{'name': 'native/SGraph.from_seed', 'cases': 0, 'violation': False, 'error': p.stderr[-600:], 'rule': rule}]
    r = json.loads(line)
    return [{'name': 'native/SGraph.from_seed', 'cases': r['cases'], 'distinct': r['cases'], 'rule': rule,
             'bound': '3 items', 'violation': bool(r.get('reproduced')), 'cex': r.get('failures', [])[:1]}]
