"""C22 - scheduler processing visits each selected item once, in dependency order (DESIGN section 4 C22, A.6).

Under contract: SFilter.__iter__ (the cursor ranges over a topological order or its reverse) and
SFilter.__next__ (returns the first element at or after the cursor that satisfies the selection predicate
`sel`, leaves the cursor just after it, raises StopIteration iff there is none).  Hence the yielded sequence is
filter(sel, order): each selected item once, no other, order preserved."""
import z3
from pyvc.runner import FunctionSpec
from pyvc.values import ClassModel, Theory, SV, SSeq, SBool, SStr, mk_bool, mk_str, truth
from pyvc.core import ctx, OutOfSubset, define_rec
from pyvc import vcrt

PROP = 'C22'
F = 'loki/batch/sfilter.py'

T = Theory('sched', [
    ClassModel('ItemM', [], [('uid', 'Int'), ('kind', 'Int'), ('external', 'Bool'), ('origin', 'Int'),
                             ('ignored', 'Bool'), ('mode', 'V'), ('tdi', 'Bool')]),
])
V, VL = T.V, T.VL
A = T.acc
ITEM = T.classes['ItemM']
ITEM.props['is_ignored'] = lambda self: mk_bool(A['ItemM__ignored'](self.t))
ITEM.props['origin_cls'] = lambda self: KindToken(A['ItemM__origin'](self.t))

ksub = z3.Function('issubclass_of_filter', z3.IntSort(), z3.IntSort(), z3.BoolSort())


class KindToken:
    """a class object (type(node) / node.origin_cls) of symbolic identity"""

    def __init__(self, t):
        self.t = t


T.type_of = lambda sv: KindToken(A['ItemM__kind'](sv.t))


def m_type(x, *a):
    if isinstance(x, SV) and not a:
        return KindToken(A['ItemM__kind'](x.t))
    return vcrt.m_type(x, *a)


class FilterToken:
    def __init__(self, t):
        self.t = t


def m_issubclass(cls, flt):
    if isinstance(cls, KindToken) and isinstance(flt, FilterToken):
        return mk_bool(ksub(cls.t, flt.t))
    raise OutOfSubset('issubclass(%r, %r)' % (cls, flt))


def _mk_class_token(name, pred):
    cm = ClassModel(name)
    cm.instancecheck = lambda x: mk_bool(pred(x.t)) if isinstance(x, SV) else False
    return cm


ExternalItem = _mk_class_token('ExternalItem', lambda t: A['ItemM__external'](t))
# TypeDefItem / InterfaceItem: instances are never ExternalItem instances (disjoint classes)
TDI = _mk_class_token('TypeDefOrInterfaceItem', lambda t: z3.And(A['ItemM__tdi'](t), z3.Not(A['ItemM__external'](t))))


def sel_term(x, flt):
    """A.6 selection predicate.  flt = dict(filter, exclude_ignored, include_external, mode)"""
    ext = A['ItemM__external'](x)
    kind = z3.If(ext, A['ItemM__origin'](x), A['ItemM__kind'](x))
    mode_ok = z3.Or(flt['mode'] == V.VNone, ext, z3.And(A['ItemM__tdi'](x), z3.Not(ext)), A['ItemM__mode'](x) == flt['mode'])
    return z3.And(z3.Implies(ext, flt['include_external']), ksub(kind, flt['filter']),
                  z3.Not(z3.And(flt['exclude_ignored'], A['ItemM__ignored'](x))), mode_ok)


class IterModel:
    """model of a python iterator over a sequence: ghost `consumed` + remaining `rest` (consumed ++ rest == seq)"""

    def __init__(self, seq_term):
        self.seq = seq_term
        self.consumed = VL.nil
        self.before_last = VL.nil
        self.rest = seq_term

    def __next__(self):
        if not ctx().branch(VL.is_cons(self.rest), 'iter-has-next'):
            raise StopIteration()
        x = VL.hd(self.rest)
        self.before_last = self.consumed
        self.consumed = z3.simplify(T.app(self.consumed, VL.cons(x, VL.nil)))
        self.rest = z3.simplify(VL.tl(self.rest))
        return T.lower(x)

    def __iter__(self):
        return self


class SFilterModel:
    def __init__(self, flt, it=None):
        self._flt = flt
        self.item_filter = FilterToken(flt['filter'])
        self.exclude_ignored = mk_bool(flt['exclude_ignored'])
        self.include_external = mk_bool(flt['include_external'])
        self.mode = T.lower(flt['mode'])
        self.reverse = None
        self._iter = it
        self.sgraph = None

    def __vc_havoc__(self, name, assigned):
        it = self._iter
        c = ctx()
        it.consumed = c.fresh(VL, 'consumed')
        it.before_last = c.fresh(VL, 'before_last')
        it.rest = c.fresh(VL, 'rest')
        c.assume(it.seq == T.app(it.consumed, it.rest))
        return self


_allunsel_cache = {}


def allunsel(flt):
    """RecFunction: no element of the list satisfies sel (for the given filter parameters)"""
    key = id(flt)
    if key in _allunsel_cache:
        return _allunsel_cache[key][1]
    f = z3.RecFunction('allunsel!%d' % len(_allunsel_cache), VL, z3.BoolSort())
    s = z3.Const('s!aus', VL)
    define_rec(f, [s], z3.If(VL.is_nil(s), True, z3.And(z3.Not(sel_term(VL.hd(s), flt)), f(VL.tl(s)))))
    _allunsel_cache[key] = (flt, f)
    return f


def wf_items(f=None):
    """every element of an item list is an item (type invariant of the graph's node list)"""
    w = getattr(T, '_wf_items', None)
    if w is None:
        w = z3.RecFunction('all_items', VL, z3.BoolSort())
        s = z3.Const('s!wfi', VL)
        define_rec(w, [s], z3.If(VL.is_nil(s), True, z3.And(T.recog['is_C_ItemM'](VL.hd(s)), w(VL.tl(s)))))
        T._wf_items = w
    return w


_FLT = {'filter': z3.Int('item_filter'), 'exclude_ignored': z3.Bool('exclude_ignored'),
        'include_external': z3.Bool('include_external'), 'mode': z3.Const('mode', V)}


def fresh_filter():
    """the (arbitrary, fixed) filter parameters: plain constants, so that allunsel can be defined once"""
    ctx().assume(z3.Or(_FLT['mode'] == V.VNone, V.is_VStr(_FLT['mode'])))
    return _FLT


def app_lemma(f):
    a, b = z3.Consts('a!aus b!aus', VL)
    return z3.ForAll([a, b], f(T.app(a, b)) == z3.And(f(a), f(b)), patterns=[f(T.app(a, b))])


def spec_next():
    G = {'ExternalItem': ExternalItem, 'TypeDefItem': TDI, 'InterfaceItem': TDI, 'issubclass': m_issubclass,
         'type': m_type, 'next': lambda it: it.__next__()}
    state = {}

    def setup(spec):
        c = ctx()
        flt = fresh_filter()
        seq = c.fresh(VL, 'remaining')
        c.assume(wf_items()(seq))
        it = IterModel(seq)
        sf = SFilterModel(flt, it)
        au = allunsel(flt)
        state['au'] = au
        return (sf,), {}, {'sf': sf, 'it': it, 'flt': flt, 'au': au, 'seq': seq}

    def inv(L):
        sf = L['self']
        it = sf._iter
        au = state['au']
        return {'skipped-unselected': au(it.consumed), 'cursor': it.seq == T.app(it.consumed, it.rest),
                'items': wf_items()(it.rest)}

    def post(env, r):
        it, flt, au = env['it'], env['flt'], env['au']
        rt = T.lift(r)
        return [('selected', sel_term(rt, flt)),
                ('first-selected', au(it.before_last)),
                ('is-next', it.consumed == T.app(it.before_last, VL.cons(rt, VL.nil))),
                ('cursor-after', env['seq'] == T.app(it.consumed, it.rest))]

    def raises(env, exc):
        if isinstance(exc, StopIteration):
            it, au = env['it'], env['au']
            return [('none-left', z3.And(au(it.consumed), VL.is_nil(it.rest), it.consumed == env['seq']))]
        return None

    sp = FunctionSpec(PROP, F, 'SFilter.__next__', G, setup, post, raises=raises, invariants={1: inv}, theory=T,
                      lemmas=list(T.base_lemmas) + [app_lemma(allunsel(_FLT)), app_lemma(wf_items())])
    return sp


def spec_iter(reverse):
    topo = z3.Function('topological_order', z3.IntSort(), VL)     # nx.topological_sort(graph): ASSUMED contract

    class NX:
        @staticmethod
        def topological_sort(g):
            return SSeq(T, topo(g.t), 'list')

    class GraphTok:
        def __init__(self, t):
            self.t = t

    class SG:
        def __init__(self, t):
            self._graph = GraphTok(t)

    G = {'nx': NX, 'iter': lambda s: IterModel(T.lift_seq(s)), 'reversed': vcrt.m_reversed, 'list': vcrt.m_list}

    def setup(spec):
        c = ctx()
        g = c.fresh(z3.IntSort(), 'graph')
        sf = SFilterModel(fresh_filter())
        sf.reverse = reverse
        sf.sgraph = SG(g)
        return (sf,), {}, {'sf': sf, 'g': g}

    def post(env, r):
        sf = env['sf']
        order = topo(env['g'])
        want = T.rev(order) if reverse else order
        ok = isinstance(sf._iter, IterModel)
        if not ok:
            return [('iterator', z3.BoolVal(False))]
        return [('returns-self', z3.BoolVal(r is sf)), ('order', sf._iter.seq == want),
                ('cursor-at-start', z3.And(sf._iter.rest == want, sf._iter.consumed == VL.nil))]
    return FunctionSpec(PROP, F, 'SFilter.__iter__', G, setup, post, theory=T, lemmas=list(T.base_lemmas),
                        variant='reverse' if reverse else 'forward')


def specs(tier='quick'):
    # Transformation.apply_file (plan mode mirrors transform mode; every procedure item of a file is handed its own
    # role and targets): the relational contract lives in contracts/C24.py and is an obligation of both properties
    from contracts import C24
    return [spec_next(), spec_iter(False), spec_iter(True)] + C24.apply_file_specs(PROP)


def lemma_proofs():
    """allunsel / all_items distribute over append (structural induction on the first list)"""
    from pyvc.core import check_retry, P_BIG

    def prove(fname):
        f = allunsel(_FLT) if fname == 'allunsel' else wf_items()
        b = z3.Const('ind!b', VL)
        x, r = z3.Const('ind!x', V), z3.Const('ind!r', VL)
        stmt = lambda a: f(T.app(a, b)) == z3.And(f(a), f(b))
        out = []
        for tag, hyps, goal in (('base', [], stmt(VL.nil)), ('step', [stmt(r)], stmt(VL.cons(x, r)))):
            out.append((tag, str(check_retry(list(hyps) + [z3.Not(goal)], P_BIG))))
        return out
    return T.base_lemma_proofs() + [('allunsel(app(a,b)) == allunsel(a) and allunsel(b)  (for arbitrary filter parameters)', lambda: prove('allunsel')),
            ('all_items(app(a,b)) == all_items(a) and all_items(b)', lambda: prove('items'))]


META = {
    'category': 'proof',
    'technique': 'contract-based deductive verification (pyvc): iterator with ghost cursor, loop invariant over the '
                 'consumed prefix',
    'level_text': 'SFilter.__next__ (real source, walrus loop cut at the invariant "everything consumed so far is '
                  'unselected") is proved for all graphs, orders and filter settings to return the first selected element '
                  'at or after the cursor and to raise StopIteration iff none is left; SFilter.__iter__ positions the cursor '
                  'at the start of the topological order or of its reverse. Hence the yielded sequence is filter(sel, order).',
    'level_note': 'Trusted: pyvc engine; nx.topological_sort yields every node once, sources of edges first (ASSUMED, external); '
                  'items are truthy objects; issubclass(type(node), item_filter) an arbitrary relation. Unverified and named: '
                  'Scheduler.process_transformation dispatch loop, Item.targets, SGraph.as_filegraph, Transformation.apply*.',
    'trusted_base': ['pyvc engine', 'networkx.topological_sort (external)', 'python iterator protocol model (IterModel)'],
    'assumptions': ['items are truthy (the walrus loop `while node := next(...)` relies on it)', 'termination not proved'],
}
