"""C22 - scheduler processing visits each selected item once, in dependency order (DESIGN section 4 C22, A.6).

Under contract: SFilter.__iter__ (the cursor ranges over a topological order or its reverse) and
SFilter.__next__ (returns the first element at or after the cursor that satisfies the selection predicate
`sel`, leaves the cursor just after it, raises StopIteration iff there is none).  Hence the yielded sequence is
filter(sel, order): each selected item once, no other, order preserved."""
import z3
from pyvc.runner import FunctionSpec
from pyvc.values import ClassModel, Theory, SV, SSeq, SBool, SStr, mk_bool, mk_str, truth
from pyvc.core import ctx, OutOfSubset, define_rec
from pyvc import vcrt

PROP = 'C22'
F = 'loki/batch/sfilter.py'

T = Theory('sched', [
    ClassModel('ItemM', [], [('uid', 'Int'), ('kind', 'Int'), ('external', 'Bool'), ('origin', 'Int'),
                             ('ignored', 'Bool'), ('mode', 'V'), ('tdi', 'Bool')]),
])
V, VL = T.V, T.VL
A = T.acc
ITEM = T.classes['ItemM']
ITEM.props['is_ignored'] = lambda self: mk_bool(A['ItemM__ignored'](self.t))
ITEM.props['origin_cls'] = lambda self: KindToken(A['ItemM__origin'](self.t))

ksub = z3.Function('issubclass_of_filter', z3.IntSort(), z3.IntSort(), z3.BoolSort())


class KindToken:
    """a class object (type(node) / node.origin_cls) of symbolic identity"""

    def __init__(self, t):
        self.t = t


T.type_of = lambda sv: KindToken(A['ItemM__kind'](sv.t))


def m_type(x, *a):
    if isinstance(x, SV) and not a:
        return KindToken(A['ItemM__kind'](x.t))
    return vcrt.m_type(x, *a)


class FilterToken:
    def __init__(self, t):
        self.t = t


def m_issubclass(cls, flt):
    if isinstance(cls, KindToken) and isinstance(flt, FilterToken):
        return mk_bool(ksub(cls.t, flt.t))
    raise OutOfSubset('issubclass(%r, %r)' % (cls, flt))


def _mk_class_token(name, pred):
    cm = ClassModel(name)
    cm.instancecheck = lambda x: mk_bool(pred(x.t)) if isinstance(x, SV) else False
    return cm


ExternalItem = _mk_class_token('ExternalItem', lambda t: A['ItemM__external'](t))
# TypeDefItem / InterfaceItem: instances are never ExternalItem instances (disjoint classes)
TDI = _mk_class_token('TypeDefOrInterfaceItem', lambda t: z3.And(A['ItemM__tdi'](t), z3.Not(A['ItemM__external'](t))))


def sel_term(x, flt):
    """A.6 selection predicate.  flt = dict(filter, exclude_ignored, include_external, mode)"""
    ext = A['ItemM__external'](x)
    kind = z3.If(ext, A['ItemM__origin'](x), A['ItemM__kind'](x))
    mode_ok = z3.Or(flt['mode'] == V.VNone, ext, z3.And(A['ItemM__tdi'](x), z3.Not(ext)), A['ItemM__mode'](x) == flt['mode'])
    return z3.And(z3.Implies(ext, flt['include_external']), ksub(kind, flt['filter']),
                  z3.Not(z3.And(flt['exclude_ignored'], A['ItemM__ignored'](x))), mode_ok)


class IterModel:
    """model of a python iterator over a sequence: ghost `consumed` + remaining `rest` (consumed ++ rest == seq)"""

    def __init__(self, seq_term):
        self.seq = seq_term
        self.consumed = VL.nil
        self.before_last = VL.nil
        self.rest = seq_term

    def __next__(self):
        if not ctx().branch(VL.is_cons(self.rest), 'iter-has-next'):
            raise StopIteration()
        x = VL.hd(self.rest)
        self.before_last = self.consumed
        self.consumed = z3.simplify(T.app(self.consumed, VL.cons(x, VL.nil)))
        self.rest = z3.simplify(VL.tl(self.rest))
        return T.lower(x)

    def __iter__(self):
        return self


class SFilterModel:
    def __init__(self, flt, it=None):
        self._flt = flt
        self.item_filter = FilterToken(flt['filter'])
        self.exclude_ignored = mk_bool(flt['exclude_ignored'])
        self.include_external = mk_bool(flt['include_external'])
        self.mode = T.lower(flt['mode'])
        self.reverse = None
        self._iter = it
        self.sgraph = None

    def __vc_havoc__(self, name, assigned):
        it = self._iter
        c = ctx()
        it.consumed = c.fresh(VL, 'consumed')
        it.before_last = c.fresh(VL, 'before_last')
        it.rest = c.fresh(VL, 'rest')
        c.assume(it.seq == T.app(it.consumed, it.rest))
        return self


_allunsel_cache = {}


def allunsel(flt):
    """RecFunction: no element of the list satisfies sel (for the given filter parameters)"""
    key = id(flt)
    if key in _allunsel_cache:
        return _allunsel_cache[key][1]
    f = z3.RecFunction('allunsel!%d' % len(_allunsel_cache), VL, z3.BoolSort())
    s = z3.Const('s!aus', VL)
    define_rec(f, [s], z3.If(VL.is_nil(s), True, z3.And(z3.Not(sel_term(VL.hd(s), flt)), f(VL.tl(s)))))
    _allunsel_cache[key] = (flt, f)
    return f


def wf_items(f=None):
    """every element of an item list is an item (type invariant of the graph's node list)"""
    w = getattr(T, '_wf_items', None)
    if w is None:
        w = z3.RecFunction('all_items', VL, z3.BoolSort())
        s = z3.Const('s!wfi', VL)
        define_rec(w, [s], z3.If(VL.is_nil(s), True, z3.And(T.recog['is_C_ItemM'](VL.hd(s)), w(VL.tl(s)))))
        T._wf_items = w
    return w


_FLT = {'filter': z3.Int('item_filter'), 'exclude_ignored': z3.Bool('exclude_ignored'),
        'include_external': z3.Bool('include_external'), 'mode': z3.Const('mode', V)}


def fresh_filter():
    """the (arbitrary, fixed) filter parameters: plain constants, so that allunsel can be defined once"""
    ctx().assume(z3.Or(_FLT['mode'] == V.VNone, V.is_VStr(_FLT['mode'])))
    return _FLT


def app_lemma(f):
    a, b = z3.Consts('a!aus b!aus', VL)
    return z3.ForAll([a, b], f(T.app(a, b)) == z3.And(f(a), f(b)), patterns=[f(T.app(a, b))])


def spec_next():
    G = {'ExternalItem': ExternalItem, 'TypeDefItem': TDI, 'InterfaceItem': TDI, 'issubclass': m_issubclass,
         'type': m_type, 'next': lambda it: it.__next__()}
    state = {}

    def setup(spec):
        c = ctx()
        flt = fresh_filter()
        seq = c.fresh(VL, 'remaining')
        c.assume(wf_items()(seq))
        it = IterModel(seq)
        sf = SFilterModel(flt, it)
        au = allunsel(flt)
        state['au'] = au
        return (sf,), {}, {'sf': sf, 'it': it, 'flt': flt, 'au': au, 'seq': seq}

    def inv(L):
        sf = L['self']
        it = sf._iter
        au = state['au']
        return {'skipped-unselected': au(it.consumed), 'cursor': it.seq == T.app(it.consumed, it.rest),
                'items': wf_items()(it.rest)}

    def post(env, r):
        it, flt, au = env['it'], env['flt'], env['au']
        rt = T.lift(r)
        return [('selected', sel_term(rt, flt)),
                ('first-selected', au(it.before_last)),
                ('is-next', it.consumed == T.app(it.before_last, VL.cons(rt, VL.nil))),
                ('cursor-after', env['seq'] == T.app(it.consumed, it.rest))]

    def raises(env, exc):
        if isinstance(exc, StopIteration):
            it, au = env['it'], env['au']
            return [('none-left', z3.And(au(it.consumed), VL.is_nil(it.rest), it.consumed == env['seq']))]
        return None

    sp = FunctionSpec(PROP, F, 'SFilter.__next__', G, setup, post, raises=raises, invariants={1: inv}, theory=T,
                      decode=lambda env, m, r: {'function': 'SFilter'},
                      lemmas=list(T.base_lemmas) + [app_lemma(allunsel(_FLT)), app_lemma(wf_items())])
    return sp


def spec_iter(reverse):
    topo = z3.Function('topological_order', z3.IntSort(), VL)     # nx.topological_sort(graph): ASSUMED contract

    class NX:
        @staticmethod
        def topological_sort(g):
            return SSeq(T, topo(g.t), 'list')

    class GraphTok:
        def __init__(self, t):
            self.t = t

    class SG:
        def __init__(self, t):
            self._graph = GraphTok(t)

    G = {'nx': NX, 'iter': lambda s: IterModel(T.lift_seq(s)), 'reversed': vcrt.m_reversed, 'list': vcrt.m_list}

    def setup(spec):
        c = ctx()
        g = c.fresh(z3.IntSort(), 'graph')
        sf = SFilterModel(fresh_filter())
        sf.reverse = reverse
        sf.sgraph = SG(g)
        return (sf,), {}, {'sf': sf, 'g': g}

    def post(env, r):
        sf = env['sf']
        order = topo(env['g'])
        want = T.rev(order) if reverse else order
        ok = isinstance(sf._iter, IterModel)
        if not ok:
            return [('iterator', z3.BoolVal(False))]
        return [('returns-self', z3.BoolVal(r is sf)), ('order', sf._iter.seq == want),
                ('cursor-at-start', z3.And(sf._iter.rest == want, sf._iter.consumed == VL.nil))]
    return FunctionSpec(PROP, F, 'SFilter.__iter__', G, setup, post, theory=T, lemmas=list(T.base_lemmas),
                        variant='reverse' if reverse else 'forward')


# ---- Scheduler.process_transformation._get_definition_items -------------------------------------------------------
SCHED = 'loki/batch/scheduler.py'
DEFS = z3.Function('create_definition_items', V, VL)        # item.create_definition_items(...): ASSUMED a list of items
_PI = z3.Bool('process_ignored_items')
all_allowed = z3.RecFunction('all_allowed', VL, z3.BoolSort())    # no ignored item unless the manifest asks for them
_sa = z3.Const('s!allowed', VL)
define_rec(all_allowed, [_sa], z3.If(VL.is_nil(_sa), True,
                                     z3.And(T.recog['is_C_ItemM'](VL.hd(_sa)),
                                            z3.Or(_PI, z3.Not(A['ItemM__ignored'](VL.hd(_sa)))),
                                            all_allowed(VL.tl(_sa)))))
ITEM.methods['create_definition_items'] = lambda self, **kw: SSeq(T, DEFS(self.t), 'tuple')


def spec_definition_items(file_graph):
    from pyvc.containers import SSet
    state = {}

    class TrafoTok:
        traverse_file_graph = file_graph
        process_ignored_items = mk_bool(_PI)

    class SelfTok:
        item_factory = None
        config = None

    def rec_stub(item, sgraph_items):
        """induction hypothesis for the recursive call: the definition items below `item`, all allowed"""
        c = ctx()
        if not file_graph:
            return None
        r = c.fresh(VL, 'child_items')
        c.assume(all_allowed(r))
        return SSeq(T, r, 'tuple')

    def setup(spec):
        c = ctx()
        it = T.fresh_obj('item', 'ItemM')
        c.assume(wf_items()(DEFS(it.t)))
        sg = SSet.fresh('sgraph_items', T)
        state['glob'].update({'transformation': TrafoTok, 'self': SelfTok, '_get_definition_items': rec_stub})
        return (it, sg), {}, {'item': it}

    def inv(L):
        return {'only-allowed-items': all_allowed(T.lift_seq(L['items'])), 'rest-are-items': wf_items()(L['__rest'].t)}

    def post(env, r):
        if not file_graph:
            return [('none-without-file-graph', z3.BoolVal(r is None))]
        return [('only-allowed-items', all_allowed(T.lift_seq(r)))]

    def app_l(f):
        a, b = z3.Consts('a!al b!al', VL)
        return z3.ForAll([a, b], f(T.app(a, b)) == z3.And(f(a), f(b)), patterns=[f(T.app(a, b))])
    sp = FunctionSpec(PROP, SCHED, 'Scheduler.process_transformation._get_definition_items', {}, setup, post,
                      invariants={1: inv} if file_graph else {}, theory=T,
                      lemmas=list(T.base_lemmas) + [app_l(all_allowed), app_lemma(wf_items())],
                      variant='file graph' if file_graph else 'item graph',
                      decode=lambda env, m, r: {'function': '_get_definition_items'})

    def fn_hook(fn, glob):
        state['glob'] = fn.__globals__
        return fn
    sp.fn_hook = fn_hook
    return sp


def specs(tier='quick'):
    # Transformation.apply_file (plan mode mirrors transform mode; every procedure item of a file is handed its own
    # role and targets): the relational contract lives in contracts/C24.py and is an obligation of both properties
    from contracts import C24
    return [spec_next(), spec_iter(False), spec_iter(True), spec_definition_items(True)] + C24.apply_file_specs(PROP)


def bounded_checks(tier, seed):
    """native scheduler harness (replay/C24.py replay_scheduler): a small project processed by probe transformations
    for all 16 manifest/strategy combinations, checked against the graph's own item flags and edges; bounded"""
    import json
    import os
    import subprocess
    root = os.path.dirname(os.path.dirname(os.path.abspath(__file__)))
    repo = os.environ.get('LOKI_REPO', '/repo')
    p = subprocess.run([os.environ.get('LOKI_PYTHON', '/venv/bin/python'), os.path.join(root, 'replay', 'C24.py'),
                        '--scheduler'], capture_output=True, text=True, timeout=1800,
                       env=dict(os.environ, PYTHONPATH=repo), cwd=repo)
    line = next((l for l in reversed(p.stdout.splitlines()) if l.startswith('{')), None)
    rule = ('two projects (4 files: an ignored routine sharing a file with an active one, a diamond of callers; 3 files: '
            'one file holding only a type definition and a binding chain, no procedure) x {item graph, file graph} x '
            '{process_ignored_items} x {reverse} x {plan, default}: each selected item exactly once, no other, role/targets '
            'of the item, callers before callees (reversed if asked), file-graph processing visits exactly the files '
            'containing a selected item, once')
    if line is None:
        return [{'name': 'native/scheduler', 'cases': 0, 'violation': False, 'error': p.stderr[-600:], 'rule': rule}]
    r = json.loads(line)
    return [{'name': 'native/scheduler', 'cases': 32, 'distinct': 32, 'rule': rule, 'bound': 'two fixed projects',
             'violation': bool(r.get('reproduced')), 'cex': r}]


def lemma_proofs():
    """allunsel / all_items distribute over append (structural induction on the first list)"""
    from pyvc.core import check_retry, P_BIG

    def prove(fname):
        f = allunsel(_FLT) if fname == 'allunsel' else wf_items()
        b = z3.Const('ind!b', VL)
        x, r = z3.Const('ind!x', V), z3.Const('ind!r', VL)
        stmt = lambda a: f(T.app(a, b)) == z3.And(f(a), f(b))
        out = []
        for tag, hyps, goal in (('base', [], stmt(VL.nil)), ('step', [stmt(r)], stmt(VL.cons(x, r)))):
            out.append((tag, str(check_retry(list(hyps) + [z3.Not(goal)], P_BIG))))
        return out
    def prove_allowed():
        b = z3.Const('ind!b2', VL)
        x, r = z3.Const('ind!x2', V), z3.Const('ind!r2', VL)
        stmt = lambda a: all_allowed(T.app(a, b)) == z3.And(all_allowed(a), all_allowed(b))
        return [(tag, str(check_retry(list(h) + [z3.Not(g)], P_BIG)))
                for tag, h, g in (('base', [], stmt(VL.nil)), ('step', [stmt(r)], stmt(VL.cons(x, r))))]
    return T.base_lemma_proofs() + [('all_allowed(app(a,b)) == all_allowed(a) and all_allowed(b)', prove_allowed),
                                    ('allunsel(app(a,b)) == allunsel(a) and allunsel(b)  (for arbitrary filter parameters)', lambda: prove('allunsel')),
            ('all_items(app(a,b)) == all_items(a) and all_items(b)', lambda: prove('items'))]


META = {
    'category': 'other',
    'technique': 'contract-based deductive verification (pyvc): iterator with ghost cursor and loop invariant; nested '
                 'definition-item collector; relational plan/transform contract of apply_file; native scheduler harness '
                 'as bounded stand-in and replay',
    'level_text': 'SFilter.__next__ (real source, walrus loop cut at the invariant "everything consumed so far is '
                  'unselected") is proved for all graphs, orders and filter settings to return the first selected element '
                  'at or after the cursor and to raise StopIteration iff none is left; SFilter.__iter__ positions the cursor '
                  'at the start of the topological order or of its reverse; hence the yielded sequence is filter(sel, order). '
                  'The nested _get_definition_items of Scheduler.process_transformation (loop invariant, recursive call = '
                  'induction hypothesis) never returns an ignored item unless the manifest asks for ignored items. '
                  'Transformation.apply_file hands every procedure item its own role and targets and issues the same calls in '
                  'plan and in transform mode (relational, bounded to 2 definition items).',
    'level_note': 'Level other: the dispatch loop of Scheduler.process_transformation (one apply() per yielded item with '
                  'item.role / item.mode / item.targets), Item.targets, SGraph.as_filegraph and Transformation.apply / '
                  'apply_subroutine / apply_module are covered only by the bounded native scheduler harness (one project, 16 '
                  'manifest combinations), never counted as proved. Trusted: pyvc engine; nx.topological_sort yields every node '
                  'once, sources of edges first (ASSUMED, external); items are truthy objects; issubclass(type(node), '
                  'item_filter) an arbitrary relation; create_definition_items returns a list of items. The native harness also checks, on a second project with a procedure-free file (type definition + binding chain), that file-graph processing visits exactly the files containing a selected item, once.',
    'trusted_base': ['pyvc engine', 'networkx.topological_sort (external)', 'python iterator protocol model (IterModel)'],
    'assumptions': ['items are truthy (the walrus loop `while node := next(...)` relies on it)', 'termination not proved'],
}
