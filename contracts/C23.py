"""C23 - batch processing does not depend on the letter case of names (DESIGN section 4 C23).

Under contract: Item.__eq__ / Item.__hash__ (equivalence on folded names, eq => equal hash), Item.scope_name /
Item.local_name, DuplicateKernel._get_new_item_name and SeparateModesKernel._get_new_item_name (relational: two
runs whose name-valued options differ only in letter case produce names that differ only in letter case)."""
import z3
from pyvc import vcrt
from pyvc.runner import FunctionSpec
from pyvc.inline import inline
from pyvc.values import ClassModel, Theory, SV, SStr, SBool, mk_bool, mk_str, mk_int, truth, _LOWER, as_str_term
from pyvc.core import ctx, OutOfSubset
from pyvc import strings as pstr

PROP = 'C23'
ITEM = 'loki/batch/item.py'
DEP = 'loki/transformations/dependency.py'

T = Theory('items', [])
V = T.V
H = z3.Function('pyhash_str', z3.StringSort(), z3.IntSort())       # hash() of a str: an arbitrary function
T.sym_hash = lambda x: mk_int(H(as_str_term(x)))


def lower_nf(t):
    """lower() pushed to the leaves of a concatenation (ASCII: lower is a character-wise homomorphism)"""
    t = z3.simplify(t)
    if z3.is_string_value(t):
        return z3.StringVal(t.as_string().lower())
    if z3.is_app(t) and t.decl().kind() == z3.Z3_OP_SEQ_CONCAT:
        return z3.Concat(*[lower_nf(a) for a in t.children()])
    if z3.is_app(t) and t.decl().eq(_LOWER):
        return lower_nf(t.arg(0)) if z3.is_app(t.arg(0)) and (
            t.arg(0).decl().kind() == z3.Z3_OP_SEQ_CONCAT or z3.is_string_value(t.arg(0))) else t
    return _LOWER(t)


class ItemModel:
    """`self` of Item methods: only the name matters"""

    def __init__(self, name):
        self.name = name

    @property
    def scope_name(self):
        return SCOPE_NAME(self)

    @property
    def local_name(self):
        return LOCAL_NAME(self)


class _ItemCls:
    pass


G = {'Item': ItemModel}
ITEM_EQ = inline(ITEM, 'Item.__eq__', G)
ITEM_HASH = inline(ITEM, 'Item.__hash__', G)
SCOPE_NAME = inline(ITEM, 'Item.scope_name', G)
LOCAL_NAME = inline(ITEM, 'Item.local_name', G)


def _sha(file, qual):
    import ast
    from pyvc import rewrite
    src = rewrite.read_source(file)
    node, _ = rewrite.find_def(ast.parse(src), qual)
    return rewrite.sha(rewrite.func_text(src, node))


def _bt(x):
    return x.t if isinstance(x, SBool) else z3.BoolVal(bool(x))


def str_interp(t, cache):
    side = cache.setdefault('__side__', [])
    return pstr.interp_strings(t, cache, side)


def lemmas():
    from pyvc.values import lower_axioms
    return lower_axioms()


BUD = (600_000, 2_000_000, 0, 1_500_000, 2_000_000)


def _mk(qual, file, setup, post, variant=None, raises=None, decode=None, notes=None, fn=None):
    sp = FunctionSpec(PROP, file, qual, {}, setup, post, raises=raises, theory=T, variant=variant, lemmas=lemmas(),
                      decode=decode, interp=str_interp, budgets=BUD, notes=notes or [], ext=False)
    sp.fn_override = fn
    sp.fn_info = {'file': file, 'qualname': qual, 'sha': _sha(file, qual), 'loops': {}, 'dropped': []}
    return sp


# ---- Item.__eq__ / __hash__ ----------------------------------------------------------------------------------
def spec_item_eq_hash():
    def setup(spec):
        c = ctx()
        a = ItemModel(SStr(c.fresh(z3.StringSort(), 'name_a')))
        b = ItemModel(SStr(c.fresh(z3.StringSort(), 'name_b')))
        env = {'a': a, 'b': b}
        return (env,), {}, env

    def run(env):
        a, b = env['a'], env['b']
        return {'ab': ITEM_EQ(a, b), 'ba': ITEM_EQ(b, a), 'ha': ITEM_HASH(a), 'hb': ITEM_HASH(b),
                'as': ITEM_EQ(a, b.name), }

    def post(env, r):
        a, b = env['a'].name.t, env['b'].name.t
        same = _LOWER(a) == _LOWER(b)
        return [('symmetric', _bt(r['ab']) == _bt(r['ba'])),
                ('case-insensitive', _bt(r['ab']) == same),
                ('string-comparison', _bt(r['as']) == same),
                ('hash-consistent', z3.Implies(_bt(r['ab']), vcrt.as_int_term(r['ha']) == vcrt.as_int_term(r['hb'])))]

    def decode(env, m, r):
        ev = lambda t: m.eval(t, model_completion=True)
        sa, sb = ev(env['a'].name.t), ev(env['b'].name.t)
        return {'function': 'Item.__eq__/__hash__', 'name_a': sa.as_string() if z3.is_string_value(sa) else '',
                'name_b': sb.as_string() if z3.is_string_value(sb) else ''}
    return _mk('Item.__eq__', ITEM, setup, post, variant='with __hash__', decode=decode, fn=run,
               notes=['Item.__eq__ and Item.__hash__ executed from their real source on two symbolic items'])


def spec_scope_local_name():
    """name == scope_name + '#' + local_name when there is a scope; local_name == name otherwise"""
    def setup(spec):
        it = ItemModel(SStr(ctx().fresh(z3.StringSort(), 'name')))
        env = {'item': it}
        return (env,), {}, env

    def run(env):
        return {'scope': SCOPE_NAME(env['item']), 'local': LOCAL_NAME(env['item'])}

    def post(env, r):
        n = env['item'].name.t
        has = z3.Contains(n, z3.StringVal('#'))
        sc, lo = r['scope'], as_str_term(r['local'])
        out = [('no-scope', z3.Implies(z3.Not(has), z3.And(z3.BoolVal(sc is None), lo == n)))]
        if sc is not None:
            sct = as_str_term(sc)
            out += [('split', n == z3.Concat(sct, z3.StringVal('#'), lo)),
                    ('scope-has-no-hash', z3.Not(z3.Contains(sct, z3.StringVal('#'))))]
        return out
    return _mk('Item.scope_name', ITEM, setup, post, variant='with local_name', fn=run)


# ---- name producers of the duplicating transformations ---------------------------------------------------------
def _load_dep(qual):
    g = {'as_tuple': lambda x: () if x is None else ((x,) if isinstance(x, (str, SStr)) else tuple(x))}
    return inline(DEP, qual, g)


class TrafoModel:
    pass


def spec_duplicate_names():
    fn = _load_dep('DuplicateKernel._get_new_item_name')

    def setup(spec):
        c = ctx()
        name = SStr(c.fresh(z3.StringSort(), 'item_name'))
        # canonical item name (item factory lower-cases names); options are arbitrary-case
        c.assume(_LOWER(name.t) == name.t)
        s1, s2 = SStr(c.fresh(z3.StringSort(), 'suffix1')), SStr(c.fresh(z3.StringSort(), 'suffix2'))
        m1, m2 = SStr(c.fresh(z3.StringSort(), 'modsuffix1')), SStr(c.fresh(z3.StringSort(), 'modsuffix2'))
        c.assume(_LOWER(s1.t) == _LOWER(s2.t))
        c.assume(_LOWER(m1.t) == _LOWER(m2.t))
        env = {'name': name, 's': (s1, s2), 'm': (m1, m2)}
        return (env,), {}, env

    def run(env):
        out = []
        for k in (0, 1):
            t = TrafoModel()
            t.suffix, t.module_suffix = env['s'][k], env['m'][k]
            out.append(fn(t, ItemModel(env['name'])))
        return out

    def post(env, r):
        (sc1, lo1, n1), (sc2, lo2, n2) = r
        cl = [('same-up-to-case/name', lower_nf(as_str_term(n1)) == lower_nf(as_str_term(n2))),
              ('same-up-to-case/local', lower_nf(as_str_term(lo1)) == lower_nf(as_str_term(lo2))),
              ('scope-presence', z3.BoolVal((sc1 is None) == (sc2 is None)))]
        if sc1 is not None and sc2 is not None:
            cl.append(('same-up-to-case/scope', lower_nf(as_str_term(sc1)) == lower_nf(as_str_term(sc2))))
        return cl
    return _mk('DuplicateKernel._get_new_item_name', DEP, setup, post, fn=run,
               notes=['relational: two executions with duplicate_suffix / duplicate_module_suffix differing only in case'])


def spec_duplicate_init():
    fn = _load_dep('DuplicateKernel.__init__')

    def setup(spec):
        c = ctx()
        k1, k2 = SStr(c.fresh(z3.StringSort(), 'kernel1')), SStr(c.fresh(z3.StringSort(), 'kernel2'))
        c.assume(_LOWER(k1.t) == _LOWER(k2.t))
        env = {'k': (k1, k2)}
        return (env,), {}, env

    def run(env):
        out = []
        for k in (0, 1):
            t = TrafoModel()
            fn(t, duplicate_kernels=env['k'][k])
            out.append(t)
        return out

    def post(env, r):
        a, b = r
        return [('kernel-names-folded', z3.And(len(a.duplicate_kernels) == 1, len(b.duplicate_kernels) == 1,
                                               as_str_term(a.duplicate_kernels[0]) == as_str_term(b.duplicate_kernels[0])))]
    return _mk('DuplicateKernel.__init__', DEP, setup, post, fn=run,
               notes=['relational: duplicate_kernels differing only in case give identical selections'])


# ---- SchedulerConfig.match_item_keys: result depends only on the folded spelling of name and keys -------------
CONF = 'loki/batch/configure.py'


def spec_match_item_keys(nparts, parents):
    """relational: two executions whose item_name / keys differ only in letter case return the same matches.
    item_name is built from `nparts` '#'-free pieces (1: local name, 2: scope#local, 3: scope#type#member)"""
    g = {'as_tuple': lambda x: () if x is None else ((x,) if isinstance(x, (str, SStr)) else tuple(x)),
         'fnmatch': None, 'accumulate': None}
    fn = inline(CONF, 'SchedulerConfig.match_item_keys', g)
    HASH = z3.StringVal('#')

    def setup(spec):
        c = ctx()
        names, keys = [], []
        pieces = [[SStr(c.fresh(z3.StringSort(), 'part%d_run%d' % (i, k))) for i in range(nparts)] for k in (0, 1)]
        for i in range(nparts):
            a, b = pieces[0][i], pieces[1][i]
            c.assume(_LOWER(a.t) == _LOWER(b.t))
            for x in (a, b):
                # the pieces contain neither '#' nor '%' (and neither do their lower-case forms: not letters)
                for ch in ('#', '%'):
                    c.assume(z3.Not(z3.Contains(x.t, z3.StringVal(ch))))
                    c.assume(z3.Not(z3.Contains(_LOWER(x.t), z3.StringVal(ch))))
        for k in (0, 1):
            t = pieces[k][0].t
            for p_ in pieces[k][1:]:
                t = z3.Concat(t, HASH, p_.t)
            names.append(SStr(t))
        k1, k2 = SStr(c.fresh(z3.StringSort(), 'key_run0')), SStr(c.fresh(z3.StringSort(), 'key_run1'))
        c.assume(_LOWER(k1.t) == _LOWER(k2.t))
        env = {'names': names, 'keys': (k1, k2)}
        return (env,), {}, env

    def run(env):
        return [fn(env['names'][k], [env['keys'][k]], False, parents) for k in (0, 1)]

    def post(env, r):
        a, b = r
        la, lb = vcrt.m_len(a), vcrt.m_len(b)
        out = [('same-number-of-matches', z3.BoolVal(la == lb) if isinstance(la, int) and isinstance(lb, int)
                else vcrt.as_int_term(la) == vcrt.as_int_term(lb))]
        if isinstance(la, int) and isinstance(lb, int) and la == lb:
            for i in range(la):
                out.append(('same-match#%d' % i, as_str_term(a[i]) == as_str_term(b[i])))
        return out

    def raises(env, exc):
        return None

    def decode(env, m, r):
        ev = lambda t: m.eval(t, model_completion=True)
        gs = lambda x: (ev(x.t).as_string() if z3.is_string_value(ev(x.t)) else '')
        return {'function': 'match_item_keys', 'name_a': gs(env['names'][0]), 'name_b': gs(env['names'][1]),
                'key_a': gs(env['keys'][0]), 'key_b': gs(env['keys'][1]), 'match_item_parents': parents}
    return _mk('SchedulerConfig.match_item_keys', CONF, setup, post, raises=raises, decode=decode, fn=run,
               variant='%d-part name%s' % (nparts, ',parents' if parents else ''),
               notes=['relational: item_name and keys differing only in letter case; use_pattern_matching=False'])


# ---- ItemFactory.get_or_create_module_definitions_from_candidates: the name filter ignores letter case -----------
FACT = 'loki/batch/item_factory.py'


def spec_candidates():
    """relational: two look-ups whose `name` differs only in letter case select the same definition items; and a
    definition whose (canonical, lower-case) local name equals the folded look-up name is selected"""
    class ModuleItem:
        def __init__(self, defs):
            self.defs, self.name = defs, 'mod'

        def create_definition_items(self, **kw):
            return list(self.defs)

    class Cache(dict):
        pass

    class Factory:
        def __init__(self, defs):
            self.item_cache = Cache({'mod': ModuleItem(defs)})
    fn = inline(FACT, 'ItemFactory.get_or_create_module_definitions_from_candidates', {'ModuleItem': ModuleItem})
    HASH = z3.StringVal('#')

    def setup(spec):
        c = ctx()
        local = SStr(c.fresh(z3.StringSort(), 'definition_local_name'))
        scope = SStr(c.fresh(z3.StringSort(), 'definition_scope'))
        for x in (local, scope):
            c.assume(_LOWER(x.t) == x.t)                       # item names are canonical (the factory lower-cases them)
            c.assume(z3.Not(z3.Contains(x.t, HASH)))
        item = ItemModel(SStr(z3.Concat(scope.t, HASH, local.t)))
        n1, n2 = SStr(c.fresh(z3.StringSort(), 'lookup_name_run0')), SStr(c.fresh(z3.StringSort(), 'lookup_name_run1'))
        c.assume(_LOWER(n1.t) == _LOWER(n2.t))
        env = {'item': item, 'local': local, 'names': (n1, n2)}
        return (env,), {}, env

    def run(env):
        return [fn(Factory([env['item']]), env['names'][k], None, ['mod']) for k in (0, 1)]

    def post(env, r):
        a, b = r
        la, lb = len(a), len(b)
        hit = _LOWER(env['names'][0].t) == env['local'].t
        return [('same-selection-for-both-spellings', z3.BoolVal(la == lb)),
                ('folded-name-selects-the-definition', z3.Implies(hit, z3.BoolVal(la == 1))),
                ('other-names-select-nothing', z3.Implies(z3.Not(hit), z3.BoolVal(la == 0)))]

    def decode(env, m, r):
        ev = lambda t: m.eval(t, model_completion=True)
        gs = lambda x: (ev(x.t).as_string() if z3.is_string_value(ev(x.t)) else '')
        return {'function': 'candidates', 'local': gs(env['local']), 'name_a': gs(env['names'][0]), 'name_b': gs(env['names'][1])}
    return _mk('ItemFactory.get_or_create_module_definitions_from_candidates', FACT, setup, post, decode=decode, fn=run,
               notes=['relational: the look-up name in two spellings; one module with one definition item of symbolic name'])


def bounded_standin(obname, tier):
    """stand-in for an undecided match_item_keys obligation: native enumeration of case permutations"""
    if 'match_item_keys' not in obname:
        return None
    import json
    import os
    import subprocess
    if getattr(bounded_standin, 'cache', None) is None:
        root = os.path.dirname(os.path.dirname(os.path.abspath(__file__)))
        repo = os.environ.get('LOKI_REPO', '/repo')
        p = subprocess.run([os.environ.get('LOKI_PYTHON', '/venv/bin/python'), os.path.join(root, 'bounded', 'C23_native.py')],
                           capture_output=True, text=True, timeout=600, env=dict(os.environ, PYTHONPATH=repo), cwd=repo)
        line = next((l for l in p.stdout.splitlines() if l.startswith('{')), None)
        bounded_standin.cache = json.loads(line) if line else {'cases': 0, 'violation': False, 'error': p.stderr[-400:]}
    d = bounded_standin.cache
    return {'name': 'bounded/match_item_keys', 'cases': d.get('cases', 0), 'distinct': d.get('cases', 0),
            'violation': bool(d.get('violation')), 'cex': d.get('cex'),
            'rule': 'all lower/UPPER/Capitalised permutations per name piece of 4 item names x 8 keys, with and '
                    'without match_item_parents; matches compared across spellings', 'bound': '4 names x 8 keys',
            'for_obligation': obname}


bounded_standin.cache = None


def specs(tier='quick'):
    return [spec_item_eq_hash(), spec_scope_local_name(), spec_duplicate_names(), spec_duplicate_init(),
            spec_match_item_keys(1, False), spec_match_item_keys(2, False), spec_match_item_keys(3, False),
            spec_match_item_keys(2, True), spec_candidates()]


META = {
    'category': 'other',
    'technique': 'contract-based deductive verification (pyvc) with relational (two-run) contracts over z3 strings',
    'level_text': 'Item.__eq__/__hash__ are proved, for all names, to be a symmetric case-insensitive equivalence with '
                  'eq => equal hash; Item.scope_name/local_name split the name at the first #; DuplicateKernel.__init__ '
                  'and _get_new_item_name produce, for option values differing only in letter case, names differing only '
                  'in letter case. All from the real source re-read on every run.',
    'level_note': 'Trusted: pyvc engine; lower() is an ASCII character-wise homomorphism (uninterpreted + axioms in proofs, '
                  'interpreted for strings of length <= 2 in counterexample search); hash(str) an arbitrary function. '
                  'Unverified and named: item-name producers of item_factory.py, SchedulerConfig.match_item_keys (lower-cases '
                  'both arguments first, by reading), SeparateModesKernel, the end-to-end "same generated code up to case". Bounded, never counted as proved: SchedulerConfig.match_item_keys over all case permutations of 4 names x 8 plain keys and 6 fnmatch patterns, with and without parent matching (bounded/C23_native.py, run on every check); one 4-file project (type-bound procedure, generic interface, module function, USE ... ONLY, block / ignore / role configuration entries) in 9 case-permuted spellings against the lower-case run (bounded/C23_project.py): item kinds, names, flags, edges, applications with targets and order along edges agree up to case.',
    'trusted_base': ['pyvc engine', 'lower(): ASCII homomorphism', 'hash(str): arbitrary function of the string'],
    'assumptions': ['item names handed to the transformations are canonical (lower case), as produced by the item factory',
                    'termination not proved'],
}


def bounded_checks(tier, seed):
    """native metamorphic check (bounded/C23_project.py): one 4-file project in 9 spellings (sources upper / capitalised /
    mixed per occurrence x configuration lower / upper / mixed) against the all-lower-case run; bounded, never proved"""
    import json
    import os
    import subprocess
    root = os.path.dirname(os.path.dirname(os.path.abspath(__file__)))
    repo = os.environ.get('LOKI_REPO', '/repo')
    p = subprocess.run([os.environ.get('LOKI_PYTHON', '/venv/bin/python'), os.path.join(root, 'bounded', 'C23_project.py')],
                       capture_output=True, text=True, timeout=1800, env=dict(os.environ, PYTHONPATH=repo), cwd=repo)
    line = next((l for l in reversed(p.stdout.splitlines()) if l.startswith('{')), None)
    rule = ('one project (modules, a derived type with a type-bound procedure, a generic interface, a module function, '
            'USE ... ONLY imports, block / ignore / role entries in the configuration) written in 9 spellings that differ '
            'only in letter case: item kinds, names, ignore flags, roles, edges, the set of applications with their '
            'targets, and the order along edges equal those of the lower-case run up to letter case')
    if line is None:
        return [{'name': 'native/case-permuted-project', 'cases': 0, 'violation': False, 'error': p.stderr[-600:], 'rule': rule}]
    d = json.loads(line)
    out = [{'name': 'native/case-permuted-project', 'cases': d['cases'], 'distinct': d['cases'], 'rule': rule,
            'bound': 'one project, 9 spellings', 'violation': bool(d['violation']), 'cex': d.get('cex'),
            'n_violations': d.get('n_violations', 0)}]
    # the string matcher over all case permutations, plain and pattern keys, with and without parent matching
    m = bounded_standin('match_item_keys (always run)', tier)
    if m is not None:
        m = dict(m)
        m.pop('for_obligation', None)
        m['rule'] = ('all lower/UPPER/Capitalised permutations per name piece of 4 item names x 8 plain keys (+ 6 fnmatch '
                     'patterns with use_pattern_matching), with and without match_item_parents; matches compared across spellings')
        out.append(m)
    return out
