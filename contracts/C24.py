"""C24 - planning mode predicts exactly the files a conversion writes (DESIGN section 4 C24).

* FileWriteTransformation.plan_file / transform_file (relational, self-composition): executed from their real
  source on the same symbolic arguments, the path recorded in item.trafo_data equals the path handed to
  sourcefile.write, and one raises iff the other does (pathlib operations are uninterpreted but shared).
* CMakePlanTransformation.plan_file: for every combination of (source exists, replicate, original exists, rootpath
  given) the three lists are updated per the decision table of the property statement.
* Transformation.apply_file (relational): the sequence of plan_* calls in plan mode equals, argument for argument,
  the sequence of transform_* calls in transform mode (item lists of length 0..2 with symbolic items: BOUNDED in the
  number of items)."""
import z3
from pyvc import vcrt
from pyvc.runner import FunctionSpec
from pyvc.inline import inline
from pyvc.values import ClassModel, Theory, SV, SStr, SBool, mk_bool, mk_str, truth, as_str_term, as_bool_term
from pyvc.core import ctx, OutOfSubset

PROP = 'C24'
FW = 'loki/transformations/build_system/file_write.py'
PL = 'loki/transformations/build_system/plan.py'
TR = 'loki/batch/transformation.py'

from contracts.C22 import T       # one theory per process: C22 runs the apply_file contract of this module too
V = T.V
S = z3.StringSort()
P_OF = z3.Function('Path', S, S)                     # pathlib.Path(str) as an uninterpreted normal form
SUFFIX = z3.Function('Path.suffix', S, S)
WITH_SUFFIX = z3.Function('Path.with_suffix', S, S, S)
NAME = z3.Function('Path.name', S, S)
JOIN = z3.Function('Path./', S, S, S)
RESOLVE = z3.Function('Path.resolve', S, S)
RELTO = z3.Function('Path.relative_to', S, S, S)
REPLACE = z3.Function('str.replace', S, S, S, S)
T.sym_replace = lambda recv, a, b, *rest: mk_str(REPLACE(as_str_term(recv), as_str_term(a), as_str_term(b)))


class PathM:
    """model of a pathlib.Path: an opaque value built by uninterpreted operations"""

    def __init__(self, t, exists=None):
        self.t = t
        self._exists = exists

    @property
    def suffix(self):
        return mk_str(SUFFIX(self.t))

    @property
    def name(self):
        return mk_str(NAME(self.t))

    def with_suffix(self, s):
        return PathM(WITH_SUFFIX(self.t, as_str_term(s)))

    def __truediv__(self, o):
        return PathM(JOIN(self.t, o.t if isinstance(o, PathM) else as_str_term(o)))

    def resolve(self):
        return PathM(RESOLVE(self.t))

    def relative_to(self, o):
        return PathM(RELTO(self.t, o.t))

    def exists(self):
        if self._exists is None:
            raise OutOfSubset('exists() of a derived path')
        return self._exists

    def __eq__(self, o):
        if isinstance(o, PathM):
            return mk_bool(self.t == o.t)
        return False

    def __ne__(self, o):
        r = self.__eq__(o)
        return mk_bool(z3.Not(as_bool_term(r))) if not isinstance(r, bool) else not r

    __hash__ = None

    def __repr__(self):
        return 'PathM(%s)' % self.t


def Path(x):
    if isinstance(x, PathM):
        return PathM(x.t)       # Path(Path) is the same path
    return PathM(P_OF(as_str_term(x)))


class ItemM:
    def __init__(self, tag):
        c = ctx()
        self.tag = tag
        mode = c.fresh(V, 'mode_' + tag)
        c.assume(z3.Or(V.is_VNone(mode), V.is_VStr(mode)))
        self.mode = T.lower(mode)
        self.mode_t = mode
        self.path = PathM(c.fresh(S, 'itempath_' + tag), exists=mk_bool(c.fresh(z3.BoolSort(), 'source_exists_' + tag)))
        self.trafo_data = {}
        self.name = 'item_' + tag
        self.role = 'kernel'

    def __bool__(self):
        return True


class SourcefileM:
    def __init__(self):
        self.writes = []

    def write(self, **kw):
        self.writes.append(kw)


class SelfFW:
    def __init__(self):
        c = ctx()
        suf = c.fresh(V, 'suffix_option')
        c.assume(z3.Or(V.is_VNone(suf), V.is_VStr(suf)))
        self.suffix = T.lower(suf)
        self.suffix_t = suf
        self.cuf = mk_bool(c.fresh(z3.BoolSort(), 'cuf'))
        self.style = 'STYLE'

    def _get_file_path(self, *args, **kwargs):
        return GET_PATH(self, *args, **kwargs)        # the real helper, whatever its signature


G = {'Path': Path}
GET_PATH = inline(FW, 'FileWriteTransformation._get_file_path', G)
PLAN_FILE = inline(FW, 'FileWriteTransformation.plan_file', G)
TRANSFORM_FILE = inline(FW, 'FileWriteTransformation.transform_file', G)


def _sha(file, qual):
    import ast
    from pyvc import rewrite
    src = rewrite.read_source(file)
    node, _ = rewrite.find_def(ast.parse(src), qual)
    return rewrite.sha(rewrite.func_text(src, node))


def _mk(qual, file, setup, post, run, variant=None, decode=None, notes=None, prop=PROP, raises=None):
    sp = FunctionSpec(prop, file, qual, {}, setup, post, theory=T, variant=variant, lemmas=[], decode=decode,
                      notes=notes or [], raises=raises, ext=False,
                      budgets=(2_000_000, 2_000_000, 0, 4_000_000, 3_000_000, 10000))
    sp.fn_override = run
    sp.fn_info = {'file': file, 'qualname': qual, 'sha': _sha(file, qual), 'loops': {}, 'dropped': []}
    return sp


# ---- FileWriteTransformation: plan_file vs transform_file -----------------------------------------------------------
def spec_filewrite(shape):
    """shape: how the item reaches the method - 'item' | 'items' (first of the definition items) | 'none'
    x build_args: 'absent' | 'no-output-dir' | 'output-dir'"""
    how, ba = shape

    def setup(spec):
        c = ctx()
        me = SelfFW()
        item = ItemM('a')
        other = ItemM('b')
        if ba == 'absent':
            extra = {}
        elif ba == 'no-output-dir':
            extra = {'build_args': {}}
        else:
            extra = {'build_args': {'output_dir': mk_str(c.fresh(S, 'output_dir'))}}
        # the scheduler passes every transformation the item's mode, role and targets as keywords as well
        extra.update(mode=item.mode, role='kernel', targets=())
        if how == 'item':
            kw = dict(item=item, items=(other,), **extra)
        elif how == 'items':
            kw = dict(item=None, items=(item, other), **extra)
        else:
            kw = dict(item=None, items=(), **extra)
        env = {'me': me, 'item': item, 'kw': kw}
        return (env,), {}, env

    def run(env):
        me, kw = env['me'], env['kw']
        out = {}
        sf1, sf2 = SourcefileM(), SourcefileM()
        try:
            PLAN_FILE(me, sf1, **kw)
            out['plan'] = ('ok', env['item'].trafo_data.get('FileWriteTransformation'), sf1.writes)
        except ValueError as e:
            out['plan'] = ('raise', None, [])
        try:
            TRANSFORM_FILE(me, sf2, **kw)
            out['transform'] = ('ok', sf2.writes)
        except ValueError as e:
            out['transform'] = ('raise', [])
        return out

    def post(env, r):
        p, t = r['plan'], r['transform']
        cl = [('plan-raises-iff-transform-raises', z3.BoolVal(p[0] == t[0]))]
        if p[0] == 'ok' and t[0] == 'ok':
            try:
                planned = p[1]['path']
            except Exception:       # pylint: disable=broad-except
                planned = None
            written = t[1][0].get('path') if len(t[1]) == 1 else None
            ok_shape = isinstance(planned, PathM) and isinstance(written, PathM) and not p[2]
            cl.append(('plan-writes-nothing-and-records-a-path', z3.BoolVal(bool(ok_shape))))
            if ok_shape:
                cl.append(('planned-path-is-written-path', planned.t == written.t))
        if how != 'none':
            cl.append(('no-spurious-error', z3.BoolVal(p[0] == 'ok' and t[0] == 'ok')))
        return cl

    def decode(env, m, r):
        def opt(vt):
            v = m.eval(vt, model_completion=True)
            if z3.is_true(m.eval(V.is_VStr(vt), model_completion=True)):
                sv = m.eval(V.sval(vt), model_completion=True)
                return sv.as_string() if z3.is_string_value(sv) else 'x'
            return None
        od = (env['kw'].get('build_args') or {}).get('output_dir')
        odv = None
        if od is not None:
            o = m.eval(od.t, model_completion=True)
            odv = o.as_string() if z3.is_string_value(o) else 'out'
        return {'function': 'FileWriteTransformation', 'how': how, 'build_args': ba, 'mode': opt(env['item'].mode_t),
                'suffix': opt(env['me'].suffix_t), 'output_dir': odv}
    return _mk('FileWriteTransformation.plan_file', FW, setup, post, run, variant='vs transform_file[%s,%s]' % shape,
               decode=decode, notes=['relational: plan_file and transform_file executed on the same symbolic arguments; '
                                     '_get_file_path inlined from its real source; pathlib uninterpreted'])


# ---- CMakePlanTransformation.plan_file ---------------------------------------------------------------------------------
PLAN_CMAKE = inline(PL, 'CMakePlanTransformation.plan_file', dict(G, debug=lambda *a, **k: None))


class SelfCMake:
    def __init__(self, rootpath, prefilled, key):
        self.rootpath = rootpath
        mk = (lambda n: {key: [PathM(ctx().fresh(S, 'earlier_' + n))]}) if prefilled else (lambda n: {})
        self.sources_to_append, self.sources_to_remove, self.sources_to_transform = mk('append'), mk('remove'), mk('transform')


def spec_cmake_plan(rooted, prefilled):
    def setup(spec):
        c = ctx()
        item = ItemM('a')
        item.lib = 'LIB'
        item.replicate = mk_bool(c.fresh(z3.BoolSort(), 'replicate'))
        item.orig_path = PathM(c.fresh(S, 'orig_path'), exists=mk_bool(c.fresh(z3.BoolSort(), 'orig_exists')))
        new = PathM(c.fresh(S, 'newsource'))
        item.trafo_data['FileWriteTransformation'] = {'path': new}
        me = SelfCMake(PathM(c.fresh(S, 'rootpath')) if rooted else None, prefilled, 'LIB')
        before = {k: list(getattr(me, k).get('LIB', [])) for k in ('sources_to_append', 'sources_to_remove',
                                                                 'sources_to_transform')}
        env = {'me': me, 'item': item, 'new': new, 'before': before}
        return (env,), {}, env

    def run(env):
        PLAN_CMAKE(env['me'], SourcefileM(), item=env['item'])
        return None

    def post(env, r):
        me, item, new, before = env['me'], env['item'], env['new'], env['before']
        ex, rep, oex = as_bool_term(item.path._exists), as_bool_term(item.replicate), as_bool_term(item.orig_path._exists)
        rel = (lambda p: RELTO(RESOLVE(p.t), me.rootpath.t)) if rooted else (lambda p: p.t)

        def added(name):
            now = getattr(me, name).get('LIB', [])
            old = before[name]
            same_prefix = len(now) >= len(old) and all(a is b for a, b in zip(now, old))
            return (now[len(old):] if same_prefix else None)
        ap, tr, rm = added('sources_to_append'), added('sources_to_transform'), added('sources_to_remove')
        cl = [('earlier-entries-kept', z3.BoolVal(ap is not None and tr is not None and rm is not None))]
        if ap is None or tr is None or rm is None:
            return cl
        # append: exactly the file the conversion writes
        cl.append(('append-is-the-written-file', z3.BoolVal(len(ap) == 1) if len(ap) != 1 else ap[0].t == new.t))
        # transform: the original the new file is derived from
        want_tr = z3.If(ex, 1, z3.If(z3.And(rep, oex), 1, 0))
        cl.append(('transform-count', z3.IntVal(len(tr)) == want_tr))
        if len(tr) == 1:
            cl.append(('transform-is-the-original', tr[0].t == z3.If(ex, rel(item.path), rel(item.orig_path))))
        # remove: the original, iff it is replaced rather than replicated
        want_rm = z3.If(z3.And(z3.Not(rep), ex), 1, 0)
        cl.append(('remove-count', z3.IntVal(len(rm)) == want_rm))
        if len(rm) == 1:
            cl.append(('remove-is-the-original', rm[0].t == rel(item.path)))
        return cl

    def decode(env, m, r):
        ev = lambda t: bool(z3.is_true(m.eval(as_bool_term(t), model_completion=True)))
        it = env['item']
        return {'function': 'CMakePlanTransformation.plan_file', 'rooted': rooted, 'prefilled': prefilled,
                'source_exists': ev(it.path._exists), 'replicate': ev(it.replicate), 'orig_exists': ev(it.orig_path._exists)}
    return _mk('CMakePlanTransformation.plan_file', PL, setup, post, run,
               variant='%s,%s' % ('rootpath' if rooted else 'no-rootpath', 'lists-prefilled' if prefilled else 'lists-empty'),
               decode=decode)


# ---- Transformation.apply_file: plan mode mirrors transform mode ----------------------------------------------------
class Sourcefile:
    def __init__(self, n_modules, n_routines):
        self._incomplete = False
        self.path = 'file.F90'
        self.modules = [_Tok('module%d' % i) for i in range(n_modules)]
        self.all_subroutines = [_Tok('routine%d' % i) for i in range(n_routines)]


class _Tok:
    def __init__(self, name):
        self.name = name

    def __repr__(self):
        return '<%s>' % self.name


class _ItemBase:
    def __init__(self, tag):
        c = ctx()
        self.tag = tag
        self.role = mk_str(c.fresh(S, 'role_' + tag))
        self.targets = _Tok('targets_' + tag)
        self.ir = _Tok('ir_' + tag)
        self.name = mk_str(c.fresh(S, 'name_' + tag))
        self.scope_name = mk_str(c.fresh(S, 'scope_name_' + tag))
        self.scope = _Tok('scope_' + tag)

    def __repr__(self):
        return '<%s %s>' % (type(self).__name__, self.tag)


class ModuleItem(_ItemBase):
    pass


class ProcedureItem(_ItemBase):
    pass


class OtherItem(_ItemBase):
    pass


class TransformationError(Exception):
    def __init__(self, message=None, transformation=None, source=None):
        super().__init__(message)


class SelfTrafo:
    def __init__(self, rm, rp):
        self.recurse_to_modules, self.recurse_to_procedures = rm, rp
        self.log = []

    def _rec(name):         # pylint: disable=no-self-argument
        def m(self, target, **kw):
            self.log.append((name, target, kw))
        return m
    plan_file, transform_file = _rec('file'), _rec('file')
    plan_module, transform_module = _rec('module'), _rec('module')
    plan_subroutine, transform_subroutine = _rec('subroutine'), _rec('subroutine')


APPLY_FILE = inline(TR, 'Transformation.apply_file',
                    {'Sourcefile': Sourcefile, 'ModuleItem': ModuleItem, 'ProcedureItem': ProcedureItem,
                     'TransformationError': TransformationError})
_KINDS = {'M': ModuleItem, 'P': ProcedureItem, 'O': OtherItem}


def _same(a, b):
    """clause: the two argument values are the same (python identity for tokens, z3 equality for symbolic values)"""
    from pyvc.values import Sym
    from pyvc.containers import SSet
    if isinstance(a, (tuple, list)) and isinstance(b, (tuple, list)):
        if len(a) != len(b):
            return z3.BoolVal(False)
        return z3.And([_same(x, y) for x, y in zip(a, b)] + [z3.BoolVal(True)])
    if isinstance(a, Sym) or isinstance(b, Sym):
        if a is None or b is None:
            return z3.BoolVal(False)
        return T.lift(a) == T.lift(b)
    return z3.BoolVal(a is b or (isinstance(a, (str, bool, int, type(None))) and a == b))


def spec_apply_file(kinds, prop=PROP):
    """kinds: None (no definition items passed) or a string over M/P/O, one letter per definition item"""
    def setup(spec):
        c = ctx()
        rm, rp = mk_bool(c.fresh(z3.BoolSort(), 'recurse_to_modules')), mk_bool(c.fresh(z3.BoolSort(), 'recurse_to_procedures'))
        items = None if kinds is None else tuple(_KINDS[k]('%s%d' % (k, i)) for i, k in enumerate(kinds))
        sf = Sourcefile(1, 2)
        file_item = _ItemBase('file')
        shared = dict(item=file_item, items=items, role=mk_str(c.fresh(S, 'file_role')), targets=_Tok('file_targets'),
                      depths=_Tok('depths'), build_args=_Tok('build_args'))
        env = {'rm': rm, 'rp': rp, 'sf': sf, 'shared': shared, 'items': items}
        return (env,), {}, env

    def run(env):
        logs = {}
        for mode in (False, True):
            me = SelfTrafo(env['rm'], env['rp'])
            APPLY_FILE(me, env['sf'], plan_mode=mode, **dict(env['shared']))
            logs[mode] = me.log
        return logs

    def post(env, r):
        tr, pl = r[False], r[True]
        cl = [('same-number-of-calls', z3.BoolVal(len(tr) == len(pl)))]
        for k, (a, b) in enumerate(zip(tr, pl)):
            cl.append(('call#%d-same-kind-and-unit' % k, z3.BoolVal(a[0] == b[0] and a[1] is b[1])))
            keys = sorted(set(a[2]) | set(b[2]))
            for key in keys:
                if key == 'plan_mode':
                    continue
                if key not in a[2] or key not in b[2]:
                    cl.append(('call#%d-%s-passed-in-both-modes' % (k, key), z3.BoolVal(False)))
                else:
                    cl.append(('call#%d-same-%s' % (k, key), _same(a[2][key], b[2][key])))
        # C22: every procedure item of the file is handed its own role and targets
        if env['items']:
            for k, a in enumerate(tr):
                if a[0] == 'subroutine':
                    it = a[2].get('item')
                    cl.append(('transform-call#%d-item-role-and-targets' % k,
                               z3.And(_same(a[2].get('role'), getattr(it, 'role', None)),
                                      z3.BoolVal(a[2].get('targets') is getattr(it, 'targets', None)))))
        return cl

    def decode(env, m, r):
        return {'function': 'Transformation.apply_file', 'items': kinds}
    return _mk('Transformation.apply_file', TR, setup, post, run,
               variant='plan vs transform, items=%s' % ('None' if kinds is None else (kinds or 'empty')), decode=decode,
               prop=prop, notes=['relational; BOUNDED: at most 2 definition items, 1 module and 2 routines in the file'])


def apply_file_specs(prop=PROP):
    shapes = [None, ''] + list('MPO') + [a + b for a in 'MPO' for b in 'MPO']
    return [spec_apply_file(k, prop) for k in shapes]


def specs(tier='quick'):
    out = [spec_filewrite((h, b)) for h in ('item', 'items', 'none') for b in ('absent', 'no-output-dir', 'output-dir')]
    out += [spec_cmake_plan(r, p) for r in (False, True) for p in (False, True)]
    out += apply_file_specs()
    return out


META = {
    'category': 'other',
    'technique': 'contract-based deductive verification (pyvc): relational (self-composition) contracts on the '
                 'plan/transform method pairs, decision-table postcondition for the CMake plan',
    'level_text': 'FileWriteTransformation.plan_file and transform_file (with _get_file_path inlined) are executed from '
                  'their real source on the same symbolic arguments - every way the item reaches them, every mode, suffix '
                  'and build_args - and the planned path must equal the written path and one raises iff the other does. '
                  'CMakePlanTransformation.plan_file is executed for all combinations of source-exists, replicate, '
                  'original-exists, rootpath and pre-filled lists and must update sources_to_append / _transform / _remove '
                  'exactly per the decision table of the property. Transformation.apply_file is executed in plan and in '
                  'transform mode on the same arguments and the two call logs must agree argument for argument.',
    'level_note': 'Bounded and labelled: apply_file is checked for definition-item lists of length 0..2 (all kind '
                  'combinations, symbolic roles and names), one module and two routines per file. pathlib operations '
                  '(with_suffix, name, /, resolve, relative_to) and str.replace are uninterpreted functions shared by the '
                  'two executions. Unverified and named: which items reach these calls (C22), the plan_subroutine / '
                  'transform_subroutine pairs of item-creating and renaming transformations (DuplicateKernel, '
                  'DependencyTransformation, ...), write_plan, the convert/plan CLI. Bounded, never counted as proved: the real `loki-transform plan` and `convert` click commands with identical arguments on a two-directory project, header inside / outside the --source tree (replay/C24.py --cli): the three plan lists against the files written.',
    'trusted_base': ['pyvc engine', 'pathlib (uninterpreted, shared between the two executions)'],
    'assumptions': ['items are truthy objects', 'the file system does not change between planning and conversion',
                    'termination not proved'],
}


def bounded_checks(tier, seed):
    """native CLI check (replay/C24.py --cli): the real `loki-transform plan` and `loki-transform convert` commands with
    identical arguments on a two-directory project (header inside / outside the --source tree); bounded, never proved"""
    import json
    import os
    import subprocess
    root = os.path.dirname(os.path.dirname(os.path.abspath(__file__)))
    repo = os.environ.get('LOKI_REPO', '/repo')
    p = subprocess.run([os.environ.get('LOKI_PYTHON', '/venv/bin/python'), os.path.join(root, 'replay', 'C24.py'), '--cli'],
                       capture_output=True, text=True, timeout=1800, env=dict(os.environ, PYTHONPATH=repo), cwd=repo)
    line = next((l for l in reversed(p.stdout.splitlines()) if l.startswith('{')), None)
    rule = ('one 4-file project, header module next to a kernel-level routine, that directory inside / outside the --source '
            'path: plan and convert with the same arguments; LOKI_SOURCES_TO_APPEND = files written, TO_TRANSFORM = '
            'TO_REMOVE = their originals (no replication), and one command fails iff the other does')
    if line is None:
        return [{'name': 'native/cli-plan-vs-convert', 'cases': 0, 'violation': False, 'error': p.stderr[-600:], 'rule': rule}]
    r = json.loads(line)
    return [{'name': 'native/cli-plan-vs-convert', 'cases': 2, 'distinct': 2, 'rule': rule, 'bound': 'one fixed project, 2 layouts',
             'violation': bool(r.get('reproduced')), 'cex': r}]
