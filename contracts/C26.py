"""C26 - dataflow def/use/live sets over-approximate actual reads and writes (DESIGN section 4 C26, appendix A.1).

Abstract semantics (trusted spec, per variable name): W(n) may-write, MW(n) must-write, R(n) may-read-before-written
of an IR node n; over a statement list Wl/MWl/Rl with the sequence rule R(s1;s2) = R(s1) | (R(s2) - MW(s1)).
Contract of visit(n) - the induction hypothesis at every recursive call - is
      defines(n) >= W(n)   and   uses(n) >= R(n)   and   live(n) >= live_in(n).
Every transfer rule of DataflowAnalysisAttacher is executed from its real source on a symbolic node with symbolic
child lists and must re-establish that contract from the contracts of its callees."""
import ast
import z3
from pyvc import vcrt, rewrite
from pyvc.runner import FunctionSpec
from pyvc.inline import inline
from pyvc.values import ClassModel, Theory, SV, SSeq, SStr, SBool, mk_bool, mk_str, truth, as_bool_term
from pyvc.containers import SSet, make_set
from pyvc.core import ctx, OutOfSubset, define_rec, CheckerError

PROP = 'C26'
F = 'loki/analyse/dataflow_analysis.py'

T = Theory('dfa', [
    ClassModel('NodeM', [], [('uid', 'Int')]),          # an IR node
    ClassModel('SymM', [], [('uid', 'Int')]),           # a variable symbol (dimensions stripped)
    ClassModel('ExprM', [], [('uid', 'Int')]),          # an expression (tree)
    ClassModel('CallM', [], [('function', 'Str'), ('parameters', 'V')]),       # an InlineCall inside an expression
])
V, VL = T.V, T.VL
SetV = z3.SetSort(V)
EMPTY = z3.EmptySet(V)
A = T.acc
is_node = T.recog['is_C_NodeM']

# ---- abstract semantics ------------------------------------------------------------------------------------------
W = z3.Function('W', V, SetV)           # may-write of a node
MW = z3.Function('MW', V, SetV)         # must-write of a node
R = z3.Function('R', V, SetV)           # may-read-before-written within the node
D = z3.Function('defines_att', V, SetV)     # what visit() attaches (in place) as node.defines_symbols
U = z3.Function('uses_att', V, SetV)        # ... node.uses_symbols
LIVE = z3.Function('live_att', V, SetV)     # ... node.live_symbols
Reads = z3.Function('Reads', V, SetV)       # symbols whose value evaluating an expression reads
ReadsNK = z3.Function('Reads_without_literal_kinds', V, SetV)

_s = z3.Const('s!dfa', VL)
Wl = z3.RecFunction('Wl', VL, SetV)
define_rec(Wl, [_s], z3.If(VL.is_nil(_s), EMPTY, z3.SetUnion(W(VL.hd(_s)), Wl(VL.tl(_s)))))
MWl = z3.RecFunction('MWl', VL, SetV)
define_rec(MWl, [_s], z3.If(VL.is_nil(_s), EMPTY, z3.SetUnion(MW(VL.hd(_s)), MWl(VL.tl(_s)))))
Rl = z3.RecFunction('Rl', VL, SetV)      # R(s1; rest) = R(s1) | (R(rest) - MW(s1))
define_rec(Rl, [_s], z3.If(VL.is_nil(_s), EMPTY,
                           z3.SetUnion(R(VL.hd(_s)), z3.SetDifference(Rl(VL.tl(_s)), MW(VL.hd(_s))))))
# what the code computes from the attached sets of the children (auxiliary clause, DESIGN 3.10):
# RDl(s1; rest) = U(s1) | (RDl(rest) - D(s1))
RDl = z3.RecFunction('RDl', VL, SetV)
define_rec(RDl, [_s], z3.If(VL.is_nil(_s), EMPTY,
                            z3.SetUnion(U(VL.hd(_s)), z3.SetDifference(RDl(VL.tl(_s)), D(VL.hd(_s))))))
Dl = z3.RecFunction('Dl', VL, SetV)
define_rec(Dl, [_s], z3.If(VL.is_nil(_s), EMPTY, z3.SetUnion(D(VL.hd(_s)), Dl(VL.tl(_s)))))
all_nodes = z3.RecFunction('all_nodes', VL, z3.BoolSort())
define_rec(all_nodes, [_s], z3.If(VL.is_nil(_s), True, z3.And(is_node(VL.hd(_s)), all_nodes(VL.tl(_s)))))
# induction hypothesis lifted to lists: every node of the list has been visited and satisfies the contract
ih_all = z3.RecFunction('ih_all', VL, z3.BoolSort())


def ih_node(n):
    return z3.And(z3.IsSubset(W(n), D(n)), z3.IsSubset(R(n), U(n)), z3.IsSubset(MW(n), W(n)))


define_rec(ih_all, [_s], z3.If(VL.is_nil(_s), True, z3.And(ih_node(VL.hd(_s)), ih_all(VL.tl(_s)))))


TI = A['titems']
is_tuple_v = T.recog['is_VTuple']
Wll = z3.RecFunction('Wll', VL, SetV)           # over a list of bodies (tuple of tuples of nodes)
define_rec(Wll, [_s], z3.If(VL.is_nil(_s), EMPTY, z3.SetUnion(Wl(TI(VL.hd(_s))), Wll(VL.tl(_s)))))
Rll = z3.RecFunction('Rll', VL, SetV)           # alternatives: no subtraction between the bodies
define_rec(Rll, [_s], z3.If(VL.is_nil(_s), EMPTY, z3.SetUnion(Rl(TI(VL.hd(_s))), Rll(VL.tl(_s)))))
all_bodies = z3.RecFunction('all_bodies', VL, z3.BoolSort())
define_rec(all_bodies, [_s], z3.If(VL.is_nil(_s), True, z3.And(is_tuple_v(VL.hd(_s)), all_nodes(TI(VL.hd(_s))),
                                                              all_bodies(VL.tl(_s)))))


def sub(a, b):
    return z3.IsSubset(a, b)


def un(*xs):
    r = xs[0]
    for x in xs[1:]:
        r = z3.SetUnion(r, x)
    return r


def _app_lemmas():
    a, b = z3.Consts('a!l b!l', VL)
    ap = T.app(a, b)
    return [
        z3.ForAll([a, b], Wl(ap) == un(Wl(a), Wl(b)), patterns=[Wl(ap)]),
        z3.ForAll([a, b], MWl(ap) == un(MWl(a), MWl(b)), patterns=[MWl(ap)]),
        z3.ForAll([a, b], Dl(ap) == un(Dl(a), Dl(b)), patterns=[Dl(ap)]),
        z3.ForAll([a, b], Rl(ap) == un(Rl(a), z3.SetDifference(Rl(b), MWl(a))), patterns=[Rl(ap)]),
        z3.ForAll([a, b], RDl(ap) == un(RDl(a), z3.SetDifference(RDl(b), Dl(a))), patterns=[RDl(ap)]),
        z3.ForAll([a, b], all_nodes(ap) == z3.And(all_nodes(a), all_nodes(b)), patterns=[all_nodes(ap)]),
        z3.ForAll([a, b], ih_all(ap) == z3.And(ih_all(a), ih_all(b)), patterns=[ih_all(ap)]),
        z3.ForAll([a, b], Wll(ap) == un(Wll(a), Wll(b)), patterns=[Wll(ap)]),
        z3.ForAll([a, b], Rll(ap) == un(Rll(a), Rll(b)), patterns=[Rll(ap)]),
        z3.ForAll([a, b], all_bodies(ap) == z3.And(all_bodies(a), all_bodies(b)), patterns=[all_bodies(ap)]),
    ]


LEMMAS = list(T.base_lemmas) + _app_lemmas()

NODE = T.classes['NodeM']
NODE.props['uses_symbols'] = lambda self: SSet(T, U(self.t))
NODE.props['defines_symbols'] = lambda self: SSet(T, D(self.t))
NODE.props['live_symbols'] = lambda self: SSet(T, LIVE(self.t))


def OrderedSet(it=()):
    if isinstance(it, SSet):
        return it.copy()
    if isinstance(it, (set, frozenset, list, tuple)) and not it:
        return SSet.empty(T)
    return _as_sset(make_set(it))


def _as_sset(s):
    if isinstance(s, SSet):
        return s
    r = SSet.empty(T)
    for x in s:
        r.add(x)
    return r


def flatten(x):
    """trusted model of loki.tools.flatten on what the attacher passes: a (flat) tuple of nodes, or a collection of
    variable sets (the union)"""
    return x


BUD = (3_000_000, 2_000_000, 3_000_000, 4_000_000, 3_000_000, 8000)


def as_tuple(x, **kw):
    if x is None:
        return ()
    if isinstance(x, SSet) or getattr(type(x), '__vc_comp__', None) is not None:
        return x            # a tuple of the collection's elements: only used for membership tests / as an expression list
    if isinstance(x, SSeq):
        return vcrt.m_tuple(x)
    if isinstance(x, (list, tuple)):
        return tuple(x)
    if isinstance(x, SV):
        r = x.resolve(['VTuple', 'VList', 'VNone'])
        if r is x:
            return (x,)
        return as_tuple(r)
    return (x,)


class Attacher:
    """model of `self` (a DataflowAnalysisAttacher): visit() is the induction hypothesis"""

    def __init__(self, live_in=None):
        self.include_literal_kinds = True
        self.live_in = live_in          # ghost: what the caller of the rule under verification passed as live
        self.calls = []

    def visit(self, node, live_symbols=None, **kwargs):
        c = ctx()
        if kwargs:
            raise OutOfSubset('visit() with extra keywords %s' % sorted(kwargs))
        if not isinstance(node, SV):
            raise OutOfSubset('visit(%r)' % (node,))
        n = node.t
        c.check(is_node(n), 'call:visit/pre/is-node')
        c.assume(is_node(n))
        fs = getattr(vcrt.CURRENT, 'last_for', None)
        if self.live_req is not None:
            req = self.live_req(fs)
            got = live_symbols.t if isinstance(live_symbols, SSet) else EMPTY
            c.check(sub(req, got), 'call:visit/pre/live-covers-earlier-writes')
        # post (induction hypothesis): the node itself is returned, its attached sets cover W and R
        c.assume(ih_node(n))
        if isinstance(live_symbols, SSet):
            c.assume(LIVE(n) == live_symbols.t)
        return SV(T, n, cls='NodeM')

    live_req = None


def _class_tuple(clsname, attr):
    """a literal class attribute read from the real class statement (kept in sync on every run)"""
    tree = ast.parse(rewrite.read_source(F))
    node, _ = rewrite.find_def(tree, clsname)
    for st in node.body:
        if isinstance(st, ast.Assign) and any(isinstance(t, ast.Name) and t.id == attr for t in st.targets):
            return ast.literal_eval(st.value)
    raise CheckerError('%s.%s not found' % (clsname, attr))


G = {'OrderedSet': OrderedSet, 'flatten': flatten, 'as_tuple': as_tuple}


# ---- _visit_body ---------------------------------------------------------------------------------------------------
def spec_visit_body(variant):
    """variant: 'none' (live/defines/uses omitted) | 'given' (all three passed in)"""
    state = {}

    def setup(spec):
        c = ctx()
        body = c.fresh(VL, 'body')
        c.assume(all_nodes(body))
        att = Attacher()
        env = {'body': body, 'att': att}
        state['env'] = env
        if variant == 'given':
            live, defines, uses = SSet.fresh('live0', T), SSet.fresh('defines0', T), SSet.fresh('uses0', T)
            env.update(live0=live.t, defines0=defines.t, uses0=uses.t)
            kw = {'live': live, 'defines': defines, 'uses': uses}
        else:
            env.update(live0=EMPTY, defines0=EMPTY, uses0=EMPTY)
            kw = {}
        att.live_req = lambda fs: un(env['live0'], env['defines0'], Wl(fs.before))
        return (att, SSeq(T, body, 'tuple')), kw, env

    def inv(L):
        env = state['env']
        seen = L['__seen'].t
        d, u = L['defines'], L['uses']
        return {
            'children-visited': ih_all(seen),
            'defines-cover-writes': sub(un(env['defines0'], Wl(seen)), d.t),
            'defines-exact': d.t == un(env['defines0'], Dl(seen)),
            'uses-aux': sub(un(env['uses0'], z3.SetDifference(RDl(seen), env['defines0'])), u.t),
            'visited-is-prefix': T.lift_seq(L['visited']) == seen,
            'live-unchanged': L['live'].t == env['live0'],
        }

    def post(env, r):
        body = env['body']
        vis, d, u = r
        return [
            ('defines-cover-writes', sub(un(env['defines0'], Wl(body)), d.t)),
            # the property: every variable read before it is (certainly) written is reported as used
            # (symbols the caller passes in `defines` count as defined before the body)
            ('uses-cover-reads', sub(un(env['uses0'], z3.SetDifference(Rl(body), env['defines0'])), u.t)),
            # implied auxiliary clause (holds for any composition that subtracts at most the attached defines)
            ('uses-aux', sub(un(env['uses0'], z3.SetDifference(RDl(body), env['defines0'])), u.t)),
            ('body-unchanged', T.lift_seq(vis) == body),
            ('children-visited', ih_all(body)),
        ]

    def decode(env, m, r, tag=None):
        return {'function': '_visit_body', 'variant': variant, 'which': 'uses' if 'uses' in (tag or '') else 'defines'}
    decode.wants_tag = True

    sp = FunctionSpec(PROP, F, 'DataflowAnalysisAttacher._visit_body', G, setup, post, invariants={1: inv}, theory=T,
                      lemmas=LEMMAS, variant=variant, decode=decode, budgets=BUD)
    return sp



# ---- expression level (trusted model, cross-checked natively in the thorough tier) -----------------------------------
FV = z3.Function('FindVariables', V, SetV)              # FindVariables().visit(expr): the variables occurring in expr
SEf = z3.Function('symbols_from_expr', V, SetV)         # _symbols_from_expr(expr)


def SI(S):
    """_symbols_from_expr(as_tuple(set of variables)): modelling decision - a variable occurrence is identified with
    the symbol it strips to (the distinction between `a(i)` and `a` is not modelled), so stripping a set is the identity"""
    return S


LV = z3.Function('literal_kind_variables', V, SetV)     # FindVariables().visit(FindLiterals().visit(expr))
StrSet = z3.SetSort(z3.StringSort())
_QA = {}


def QA(e, names):
    """variables inside the arguments of the calls f(..) in expr with f in `names` (one function symbol per name set)"""
    key = tuple(sorted(n.lower() for n in names))
    f = _QA.get(key)
    if f is None:
        f = _QA[key] = z3.Function('query_args[%s]' % ','.join(key), V, SetV)
    return f(e)


BASE = z3.Function('strip_nested_dimensions', V, V)     # the symbol a variable (lhs) denotes
# spec: inquiry functions that do not read the value of their argument (Fortran 2018 16.9); the code may exclude the
# arguments of any of these, and of nothing else, from the reads of an expression
MEMQ_SPEC = ('size', 'lbound', 'ubound', 'present', 'shape', 'allocated', 'associated', 'kind', 'rank', 'len',
             'storage_size', 'is_contiguous', 'bit_size', 'digits', 'epsilon', 'huge', 'tiny', 'precision', 'range')


def _memq_set():
    t = z3.EmptySet(z3.StringSort())
    for n in MEMQ_SPEC:
        t = z3.SetAdd(t, z3.StringVal(n))
    return t


def reads_of(e_term, att):
    return Reads(e_term) if att.include_literal_kinds is True else ReadsNK(e_term)


class ExprWorld:
    """per-run registry of the expression tokens the rule under verification touched; generates the assumed facts"""

    def __init__(self):
        self.qa = []        # (expr term, P term)
        self.exprs = []

    def note_expr(self, e):
        if not any(e.eq(x) for x in self.exprs):
            self.exprs.append(e)
            c = ctx()
            # A1: _symbols_from_expr(e) covers the reads of e (it returns every variable of e, stripped)
            c.assume(sub(Reads(e), SEf(e)))
            c.assume(sub(ReadsNK(e), Reads(e)))
            c.assume(sub(Reads(e), SI(FV(e))))
            c.assume(sub(ReadsNK(e), SI(z3.SetDifference(FV(e), LV(e)))))
            # an actual argument designates a variable: its symbol is among the expression's symbols and is not one
            # of its own subscripts; the subscripts' reads are among the subscripts' symbols
            c.assume(sub(Wsym(e), z3.SetDifference(SEf(e), DimSyms(e))))
            c.assume(sub(DimReads(e), DimSyms(e)))
            c.assume(sub(DimReads(e), Reads(e)))

    def note_qa(self, e, P, names=None):
        self.note_expr(e)
        c = ctx()
        ok = z3.BoolVal(all(n.lower() in MEMQ_SPEC for n in names))
        q = QA(e, names)
        # A2: arguments of genuine memory queries are not read
        c.assume(z3.Implies(ok, z3.And(
            sub(Reads(e), SI(z3.SetDifference(FV(e), q))),
            sub(Reads(e), z3.SetDifference(SEf(e), q)),
            sub(ReadsNK(e), SI(z3.SetDifference(z3.SetDifference(FV(e), q), LV(e)))))))
        self.qa.append((e, P))


WORLD = [None]


def world():
    return WORLD[0]


def _expr_term(x):
    """V term of an expression argument: a token, or a python tuple of tokens (represented as a VTuple)"""
    if isinstance(x, SV):
        return x.t
    if isinstance(x, tuple):
        return T.lift(x)
    if x is None:
        return V.VNone
    raise OutOfSubset('expression argument %r' % (x,))


def _expr_parts(x):
    if isinstance(x, (tuple, list)):
        out = []
        for y in x:
            out += _expr_parts(y)
        return out
    if x is None:
        return []
    return [x]


class ICallColl:
    """FindInlineCalls().visit(expr)"""

    def __init__(self, e):
        self.e = e

    def __vc_comp__(self, vc, kind, ordinal, elt, cond):
        x = z3.Const('icall!%d' % next(vcrt._COMP_COUNTER), V)
        xs = SV(T, x, cls='CallM')
        cases = vcrt.summarize(lambda: (as_bool_term(truth(cond(xs))), elt(xs)), ctx())
        cond_t = None
        for pc, (ct, e) in reversed(cases):
            if not (isinstance(e, SV) and e.t.eq(x)):
                raise OutOfSubset('comprehension over inline calls with a non-identity element')
            g = z3.And(pc) if pc else z3.BoolVal(True)
            full = z3.And(g, ct)
            cond_t = full if cond_t is None else z3.Or(full, cond_t)
        f = z3.Const('fname!%d' % next(vcrt._COMP_COUNTER), z3.StringSort())
        ct2 = z3.substitute(cond_t, (A['CallM__function'](x), f))
        if _occurs(x, ct2):
            raise OutOfSubset('filter on inline calls depends on more than the function name')
        names = _finite_names(z3.simplify(ct2), f)
        if names is not None:
            P = z3.EmptySet(z3.StringSort())
            for n in sorted(names):
                P = z3.SetAdd(P, z3.StringVal(n))
            return FilteredCalls(self.e, P, names)
        raise OutOfSubset('filter on inline calls is not a finite list of function names')


def _finite_names(c, f):
    """{f | c(f)} as a finite set of python strings (enumerated with the solver, then checked to be exact)"""
    sv = z3.Solver()
    sv.set('rlimit', 5_000_000)
    sv.add(c)
    names = set()
    while len(names) < 64:
        r = sv.check()
        if r == z3.unsat:
            return names
        if r != z3.sat:
            return None
        v = sv.model().eval(f, model_completion=True)
        if not z3.is_string_value(v):
            return None
        names.add(v.as_string())
        sv.add(f != v)
    return None


def _occurs(x, t):
    seen, todo = set(), [t]
    while todo:
        u = todo.pop()
        if u.get_id() in seen:
            continue
        seen.add(u.get_id())
        if u.eq(x):
            return True
        if z3.is_app(u):
            todo.extend(u.children())
        elif z3.is_quantifier(u):
            todo.append(u.body())
    return False


class FilteredCalls:
    def __init__(self, e, P, names=None):
        self.e, self.P, self.names = e, P, names

    def __vc_comp__(self, vc, kind, ordinal, elt, cond):
        x = z3.Const('icall!%d' % next(vcrt._COMP_COUNTER), V)
        xs = SV(T, x, cls='CallM')
        if not truth(cond(xs)) is True:
            raise OutOfSubset('second filter on the memory-query calls')
        r = elt(xs)
        want = FV(A['CallM__parameters'](x))
        if not (isinstance(r, SSet) and r.t.eq(want)):
            raise OutOfSubset('expected FindVariables().visit(call.parameters) per memory-query call, got %r' % (r,))
        world().note_qa(self.e, self.P, self.names)
        return SSet(T, QA(self.e, self.names))


class LitColl:
    def __init__(self, e):
        self.e = e


class _Finder:
    def __init__(self, fn):
        self.fn = fn

    def __call__(self, *a, **kw):
        return self

    def visit(self, x):
        return self.fn(x)


DIMS = z3.Function('dimensions_of', V, V)
T.classes['ExprM'].props['dimensions'] = lambda self: SV(T, DIMS(self.t), cls='ExprM')
ARRAYS = z3.Const('array_variables', SetV)           # the variables that are Arrays
DimSyms = z3.Function('symbols_in_subscripts', V, SetV)    # symbols in the subscripts of the array variables in expr
Wsym = z3.Function('written_symbol_of_actual', V, SetV)   # the symbol(s) an actual argument designates
DimReads = z3.Function('reads_in_subscripts', V, SetV)


_ArrayCls = ClassModel('Array')        # the class object loki.expression.Array: membership in the set of array variables
_ArrayCls.instancecheck = lambda x: mk_bool(z3.IsMember(x.t, ARRAYS)) if isinstance(x, SV) else False


class FVSet(SSet):
    """FindVariables().visit(exprs) with its provenance (which expressions), optionally restricted to arrays"""
    __slots__ = ('exprs', 'arrays_only')

    def __init__(self, exprs, arrays_only=False):
        t = None
        for e in exprs:
            t = FV(e) if t is None else z3.SetUnion(t, FV(e))
        t = EMPTY if t is None else t
        if arrays_only:
            t = z3.SetIntersect(t, ARRAYS)
        SSet.__init__(self, T, t)
        self.exprs, self.arrays_only = list(exprs), arrays_only

    def __vc_comp__(self, vc, kind, ordinal, elt, cond):
        r = SSet.__vc_comp__(self, vc, kind, ordinal, elt, cond)
        if isinstance(r, SSet) and not self.arrays_only:
            sv = z3.Solver()
            sv.set('rlimit', 2_000_000)
            sv.add(r.t != z3.SetIntersect(self.t, ARRAYS))
            if sv.check() == z3.unsat:
                return FVSet(self.exprs, True)
        return r

    def __iter__(self):
        raise OutOfSubset('iteration over a symbolic set')

    def __vc_comp_flat__(self, vc, kind, ordinal, elt, cond):
        """{s for a in arrays for s in symbols(a.dimensions)}: by definition of DimSyms, the union over the
        expressions the arrays were found in"""
        if not self.arrays_only:
            raise OutOfSubset('nested comprehension over a variable set that is not restricted to arrays')
        x = z3.Const('arr!%d' % next(vcrt._COMP_COUNTER), V)
        xs = SV(T, x, cls='ExprM')
        if truth(cond(xs)) is not True:
            raise OutOfSubset('filtered nested comprehension over arrays')
        r = elt(xs)
        ok = isinstance(r, SSet) and (z3.simplify(r.t).eq(z3.simplify(SEf(DIMS(x)))) or z3.simplify(r.t).eq(z3.simplify(FV(DIMS(x)))))
        if not ok:
            raise OutOfSubset('expected the symbols of a.dimensions per array, got %r' % (r,))
        t = None
        for e in self.exprs:
            t = DimSyms(e) if t is None else z3.SetUnion(t, DimSyms(e))
        return SSet(T, EMPTY if t is None else t)


def _fv(x):
    if isinstance(x, list):
        x = tuple(x)
    if isinstance(x, LitColl):
        return SSet(T, LV(x.e))
    if isinstance(x, tuple) and all(isinstance(y, LitColl) for y in x) and x:
        return SSet(T, un(*[LV(y.e) for y in x]))
    if isinstance(x, SSet):
        raise OutOfSubset('FindVariables over a set')
    parts = _expr_parts(x)
    for p in parts:
        world().note_expr(p.t)
    return FVSet([p.t for p in parts])


def _single_expr(x):
    parts = _expr_parts(x)
    if len(parts) != 1:
        raise OutOfSubset('FindInlineCalls/FindLiterals over %d expressions' % len(parts))
    world().note_expr(parts[0].t)
    return parts[0].t


FindVariables = _Finder(_fv)
FindInlineCalls = _Finder(lambda x: ICallColl(_single_expr(x)))
FindLiterals = _Finder(lambda x: LitColl(_single_expr(x)))


def symbols_from_expr(expr, condition=None):
    """contract of DataflowAnalysisAttacher._symbols_from_expr (ASSUMED; its body iterates FindVariables results)"""
    if condition is not None:
        raise OutOfSubset('_symbols_from_expr with a condition')
    if isinstance(expr, SSet):
        return SSet(T, SI(expr.t))
    r = None
    for p in _expr_parts(expr):
        world().note_expr(p.t)
        r = SEf(p.t) if r is None else z3.SetUnion(r, SEf(p.t))
    return SSet(T, EMPTY if r is None else r)


def strip_nested_dimensions(v):
    return SV(T, BASE(v.t), cls='SymM')


G.update({'Array': _ArrayCls, 'FindVariables': FindVariables, 'FindInlineCalls': FindInlineCalls, 'FindLiterals': FindLiterals,
          'strip_nested_dimensions': strip_nested_dimensions})

# a loop range expression and its parts: reads(bounds) = reads(lower) | reads(upper) | reads(step)
_RPART = {k: z3.Function('range_' + k, V, V) for k in ('lower', 'upper', 'step')}


def _range_part(kind):
    def prop(self):
        c = ctx()
        parts = [f(self.t) for f in _RPART.values()]
        for q in parts:
            c.assume(T.recog['is_C_ExprM'](q))
        c.assume(SEf(self.t) == un(*[SEf(q) for q in parts]))
        return SV(T, _RPART[kind](self.t), cls='ExprM')
    return prop


for _k, _alias in (('lower', 'lower'), ('upper', 'upper'), ('step', 'step'), ('lower', 'start'), ('upper', 'stop')):
    T.classes['ExprM'].props[_alias] = _range_part(_k)

VISIT_NODE = inline(F, 'DataflowAnalysisAttacher.visit_Node', G)
SYMS_FROM_LHS = inline(F, 'DataflowAnalysisAttacher._symbols_from_lhs_expr', G)


class ONode:
    """the node `o` a transfer rule is applied to: a python object with symbolic fields; _update records writes"""

    def __init__(self, **fields):
        self.__dict__.update(fields)
        self.updated = {}

    def _update(self, *a, **kw):
        if a:
            raise OutOfSubset('_update with positional arguments')
        self.updated.update(kw)
        self.__dict__.update(kw)


class RuleAttacher(Attacher):
    """`self` of a transfer rule: visit_Node and _symbols_from_lhs_expr are the real code (inlined), _visit_body and
    _symbols_from_expr are contracts"""

    def __init__(self, live_in, literal_kinds=True):
        super().__init__(live_in)
        self.include_literal_kinds = literal_kinds
        self._mem_property_queries = _class_tuple('DataflowAnalysisAttacher', '_mem_property_queries')
        self.body_calls = []

    def visit_Node(self, o, **kwargs):
        return VISIT_NODE(self, o, **kwargs)

    def _symbols_from_expr(self, expr, condition=None):
        return symbols_from_expr(expr, condition)

    def _symbols_from_lhs_expr(self, expr):
        return SYMS_FROM_LHS(self, expr)

    def _visit_body(self, body, live=None, defines=None, uses=None, **kwargs):
        """contract of _visit_body as proved by spec_visit_body, with the property-level clause `uses-cover-reads`
        (a KNOWN FINDING at the callee, reported there) ASSUMED here - modular verification"""
        c = ctx()
        if kwargs:
            raise OutOfSubset('_visit_body(**%s)' % sorted(kwargs))
        if isinstance(body, SV):
            c.check(is_tuple_v(body.t), 'call:_visit_body/pre/body-is-a-tuple')
            bt = TI(body.t)
        else:
            bt = T.lift_seq(body)
        c.check(all_nodes(bt), 'call:_visit_body/pre/body-of-nodes')
        live_t = live.t if isinstance(live, SSet) else EMPTY
        self.body_calls.append((bt, live_t))
        d0 = defines.t if isinstance(defines, SSet) else EMPTY
        u0 = uses.t if isinstance(uses, SSet) else EMPTY
        dn = c.fresh(SetV, 'defines_out')
        un_ = c.fresh(SetV, 'uses_out')
        c.assume(sub(un(d0, Wl(bt)), dn))
        c.assume(sub(un(u0, z3.SetDifference(Rl(bt), d0)), un_))
        c.assume(ih_all(bt))
        if isinstance(defines, SSet):
            defines.t = dn
        else:
            defines = SSet(T, dn)
        if isinstance(uses, SSet):
            uses.t = un_
        else:
            uses = SSet(T, un_)
        return SSeq(T, bt, 'tuple'), defines, uses


def _fresh_nodes(name):
    b = ctx().fresh(VL, name)
    ctx().assume(all_nodes(b))
    return b


def _fresh_tok(name, cls):
    c = ctx()
    return SV(T, T.ctor['C_' + cls](c.fresh(z3.IntSort(), name)), cls=cls)


def rule_spec(rule, mk_node, spec_sets, variant=None, literal_kinds=True, invariants=None, extra_post=None,
              live_for_bodies=None, notes=None, plain_live=True, budgets=None):
    """mk_node(env) -> ONode ; spec_sets(env, att) -> (W, R) z3 set terms of the abstract semantics of the node"""
    state = {}

    def setup(spec):
        c = ctx()
        WORLD[0] = ExprWorld()
        live = SSet.fresh('live_in', T)
        att = RuleAttacher(live.t, literal_kinds)
        env = {'att': att, 'live_in': live.t}
        o = mk_node(env)
        env['o'] = o
        state['env'] = env
        return (att, o), {'live_symbols': live}, env

    def post(env, r):
        o, att = env['o'], env['att']
        Wn, Rn = spec_sets(env, att)
        out = [('returns-node', z3.BoolVal(r is o))]
        for fld in ('_defines_symbols', '_uses_symbols', '_live_symbols'):
            if not isinstance(o.updated.get(fld), SSet):
                out.append(('attaches' + fld, z3.BoolVal(False)))
                return out
        out += [('defines-cover-writes', sub(Wn, o._defines_symbols.t)),
                ('uses-cover-reads', sub(Rn, o._uses_symbols.t))]
        if plain_live:
            out.append(('live-covers-live-in', sub(env['live_in'], o._live_symbols.t)))
        need = live_for_bodies(env) if live_for_bodies else env['live_in']
        for k, (bt, live_t) in enumerate(att.body_calls):
            out.append(('body#%d-live-covers-live-in' % k, sub(need, live_t)))
        if extra_post:
            out += extra_post(env, r)
        return out

    def decode(env, m, r, tag=None):
        return {'function': rule, 'variant': variant,
                'which': 'uses' if 'uses' in (tag or '') else ('defines' if 'defines' in (tag or '') else None)}
    decode.wants_tag = True

    inv = {k: (lambda L, f=f: f(L, state['env'])) for k, f in (invariants or {}).items()}
    return FunctionSpec(PROP, F, 'DataflowAnalysisAttacher.' + rule, G, setup, post, invariants=inv, theory=T,
                        lemmas=LEMMAS, variant=variant, decode=decode, notes=notes or [], budgets=budgets or BUD)


def _body_unchanged(*fields):
    def f(env, r):
        o = env['o']
        out = []
        for fld in fields:
            new = o.updated.get(fld)
            ok = new is not None and isinstance(new, (SSeq, tuple))
            out.append(('%s-unchanged' % fld, (T.lift_seq(new) == env[fld]) if ok else z3.BoolVal(False)))
        return out
    return f


def spec_internal_node():
    def mk(env):
        env['body'] = _fresh_nodes('body')
        return ONode(body=SSeq(T, env['body'], 'tuple'))
    return rule_spec('visit_InternalNode', mk, lambda env, att: (Wl(env['body']), Rl(env['body'])),
                     extra_post=_body_unchanged('body'))


def spec_while_loop():
    def mk(env):
        env['body'] = _fresh_nodes('body')
        env['cond'] = _fresh_tok('cond', 'ExprM')
        return ONode(body=SSeq(T, env['body'], 'tuple'), condition=env['cond'])
    # zero or more iterations: the condition is read first, nothing is certainly written
    return rule_spec('visit_WhileLoop', mk,
                     lambda env, att: (Wl(env['body']), un(Reads(env['cond'].t), Rl(env['body']))),
                     extra_post=_body_unchanged('body'))


def spec_loop():
    def mk(env):
        env['body'] = _fresh_nodes('body')
        env['bounds'] = _fresh_tok('bounds', 'ExprM')
        env['var'] = _fresh_tok('loopvar', 'SymM')
        var = env['var']
        var_model = SV(T, var.t, cls='SymM')
        T.classes['SymM'].methods['clone'] = lambda self, **kw: self
        return ONode(body=SSeq(T, env['body'], 'tuple'), bounds=env['bounds'], variable=var_model)

    def sets(env, att):
        v = z3.SetAdd(EMPTY, env['var'].t)
        # DO v = bounds: the bounds are read once, v is written before the body runs (so the body's reads of v are
        # not reads of an earlier value), the body may run zero times
        return (un(Wl(env['body']), v), un(Reads(env['bounds'].t), z3.SetDifference(Rl(env['body']), v)))
    return rule_spec('visit_Loop', mk, sets, extra_post=_body_unchanged('body'),
                     live_for_bodies=lambda env: z3.SetAdd(env['live_in'], env['var'].t))


def spec_conditional(literal_kinds):
    def mk(env):
        env['body'] = _fresh_nodes('body')
        env['else_body'] = _fresh_nodes('else_body')
        env['cond'] = _fresh_tok('cond', 'ExprM')
        return ONode(body=SSeq(T, env['body'], 'tuple'), else_body=SSeq(T, env['else_body'], 'tuple'),
                     condition=env['cond'])

    def sets(env, att):
        return (un(Wl(env['body']), Wl(env['else_body'])),
                un(reads_of(env['cond'].t, att), Rl(env['body']), Rl(env['else_body'])))
    return rule_spec('visit_Conditional', mk, sets, variant='kinds' if literal_kinds else 'no-literal-kinds',
                     literal_kinds=literal_kinds, extra_post=_body_unchanged('body', 'else_body'))


def _lhs(env):
    env['lhs'] = _fresh_tok('lhs', 'ExprM')
    env['lhs_dims'] = _fresh_tok('lhs_dims', 'ExprM')
    ctx().assume(DIMS(env['lhs'].t) == env['lhs_dims'].t)
    return env['lhs']




def spec_assignment(literal_kinds):
    def mk(env):
        env['rhs'] = _fresh_tok('rhs', 'ExprM')
        return ONode(lhs=_lhs(env), rhs=env['rhs'])

    def sets(env, att):
        w = z3.SetAdd(EMPTY, BASE(env['lhs'].t))
        return (w, un(reads_of(env['rhs'].t, att), Reads(env['lhs_dims'].t)))
    return rule_spec('visit_Assignment', mk, sets, variant='kinds' if literal_kinds else 'no-literal-kinds',
                     literal_kinds=literal_kinds)


def spec_conditional_assignment():
    def mk(env):
        for k in ('cond', 'rhs', 'else_rhs'):
            env[k] = _fresh_tok(k, 'ExprM')
        return ONode(lhs=_lhs(env), rhs=env['rhs'], else_rhs=env['else_rhs'], condition=env['cond'])

    def sets(env, att):
        w = z3.SetAdd(EMPTY, BASE(env['lhs'].t))
        return (w, un(Reads(env['cond'].t), Reads(env['rhs'].t), Reads(env['else_rhs'].t), Reads(env['lhs_dims'].t)))
    return rule_spec('visit_ConditionalAssignment', mk, sets)


def _fresh_bodies(name):
    b = ctx().fresh(VL, name)
    ctx().assume(all_bodies(b))
    return b


def _bodies_inv(with_defines_in_uses):
    def inv(L, env):
        seen = L['__seen'].t
        out = {
            'defines-cover-writes': sub(Wll(seen), L['defines'].t),
            'uses-cover-reads': sub(un(env['uses_before_bodies'](L), Rll(seen)), L['uses'].t),
            'bodies-unchanged': T.lift_seq(L['body']) == seen,
            'live-unchanged': L['live'].t == env['live_in'],
            'rest-are-bodies': all_bodies(L['__rest'].t),
        }
        return out
    return inv


def spec_multi_conditional(rule='visit_MultiConditional'):
    def mk(env):
        env['bodies'] = _fresh_bodies('bodies')
        env['else_body'] = _fresh_nodes('else_body')
        env['expr'] = _fresh_tok('expr', 'ExprM')
        env['values'] = _fresh_tok('values', 'ExprM')
        env['uses_before_bodies'] = lambda L: un(Reads(env['expr'].t), Reads(env['values'].t))
        return ONode(bodies=SSeq(T, env['bodies'], 'tuple'), else_body=SSeq(T, env['else_body'], 'tuple'),
                     expr=env['expr'], values=env['values'])

    def sets(env, att):
        return (un(Wll(env['bodies']), Wl(env['else_body'])),
                un(Reads(env['expr'].t), Reads(env['values'].t), Rll(env['bodies']), Rl(env['else_body'])))
    return rule_spec(rule, mk, sets, invariants={1: _bodies_inv(False)}, extra_post=_body_unchanged('bodies', 'else_body'))


def spec_masked_statement(literal_kinds):
    def mk(env):
        env['bodies'] = _fresh_bodies('bodies')
        env['default'] = _fresh_nodes('default')
        env['conds'] = _fresh_tok('conditions', 'ExprM')
        env['uses_before_bodies'] = lambda L: reads_of(env['conds'].t, env['att'])
        return ONode(bodies=SSeq(T, env['bodies'], 'tuple'), default=SSeq(T, env['default'], 'tuple'),
                     conditions=env['conds'])

    def sets(env, att):
        # WHERE / ELSEWHERE(mask) / ELSEWHERE bodies act on disjoint sets of elements: a write in one body does not
        # shield a read in a later one
        return (un(Wll(env['bodies']), Wl(env['default'])),
                un(reads_of(env['conds'].t, att), Rll(env['bodies']), Rl(env['default'])))
    return rule_spec('visit_MaskedStatement', mk, sets, invariants={1: _bodies_inv(True)},
                     variant='kinds' if literal_kinds else 'no-literal-kinds', literal_kinds=literal_kinds,
                     extra_post=_body_unchanged('bodies', 'default'))


# ---- visit_Associate: the sets are mapped back through the association list, ignoring letter case -----------------
from pyvc.values import _LOWER, as_str_term, mk_str     # noqa: E402  pylint: disable=wrong-import-position
NAME = z3.Function('symbol_name', V, z3.StringSort())
def _name_prop(self):
    return mk_str(NAME(self.t))


for _cn in ('SymM', 'ExprM', 'NodeM', 'CallM'):      # set elements are of unknown model class: every class has a name
    T.classes[_cn].props['name'] = _name_prop
PROBES = []


def _set_image(elt_t, x, filt):
    """{elt(x) | x in filt}: a fresh set R with the defining inclusion instantiated at the registered probe elements
    (arbitrary fresh constants, so what is proved about a probe holds for every element)"""
    c = ctx()
    Rs = c.fresh(SetV, 'image')
    for p in PROBES:
        c.assume(z3.Implies(z3.Select(filt, p) if not z3.is_app_of(filt, z3.Z3_OP_SET_UNION) else z3.IsMember(p, filt),
                            z3.IsMember(z3.substitute(elt_t, (x, p)), Rs)))
    return Rs


T.set_image = _set_image
T.set_element_type = lambda x: z3.Or(T.recog['is_C_SymM'](x), T.recog['is_C_ExprM'](x))


class CaseInsensitiveDictM:
    """model of loki.tools.util.CaseInsensitiveDict over symbolic string keys (C12 verifies the real class)"""

    def __init__(self, items=()):
        self.items_ = []
        src = items.items() if hasattr(items, 'items') else items
        for k, v in src:
            self.items_.append((_LOWER(as_str_term(k)), v))

    def _find(self, k):
        kl = _LOWER(as_str_term(k))
        for i in range(len(self.items_) - 1, -1, -1):         # later entries override earlier ones
            if truth(mk_bool(self.items_[i][0] == kl)):
                return i
        return None

    def __contains__(self, k):
        return self._find(k) is not None

    def __getitem__(self, k):
        i = self._find(k)
        if i is None:
            raise KeyError(k)
        return self.items_[i][1]

    def get(self, k, default=None):
        i = self._find(k)
        return default if i is None else self.items_[i][1]


G['CaseInsensitiveDict'] = CaseInsensitiveDictM


def spec_associate(nassoc):
    def mk(env):
        c = ctx()
        env['body'] = _fresh_nodes('body')
        pairs = []
        for i in range(nassoc):
            k = _fresh_tok('selector%d' % i, 'ExprM')       # the associated expression (what is really read / written)
            v = _fresh_tok('assoc_name%d' % i, 'SymM')      # the associate name used in the body
            pairs.append((k, v))
        env['pairs'] = pairs
        env['probes'] = {n: c.fresh(V, 'probe_' + n) for n in ('defines', 'uses', 'live')}
        del PROBES[:]
        PROBES.extend(env['probes'].values())
        for p in PROBES:
            c.assume(T.set_element_type(p))
        return ONode(body=SSeq(T, env['body'], 'tuple'), associations=tuple(pairs))

    def back(env, w):
        """sigma^-1(w): the selector of the association whose name equals w's name up to letter case, else w"""
        t = w
        for k, v in env['pairs']:           # later pairs override earlier ones, like the dict comprehension
            t = z3.If(_LOWER(NAME(w)) == _LOWER(NAME(v.t)), k.t, t)
        return t

    def sets(env, att):
        return EMPTY, EMPTY          # the per-element clauses below carry the specification

    def extra(env, r):
        o = env['o']
        pd, pu, pl = env['probes']['defines'], env['probes']['uses'], env['probes']['live']
        out = _body_unchanged('body')(env, r)
        if isinstance(o.updated.get('_defines_symbols'), SSet):
            out.append(('every-write-is-reported-under-its-selector',
                        z3.Implies(z3.IsMember(pd, Wl(env['body'])), z3.IsMember(back(env, pd), o._defines_symbols.t))))
            out.append(('every-read-is-reported-under-its-selector',
                        z3.Implies(z3.IsMember(pu, Rl(env['body'])), z3.IsMember(back(env, pu), o._uses_symbols.t))))
            out.append(('live-in-is-reported-under-its-selector',
                        z3.Implies(z3.IsMember(pl, env['live_in']), z3.IsMember(back(env, pl), o._live_symbols.t))))
        return out
    sp = rule_spec('visit_Associate', mk, sets, variant='%d association(s)' % nassoc, extra_post=extra, plain_live=False,
                   notes=['bounded: %d association(s); names symbolic (letter case included)' % nassoc])
    return sp


class _TypeTok:
    def __init__(self, intent):
        self.intent = intent


class _ArgTok:
    def __init__(self, intent):
        self.type = _TypeTok(intent)


# 'in out' is standard Fortran for INOUT and is what the frontend stores for `intent(in out)`
INTENTS = (None, 'in', 'out', 'inout', 'IN', 'Out', 'InOut', 'in out', 'IN OUT')


def spec_call_known(intents):
    """CallStatement with a known routine and len(intents) arguments (BOUNDED in the number of arguments; the
    intents are enumerated, the actual arguments are arbitrary expressions)"""
    def mk(env):
        env['vals'] = [_fresh_tok('actual%d' % i, 'ExprM') for i in range(len(intents))]
        pairs = [(_ArgTok(it), v) for it, v in zip(intents, env['vals'])]
        o = ONode(routine=True, arguments=tuple(env['vals']), kwarguments=())
        o.arg_iter = lambda: list(pairs)
        return o

    def sets(env, att):
        Wn, Rn = EMPTY, EMPTY
        for it, v in zip(intents, env['vals']):
            low = None if it is None else it.lower().replace(' ', '')
            if low in (None, 'out', 'inout'):
                Wn = z3.SetUnion(Wn, Wsym(v.t))
            if low in (None, 'in', 'inout'):
                Rn = z3.SetUnion(Rn, Reads(v.t))
            Rn = z3.SetUnion(Rn, DimReads(v.t))         # subscripts are evaluated whatever the intent
        return Wn, Rn
    return rule_spec('visit_CallStatement', mk, sets, variant='routine:' + ','.join(str(i) for i in intents),
                     notes=['bounded: %d argument(s); intents enumerated' % len(intents)])


def specs(tier='quick'):
    return [spec_visit_body('none'), spec_visit_body('given'), spec_internal_node(), spec_while_loop(), spec_loop(),
            spec_conditional(True), spec_conditional(False), spec_assignment(True), spec_assignment(False),
            spec_conditional_assignment(), spec_multi_conditional(), spec_masked_statement(True),
            spec_masked_statement(False)] + [spec_call_known((i,)) for i in INTENTS] + \
        [spec_call_known((i, j)) for i in INTENTS[:4] for j in INTENTS[:4]] + [spec_associate(1), spec_associate(2)]


META = {
    'category': 'other',
    'technique': 'contract-based deductive verification (pyvc): every transfer rule executed from the real source on a '
                 'symbolic node with symbolic child lists, set algebra discharged by z3; CallStatement bounded in the '
                 'number of arguments',
    'level_text': 'DataflowAnalysisAttacher._visit_body (loop invariant over the statement list), visit_InternalNode, '
                  'visit_Loop, visit_WhileLoop, visit_Conditional, visit_MultiConditional, visit_MaskedStatement, '
                  'visit_Assignment, visit_ConditionalAssignment (each with and without literal kinds where the rule '
                  'distinguishes) are executed from their real source and must attach defines >= W(node), uses >= R(node), '
                  'live >= live_in, and pass every child a live set that covers the earlier writes, for the abstract '
                  'read/write semantics of DESIGN appendix A.1 and arbitrary children (callee = contract, recursive visit = '
                  'induction hypothesis). visit_CallStatement (known routine) is checked for all intent combinations of one '
                  'and two arguments with arbitrary actual arguments (bounded in the argument count, labelled as such). '
                  'Every list lemma is proved by induction on every run.',
    'level_note': 'Known findings (genuine, not repaired): _visit_body subtracts MAY-defines of earlier statements from the '
                  'uses of later ones; Loop drops its DO variable from defines. The property-level clause of _visit_body is '
                  'nevertheless ASSUMED at its call sites (modular verification: the defect is reported once, at the '
                  'callee). Trusted expression layer: FindVariables / FindInlineCalls / FindLiterals / _symbols_from_expr / '
                  'strip_nested_dimensions are contracts, variable occurrences are identified with their stripped symbols, '
                  'arguments of inquiry functions are not reads (native finding: b = size(a) + a). Unverified and named: '
                  'visit_Associate, visit_Allocation, visit_Deallocation, visit_Import, visit_Interface, '
                  'visit_VariableDeclaration, the unknown-routine branch of visit_CallStatement, attach_dataflow_analysis.',
    'trusted_base': ['pyvc engine', 'abstract read/write semantics of IR nodes (DESIGN appendix A.1)',
                     'expression-layer contracts (FindVariables, FindInlineCalls, FindLiterals, _symbols_from_expr)',
                     'loki.tools.flatten / as_tuple / OrderedSet models'],
    'assumptions': ['per variable name: array data space is ignored (as the property states it)',
                    'variable occurrences are identified with the symbols they strip to',
                    'arguments of inquiry functions (size, lbound, ubound, present, ...) are not value reads',
                    'an actual argument designates a variable that is not one of its own subscripts',
                    'bodies are flat tuples of nodes (flatten is the identity on them)',
                    'termination not proved'],
}


def lemma_proofs():
    """append lemmas of the list spec functions (structural induction on the first list)"""
    from pyvc.core import check_retry, P_BIG
    b = z3.Const('ind!b', VL)
    x, r = z3.Const('ind!x', V), z3.Const('ind!r', VL)
    ap = T.app
    stmts = {
        'Wl(app(a,b)) == Wl(a) | Wl(b)': lambda a: Wl(ap(a, b)) == un(Wl(a), Wl(b)),
        'MWl(app(a,b)) == MWl(a) | MWl(b)': lambda a: MWl(ap(a, b)) == un(MWl(a), MWl(b)),
        'Dl(app(a,b)) == Dl(a) | Dl(b)': lambda a: Dl(ap(a, b)) == un(Dl(a), Dl(b)),
        'Rl(app(a,b)) == Rl(a) | (Rl(b) - MWl(a))': lambda a: Rl(ap(a, b)) == un(Rl(a), z3.SetDifference(Rl(b), MWl(a))),
        'RDl(app(a,b)) == RDl(a) | (RDl(b) - Dl(a))': lambda a: RDl(ap(a, b)) == un(RDl(a), z3.SetDifference(RDl(b), Dl(a))),
        'all_nodes(app(a,b))': lambda a: all_nodes(ap(a, b)) == z3.And(all_nodes(a), all_nodes(b)),
        'ih_all(app(a,b))': lambda a: ih_all(ap(a, b)) == z3.And(ih_all(a), ih_all(b)),
        'Wll(app(a,b))': lambda a: Wll(ap(a, b)) == un(Wll(a), Wll(b)),
        'Rll(app(a,b))': lambda a: Rll(ap(a, b)) == un(Rll(a), Rll(b)),
        'all_bodies(app(a,b))': lambda a: all_bodies(ap(a, b)) == z3.And(all_bodies(a), all_bodies(b)),
    }
    out = []
    for name, stmt in stmts.items():
        def thunk(stmt=stmt):
            res = []
            for tag, hyps, goal in (('base', [], stmt(VL.nil)), ('step', [stmt(r)], stmt(VL.cons(x, r)))):
                res.append((tag, str(check_retry(list(hyps) + [z3.Not(goal)], P_BIG))))
            return res
        out.append(('list lemma: ' + name, thunk))
    return T.base_lemma_proofs() + out


def _native_corpus(prop):
    import json
    import os
    import subprocess
    root = os.path.dirname(os.path.dirname(os.path.abspath(__file__)))
    repo = os.environ.get('LOKI_REPO', '/repo')
    p = subprocess.run([os.environ.get('LOKI_PYTHON', '/venv/bin/python'), os.path.join(root, 'replay', 'C26.py'),
                        '--corpus', prop], capture_output=True, text=True, timeout=1800,
                       env=dict(os.environ, PYTHONPATH=repo), cwd=repo)
    line = next((l for l in reversed(p.stdout.splitlines()) if l.startswith('[')), None)
    rule = ('fixed corpus of small Fortran routines (one or more per transfer rule / query), required used/defined '
            'symbols derived by hand from Fortran execution semantics; run through the real frontend and analysis')
    if line is None:
        return [{'name': 'native/driver', 'cases': 0, 'violation': False, 'error': p.stderr[-600:], 'rule': rule}]
    out = []
    for r in json.loads(line):
        out.append({'name': r['name'], 'cases': 1, 'distinct': 1, 'rule': rule, 'bound': 'fixed corpus',
                    'violation': bool(r.get('violation')), 'cex': r, 'error': r.get('error')})
    return out


def bounded_checks(tier, seed):
    return _native_corpus(PROP)
