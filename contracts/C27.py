"""C27 - dependency queries report every actual loop-carried or read-after-write value (DESIGN section 4 C27).

On top of the C26 contract of the attached sets (defines(n) >= W(n), uses(n) >= R(n)):
* loop_carried_dependencies(loop) >= (R(body) & W(body)) - {loop variable};
* FindReads, the read half of read_after_write_vars, in its active phase (after the inspection point) with a
  candidate set C (the symbols written before the inspection point): the contract of visit(x) for a node or a
  statement list x - the induction hypothesis at recursive calls - is
        reads' >= reads | (C & R(x))     C - MW(x) <= C' <= C
  i.e. a candidate is only dropped when it is *certainly* overwritten before any later read; every handler that the
  visitor dispatch can select (visit_LeafNode, visit_Conditional, visit_Loop, visit_WhileLoop) is executed from its
  real source and must re-establish it.  The composition over a statement list is a lemma over that contract.
* FindWrites.visit_LeafNode / visit_Loop: writes' >= writes | W(x)."""
import z3
from pyvc import vcrt
from pyvc.runner import FunctionSpec
from pyvc.inline import inline
from pyvc.values import ClassModel, SV, SSeq, mk_bool, truth
from pyvc.containers import SSet
from pyvc.core import ctx, OutOfSubset, check_retry, P_BIG
from contracts import C26 as B

PROP = 'C27'
F = B.F
T, V, VL, SetV, EMPTY = B.T, B.V, B.VL, B.SetV, B.EMPTY
W, MW, R, D, U, Wl, MWl, Rl, Reads = B.W, B.MW, B.R, B.D, B.U, B.Wl, B.MWl, B.Rl, B.Reads
sub, un = B.sub, B.un
BUD = B.BUD

COMPOUND = z3.Function('is_compound_statement', V, z3.BoolSort())   # SELECT CASE / SELECT TYPE / WHERE "leaf" nodes
SEr = z3.Function('FindReads_symbols_from_expr', V, SetV)


def _compound_cls(name):
    cm = ClassModel(name)
    cm.instancecheck = lambda x: mk_bool(COMPOUND(x.t)) if isinstance(x, SV) else False
    return cm


class FR:
    """model of `self` (FindReads / FindWrites): plain attributes; helper methods are the real code (inlined)"""

    def __init__(self, kind, **kw):
        self.kind = kind
        self.__dict__.update(kw)
        self.ih_calls = 0

    def _symbols_from_expr(self, expr):
        e = expr.t
        ctx().assume(sub(Reads(e), SEr(e)))       # ASSUMED: every variable of the expression is returned
        return SSet(T, SEr(e))

    def _register_reads(self, s):
        return REG_READS(self, s)

    def _register_writes(self, s):
        return (REG_WRITES_R if self.kind == 'reads' else REG_WRITES_W)(self, s)

    def visit(self, x, **kwargs):
        """induction hypothesis: the contract of FindReads.visit on a statement list (active phase, candidates)"""
        if kwargs:
            raise OutOfSubset('visit(**kwargs)')
        c = ctx()
        if isinstance(x, tuple):
            # o.children of a loop: (variable, bounds, body) / (condition, body); expressions are visit_object no-ops
            bodies = [y for y in x if isinstance(y, SSeq)]
            if len(bodies) != 1:
                raise OutOfSubset('children tuple with %d bodies' % len(bodies))
            x = bodies[0]
        bt = T.lift_seq(x)
        self.ih_calls += 1
        if self.kind == 'reads':
            if truth(self.active) is not True or not isinstance(self.candidate_set, SSet):
                raise OutOfSubset('induction hypothesis is stated for the active phase with a candidate set')
            C0, r0 = self.candidate_set.t, self.reads.t
            C1, r1 = c.fresh(SetV, 'cand_after'), c.fresh(SetV, 'reads_after')
            c.assume(sub(un(r0, z3.SetIntersect(C0, Rl(bt))), r1))
            c.assume(sub(z3.SetDifference(C0, MWl(bt)), C1))
            c.assume(sub(C1, C0))
            self.candidate_set.t = C1
            self.reads.t = r1
        else:
            w0 = self.writes.t
            w1 = c.fresh(SetV, 'writes_after')
            c.assume(sub(un(w0, Wl(bt)), w1))
            self.writes.t = w1
        return None


G = dict(B.G)
G.update({'MultiConditional': _compound_cls('MultiConditional'), 'TypeConditional': _compound_cls('TypeConditional'),
          'MaskedStatement': _compound_cls('MaskedStatement')})
REG_READS = inline(F, 'FindReads._register_reads', G)
REG_WRITES_R = inline(F, 'FindReads._register_writes', G)
REG_WRITES_W = inline(F, 'FindWrites._register_writes', G)


def _reads_spec(method, mk, Rx, MWx, variant=None, notes=None, inv=None):
    """FindReads.<method>(o) in the active phase with candidate set C and clear_candidates_on_write"""
    def setup(spec):
        c = ctx()
        B.WORLD[0] = B.ExprWorld()
        C0, r0 = SSet.fresh('candidates', T), SSet.fresh('reads', T)
        me = FR('reads', active=True, candidate_set=C0, clear_candidates_on_write=True, reads=r0,
                start=SSet.empty(T), stop=SSet.empty(T))
        env = {'me': me, 'C0': C0.t, 'r0': r0.t}
        o = mk(env)
        env['o'] = o
        return (me, o), {}, env

    def post(env, r):
        me = env['me']
        if not isinstance(me.candidate_set, SSet) or not isinstance(me.reads, SSet):
            return [('state-shape', z3.BoolVal(False))]
        C1, r1 = me.candidate_set.t, me.reads.t
        return [('reads-registered', sub(un(env['r0'], z3.SetIntersect(env['C0'], Rx(env))), r1)),
                ('candidates-kept-unless-certainly-overwritten', sub(z3.SetDifference(env['C0'], MWx(env)), C1)),
                ('stays-active', z3.BoolVal(truth(me.active) is True))]

    def decode(env, m, r, tag=None):
        return {'function': 'FindReads.' + method, 'variant': variant, 'which': None}
    decode.wants_tag = True
    return FunctionSpec(PROP, F, 'FindReads.' + method, G, setup, post, theory=T, lemmas=B.LEMMAS, variant=variant,
                        decode=decode, budgets=BUD, notes=notes or [], invariants=inv or {})


def spec_reads_leaf(compound):
    def mk(env):
        o = B._fresh_tok('leaf', 'NodeM')
        c = ctx()
        c.assume(B.ih_node(o.t))
        c.assume(COMPOUND(o.t) == z3.BoolVal(compound))
        if not compound:
            # a simple statement's attached defines are certain writes (or writes that destroy the earlier value:
            # intent(out) arguments, allocation); SELECT CASE / WHERE nodes are LeafNodes too but only MAY define
            c.assume(MW(o.t) == D(o.t))
        return o
    return _reads_spec('visit_LeafNode', mk, lambda env: R(env['o'].t), lambda env: MW(env['o'].t),
                       variant='compound statement (SELECT/WHERE)' if compound else 'simple statement')


def spec_reads_conditional():
    def mk(env):
        env['body'], env['else_body'] = B._fresh_nodes('body'), B._fresh_nodes('else_body')
        env['cond'] = B._fresh_tok('cond', 'ExprM')
        return B.ONode(body=SSeq(T, env['body'], 'tuple'), else_body=SSeq(T, env['else_body'], 'tuple'),
                       condition=env['cond'])
    return _reads_spec('visit_Conditional', mk,
                       lambda env: un(Reads(env['cond'].t), Rl(env['body']), Rl(env['else_body'])),
                       lambda env: z3.SetIntersect(MWl(env['body']), MWl(env['else_body'])))


def spec_reads_loop():
    def mk(env):
        env['body'] = B._fresh_nodes('body')
        env['bounds'] = B._fresh_tok('bounds', 'ExprM')
        env['var'] = B._fresh_tok('loopvar', 'SymM')
        body = SSeq(T, env['body'], 'tuple')
        return B.ONode(body=body, bounds=env['bounds'], variable=env['var'],
                       children=(env['var'], env['bounds'], body))
    v = lambda env: z3.SetAdd(EMPTY, env['var'].t)
    return _reads_spec('visit_Loop', mk,
                       lambda env: un(Reads(env['bounds'].t), z3.SetDifference(Rl(env['body']), v(env))),
                       v)      # zero-trip possible: only the loop variable is certainly written


def spec_reads_while():
    def mk(env):
        env['body'] = B._fresh_nodes('body')
        env['cond'] = B._fresh_tok('cond', 'ExprM')
        body = SSeq(T, env['body'], 'tuple')
        return B.ONode(body=body, condition=env['cond'], children=(env['cond'], body))
    return _reads_spec('visit_WhileLoop', mk, lambda env: un(Reads(env['cond'].t), Rl(env['body'])),
                       lambda env: EMPTY)


def spec_writes_leaf():
    def setup(spec):
        w0 = SSet.fresh('writes', T)
        me = FR('writes', active=True, candidate_set=None, writes=w0, start=SSet.empty(T), stop=SSet.empty(T))
        o = B._fresh_tok('leaf', 'NodeM')
        ctx().assume(B.ih_node(o.t))
        env = {'me': me, 'o': o, 'w0': w0.t}
        return (me, o), {}, env

    def post(env, r):
        return [('writes-registered', sub(un(env['w0'], W(env['o'].t)), env['me'].writes.t))]
    return FunctionSpec(PROP, F, 'FindWrites.visit_LeafNode', G, setup, post, theory=T, lemmas=B.LEMMAS, budgets=BUD,
                        decode=lambda env, m, r: {'function': 'FindWrites.visit_LeafNode', 'which': None})


def spec_lcd():
    def setup(spec):
        c = ctx()
        loop = B._fresh_tok('loop', 'NodeM')
        body = B._fresh_nodes('body')
        var = B._fresh_tok('loopvar', 'SymM')
        bounds = B._fresh_tok('bounds', 'ExprM')
        v = z3.SetAdd(EMPTY, var.t)
        # abstract semantics of the loop node (appendix A.1) and the C26 contract of its attached sets
        c.assume(W(loop.t) == un(Wl(body), v))
        c.assume(R(loop.t) == un(Reads(bounds.t), z3.SetDifference(Rl(body), v)))
        c.assume(sub(R(loop.t), U(loop.t)))
        # the DO variable itself is knowingly dropped from defines (C26 known finding): only the body's writes
        c.assume(sub(z3.SetDifference(W(loop.t), v), D(loop.t)))
        env = {'loop': loop, 'body': body, 'v': v}
        return (SV(T, loop.t, cls='NodeM'),), {}, env

    def post(env, r):
        if not isinstance(r, SSet):
            return [('returns-a-set', z3.BoolVal(False))]
        carried = z3.SetDifference(z3.SetIntersect(Rl(env['body']), Wl(env['body'])), env['v'])
        return [('reports-every-carried-value', sub(carried, r.t))]
    return FunctionSpec(PROP, F, 'loop_carried_dependencies', G, setup, post, theory=T, lemmas=B.LEMMAS, budgets=BUD,
                        decode=lambda env, m, r: {'function': 'loop_carried_dependencies', 'which': None})


def specs(tier='quick'):
    own = [spec_lcd(), spec_reads_leaf(False), spec_reads_leaf(True), spec_reads_conditional(), spec_reads_loop(),
           spec_reads_while(), spec_writes_leaf()]
    # both queries are computed from the attached uses/defines sets: the C26 contracts of the transfer rules are
    # obligations of this property as well (a rule that loses a read loses a loop-carried dependency)
    inherited = B.specs(tier)
    for sp in inherited:
        sp.prop = PROP
    return own + inherited


def lemma_proofs():
    """the visit contract composes over a statement list (what Visitor.visit_tuple does: elements in order)"""
    def seq_rule():
        x = z3.Const('seq!x', V)
        rest = z3.Const('seq!rest', VL)
        C0, C1, C2, r0, r1, r2 = [z3.Const(n, SetV) for n in ('C0', 'C1', 'C2', 'r0', 'r1', 'r2')]
        hyps = [sub(un(r0, z3.SetIntersect(C0, R(x))), r1), sub(z3.SetDifference(C0, MW(x)), C1), sub(C1, C0),
                sub(un(r1, z3.SetIntersect(C1, Rl(rest))), r2), sub(z3.SetDifference(C1, MWl(rest)), C2), sub(C2, C1)]
        whole = VL.cons(x, rest)
        goal = z3.And(sub(un(r0, z3.SetIntersect(C0, Rl(whole))), r2), sub(z3.SetDifference(C0, MWl(whole)), C2),
                      sub(C2, C0))
        empty = z3.And(sub(un(r0, z3.SetIntersect(C0, Rl(VL.nil))), r0), sub(z3.SetDifference(C0, MWl(VL.nil)), C0))
        return [('base', str(check_retry([z3.Not(empty)], P_BIG))),
                ('step', str(check_retry(hyps + [z3.Not(goal)], P_BIG)))]
    return B.lemma_proofs() + [('FindReads contract composes over a statement list (visit_tuple visits in order)',
                                seq_rule)]


META = {
    'category': 'other',
    'technique': 'contract-based deductive verification (pyvc): visitor handlers executed from the real source against '
                 'the read/write semantics of C26; list composition as a lemma over the contracts',
    'level_text': 'loop_carried_dependencies is proved to report every value written in the loop body and read before '
                  'being certainly overwritten (given the C26 contract of the attached sets). Every handler the visitor '
                  'dispatch can select for FindReads (visit_LeafNode for simple and for compound SELECT/WHERE statements, '
                  'visit_Conditional, visit_Loop, visit_WhileLoop) is executed from its real source in the active phase '
                  'with a symbolic candidate set and must register every read and drop a candidate only when it is '
                  'certainly overwritten; FindWrites.visit_LeafNode registers every write; the composition over statement '
                  'lists is a lemma proved by induction.',
    'level_note': 'Trusted: pyvc engine; the C26 contract of uses_symbols/defines_symbols (induction hypothesis; its known '
                  'finding about may-defines is inherited); Visitor.visit_tuple visits the elements in order (generator '
                  'expression with side effects: not executed symbolically); GenericVisitor.lookup_method dispatch. '
                  'Unverified and named: the start/stop activation logic of visit() across an inspection point inside a nested '
                  'node, FindWrites.visit_Loop, read_after_write_vars as a composition, the consumers in transform_loop.py '
                  'and extract/outline.py.',
    'trusted_base': ['pyvc engine', 'C26 contracts (attached sets cover W and R)', 'Visitor.visit_tuple order',
                     'GenericVisitor.lookup_method'],
    'assumptions': ["a simple statement's attached defines are certain (or value-destroying) writes: MW(leaf) = defines(leaf)",
                    'FindReads._symbols_from_expr returns every variable of the expression (ASSUMED contract)',
                    'termination not proved'],
}


def bounded_checks(tier, seed):
    return B._native_corpus(PROP)
