"""C44 - parallel JIT library builds compile objects after their module dependencies (DESIGN section 4 C44, A.7).

Sequential submit/wait protocol with ghost state (no clause mentions time, so the result holds for every number of
workers and every task timing):
    HASTASK   objects whose q_task is not None          INFLIGHT  submitted compile jobs not yet waited for
    STARTED   objects whose compilation was started     SKIPPED   objects Obj.build found up to date
Obj.build(o) REQUIRES (this is the property): no dependency of o is in flight, every dependency with a source has
been started or skipped before, and o itself has not been started.  Lib.build._build_objs - the real nested function,
its three loops cut at invariants - must establish that precondition at its call of obj.build, and must leave
nothing in flight when it returns (the library is linked afterwards)."""
import z3
from pyvc import vcrt
from pyvc.runner import FunctionSpec
from pyvc.values import ClassModel, Theory, SV, SSeq, mk_bool, truth
from pyvc.containers import SSet
from pyvc.core import ctx, OutOfSubset, define_rec, check_retry, P_BIG

PROP = 'C44'
F = 'loki/jit_build/lib.py'
FO = 'loki/jit_build/obj.py'

T = Theory('jit', [ClassModel('ObjM', [], [('uid', 'Int')]), ClassModel('TaskM', [], [('owner', 'V')])])
V, VL = T.V, T.VL
SetV = z3.SetSort(V)
EMPTY = z3.EmptySet(V)
is_obj = T.recog['is_C_ObjM']
OWNER = T.acc['TaskM__owner']
DEPS = z3.Function('obj_dependencies', V, VL)           # o.obj_dependencies (set by get_dependency_graph)
NOSRC = z3.Const('objects_without_source', SetV)
_s = z3.Const('s!jit', VL)
set_of = z3.RecFunction('set_of', VL, SetV)
define_rec(set_of, [_s], z3.If(VL.is_nil(_s), EMPTY, z3.SetAdd(set_of(VL.tl(_s)), VL.hd(_s))))
all_objs = z3.RecFunction('all_objs', VL, z3.BoolSort())
define_rec(all_objs, [_s], z3.If(VL.is_nil(_s), True, z3.And(is_obj(VL.hd(_s)), all_objs(VL.tl(_s)))))
dep_first = z3.Function('dependencies_first', VL, z3.BoolSort())     # ASSUMED of reversed(topological_sort(g))


def sub(a, b):
    return z3.IsSubset(a, b)


def un(*xs):
    r = xs[0]
    for x in xs[1:]:
        r = z3.SetUnion(r, x)
    return r


def _lemmas():
    a, b = z3.Consts('a!j b!j', VL)
    ap = T.app(a, b)
    return list(T.base_lemmas) + [
        z3.ForAll([a, b], set_of(ap) == un(set_of(a), set_of(b)), patterns=[set_of(ap)]),
        z3.ForAll([a, b], all_objs(ap) == z3.And(all_objs(a), all_objs(b)), patterns=[all_objs(ap)]),
        z3.ForAll([a], set_of(T.rev(a)) == set_of(a), patterns=[set_of(T.rev(a))]),
        z3.ForAll([a], all_objs(T.rev(a)) == all_objs(a), patterns=[all_objs(T.rev(a))]),
    ]


LEMMAS = _lemmas()


class World:
    """ghost state of one run"""

    def __init__(self):
        c = ctx()
        self.hastask = c.fresh(SetV, 'HASTASK')
        self.inflight = c.fresh(SetV, 'INFLIGHT')
        self.started = EMPTY
        self.skipped = EMPTY
        c.assume(sub(self.inflight, self.hastask))

    def __vc_havoc__(self, name, assigned):
        c = ctx()
        self.hastask, self.inflight = c.fresh(SetV, 'HASTASK'), c.fresh(SetV, 'INFLIGHT')
        self.started, self.skipped = c.fresh(SetV, 'STARTED'), c.fresh(SetV, 'SKIPPED')
        return self


WORLD = [None]
STATE = {}
STATE_GLOB = {}


def _obj_props():
    cm = T.classes['ObjM']
    cm.props['source_path'] = lambda self: mk_bool(z3.Not(z3.IsMember(self.t, NOSRC)))

    def q_task(self):
        w = WORLD[0]
        if ctx().branch(z3.IsMember(self.t, w.hastask), 'has-task'):
            return SV(T, T.ctor['C_TaskM'](self.t), cls='TaskM')
        return None
    cm.props['q_task'] = q_task
    def obj_dependencies(self):
        ctx().assume(all_objs(DEPS(self.t)))        # contract of get_dependency_graph: a list of Obj nodes
        return SSeq(T, DEPS(self.t), 'list')
    cm.props['obj_dependencies'] = obj_dependencies

    def build(self, builder=None, compiler=None, logger=None, workqueue=None, force=False, include_dirs=None):
        """contract of Obj.build (its body is verified against it by spec_obj_build)"""
        c, w, o = ctx(), WORLD[0], self.t
        deps = set_of(DEPS(o))
        c.check(z3.SetIntersect(deps, w.inflight) == EMPTY, 'call:Obj.build/pre/no-dependency-in-flight')
        c.check(sub(deps, un(NOSRC, w.started, w.skipped, STATE['env']['hastask0'])),
                'call:Obj.build/pre/dependencies-built-or-up-to-date')
        c.check(z3.Not(z3.IsMember(o, w.started)), 'call:Obj.build/pre/not-started-before')
        c.check(z3.Not(z3.IsMember(o, NOSRC)), 'call:Obj.build/pre/has-source')
        STATE['build_calls'] = STATE.get('build_calls', 0) + 1
        if not ctx().branch(c.fresh(z3.BoolSort(), 'up_to_date'), 'obj-up-to-date'):
            w.started = z3.SetAdd(w.started, o)
            if workqueue is not None:
                w.hastask = z3.SetAdd(w.hastask, o)
                w.inflight = z3.SetAdd(w.inflight, o)
        else:
            w.skipped = z3.SetAdd(w.skipped, o)
        return None
    cm.methods['build'] = build


_obj_props()


def wait_and_check(task, timeout=None, logger=None):
    """ASSUMED contract: returns only when the task is complete (or there is no task)"""
    w = WORLD[0]
    if task is None:
        return None
    if isinstance(task, SV):
        if task.known_class() != 'TaskM':
            raise OutOfSubset('wait_and_check(%r)' % (task,))
        w.inflight = z3.SetDel(w.inflight, OWNER(task.t))
        return None
    raise OutOfSubset('wait_and_check(%r)' % (task,))


class _NX:
    @staticmethod
    def topological_sort(g):
        return SSeq(T, g.topo, 'list')


class Graph:
    def __init__(self, topo, nodes):
        self.topo = topo
        self.nodes = SSeq(T, nodes, 'tuple')


class _Opaque:
    def __init__(self, name):
        self._n = name

    def __repr__(self):
        return '<%s>' % self._n


def _order_facts(fs):
    """ground instance of the ASSUMED order contract at the element the loop is at: in a dependencies-first order
    every dependency of the current object, and no occurrence of the object itself, precedes it"""
    before = fs.before
    cur = fs.cur
    whole = fs.seq0.t
    return z3.Implies(dep_first(whole), z3.And(sub(set_of(DEPS(cur)), set_of(before)),
                                               z3.Not(z3.IsMember(cur, set_of(before)))))


def spec_build_objs(parallel):
    def setup(spec):
        c = ctx()
        w = WORLD[0] = World()
        STATE.clear()
        topo = c.fresh(VL, 'topological_order')
        nodes = c.fresh(VL, 'graph_nodes')
        c.assume(all_objs(topo))
        c.assume(all_objs(nodes))
        c.assume(set_of(nodes) == set_of(topo))         # ASSUMED: a topological order enumerates the graph's nodes
        c.assume(dep_first(T.rev(topo)))                # ASSUMED: reversed topological order lists dependencies first
        # start of a build: nothing of this graph is in flight (q_task is reset by Obj.__init__ in get_dependency_graph;
        # a stale q_task of a top-level object is allowed: such an object has HASTASK but is not in flight)
        c.assume(z3.SetIntersect(w.inflight, set_of(topo)) == EMPTY)
        g = Graph(topo, nodes)
        class LibTok:
            # the enclosing Lib instance (closure variable `self`): the objects listed in the library are an ARBITRARY
            # list - the dependency graph may hold objects resolved through the builder's source directories as well
            objs = SSeq(T, c.fresh(VL, 'lib_objs'), 'list')
        c.assume(all_objs(LibTok.objs.t))
        STATE_GLOB['g'].update({'self': LibTok, 'dep_graph': g, 'builder': _Opaque('builder'), 'compiler': _Opaque('compiler'),
                          'logger': _Opaque('logger'), 'force': mk_bool(c.fresh(z3.BoolSort(), 'force')),
                          'include_dirs': None})
        env = {'w': w, 'topo': topo, 'nodes': nodes, 'inflight0': w.inflight, 'hastask0': w.hastask}
        STATE['env'] = env
        queue = _Opaque('queue') if parallel else None
        return (queue,), {}, env

    def facts():
        fs = getattr(vcrt.CURRENT, 'last_for', None)
        return fs

    def inv_outer(L):
        env, w = STATE['env'], WORLD[0]
        seen = set_of(L['__seen'].t)
        allg = set_of(env['topo'])
        return {
            'processed': sub(seen, un(NOSRC, w.hastask, w.started, w.skipped)),
            'started-are-visited': sub(w.started, seen),
            'skipped-are-visited': sub(w.skipped, seen),
            'inflight-are-started': sub(z3.SetIntersect(w.inflight, allg), w.started),
            'inflight-have-tasks': sub(w.inflight, w.hastask),
            'tasks-only-grow': sub(env['hastask0'], w.hastask),
            'stale-tasks-are-not-started': sub(z3.SetDifference(z3.SetIntersect(w.hastask, allg), w.started),
                                               env['hastask0']),
            'dependencies-first-order': z3.And(dep_first(L['__seq'].t), set_of(L['__seq'].t) == allg),
            'partition': un(seen, set_of(L['__rest'].t)) == allg,
            'rest-are-objects': all_objs(L['__rest'].t),
            'serial-nothing-in-flight': (z3.BoolVal(True) if parallel else
                                         z3.SetIntersect(w.inflight, allg) == EMPTY),
        }

    def inv_deps(L):
        # inner loop over obj.obj_dependencies: the dependencies seen so far are not in flight
        env, w = STATE['env'], WORLD[0]
        out = dict(inv_outer_frozen(L))
        out['waited'] = z3.SetIntersect(set_of(L['__seen'].t), w.inflight) == EMPTY
        out['deps-covered'] = sub(set_of(DEPS(T.lift(L['obj']))), set_of(L['__seq'].t))
        out['rest-are-objects'] = all_objs(L['__rest'].t)
        return out

    def inv_outer_frozen(L):
        """what the inner loop must keep of the outer state (it only waits)"""
        env, w = STATE['env'], WORLD[0]
        allg = set_of(env['topo'])
        fs = L.get('__it1')
        seen_outer = set_of(fs.before) if fs is not None and getattr(fs, 'before', None) is not None else EMPTY
        return {
            'outer-processed': sub(seen_outer, un(NOSRC, w.hastask, w.started, w.skipped)),
            'outer-started-are-visited': sub(w.started, seen_outer),
            'outer-skipped-are-visited': sub(w.skipped, seen_outer),
            'outer-inflight-are-started': sub(z3.SetIntersect(w.inflight, allg), w.started),
            'outer-inflight-have-tasks': sub(w.inflight, w.hastask),
            'outer-tasks-only-grow': sub(env['hastask0'], w.hastask),
            'outer-stale': sub(z3.SetDifference(z3.SetIntersect(w.hastask, allg), w.started), env['hastask0']),
        }

    def inv_final(L):
        env, w = STATE['env'], WORLD[0]
        allg = set_of(env['topo'])
        return {
            'waited': z3.SetIntersect(set_of(L['__seen'].t), z3.SetIntersect(w.inflight, allg)) == EMPTY,
            'inflight-have-tasks': sub(w.inflight, w.hastask),
            'nodes': L['__seq'].t == env['nodes'],
            'handled': sub(allg, un(NOSRC, w.started, w.skipped, env['hastask0'])),
            'rest-are-objects': all_objs(L['__rest'].t),
        }

    def post(env, r):
        w = WORLD[0]
        allg = set_of(env['topo'])
        return [('nothing-in-flight-before-linking', z3.SetIntersect(w.inflight, allg) == EMPTY),
                ('every-object-with-source-handled',
                 sub(allg, un(NOSRC, w.started, w.skipped, env['hastask0'])))]

    invs = {1: inv_outer, 2: inv_deps, 3: inv_final} if parallel else {1: inv_outer, 2: inv_deps, 3: inv_final}
    G = {'nx': _NX, 'tqdm': lambda x, **kw: x, 'wait_and_check': wait_and_check, 'list': vcrt.m_list,
         'reversed': vcrt.m_reversed}
    sp = FunctionSpec(PROP, F, 'Lib.build._build_objs', G, setup, post, invariants=invs, theory=T, lemmas=LEMMAS,
                      variant='workers>1' if parallel else 'serial', budgets=(6_000_000, 3_000_000, 4_000_000, 20_000_000, 4_000_000, 20000),
                      decode=lambda env, m, r: {'function': '_build_objs', 'parallel': parallel})
    # the order assumption is instantiated where the loop takes its next element
    orig_hook = sp.fn_hook

    def fn_hook(fn, glob):
        STATE_GLOB['g'] = fn.__globals__
        rt = glob['__vc']
        orig_next = rt.for_next

        def for_next(fs):
            x = orig_next(fs)
            if fs.n == 1:
                ctx().assume(_order_facts(fs))
            return x
        rt.for_next = for_next
        orig_havoc = rt.for_havoc

        def for_havoc(n, fs):
            orig_havoc(n, fs)
            WORLD[0].__vc_havoc__('ghost', True)        # the ghost state is part of every loop's frame
        rt.for_havoc = for_havoc
        return fn
    sp.fn_hook = fn_hook
    return sp


# ---- Builder.get_dependency_graph and Obj.dependencies (what _build_objs assumes about the graph) -------------------
BLD = 'loki/jit_build/builder.py'
from pyvc.inline import inline      # noqa: E402  pylint: disable=wrong-import-position
import itertools                    # noqa: E402  pylint: disable=wrong-import-position


class _ObjTok:
    """an Obj instance; instances are cached by name like the real class (Obj(name=x) returns the same object)"""
    cache = {}

    def __new__(cls, name=None, **kw):
        if name not in cls.cache:
            o = object.__new__(cls)
            o.name, o.obj_dependencies = name, 'UNSET'
            cls.cache[name] = o
        return cls.cache[name]

    def __repr__(self):
        return '<Obj %s>' % self.name


class _DiGraph:
    def __init__(self):
        self.nodes_, self.edges_ = [], []

    def add_nodes_from(self, ns):
        for n in ns:                        # networkx keeps one node per hashable object
            if n not in self.nodes_:
                self.nodes_.append(n)

    def add_edges_from(self, es):
        self.edges_ += list(es)


def _sha2(file, qual):
    import ast
    from pyvc import rewrite
    src = rewrite.read_source(file)
    node, _ = rewrite.find_def(ast.parse(src), qual)
    return rewrite.sha(rewrite.func_text(src, node))


def spec_dependency_graph(n):
    """all dependency DAGs on n named objects (edges only from lower to higher index: acyclic), every ordering of every
    non-empty subset as the root list: BOUNDED exhaustive through the real function"""
    from collections import deque
    fn = inline(BLD, 'Builder.get_dependency_graph',
                {'deque': deque, 'as_tuple': lambda x: tuple(x) if isinstance(x, (list, tuple)) else (x,), 'Obj': _ObjTok,
                 'attrgetter': None, 'nx': type('nx', (), {'DiGraph': _DiGraph})})

    def setup(spec):
        env = {}
        return (env,), {}, env

    def run(env):
        names = ['o%d' % i for i in range(n)]
        pairs = [(i, j) for i in range(n) for j in range(i + 1, n)]
        bad, count = [], 0
        for mask in range(2 ** len(pairs)):
            deps = {nm: [] for nm in names}
            for k, (i, j) in enumerate(pairs):
                if mask >> k & 1:
                    deps[names[i]].append(names[j])
            for r in range(1, n + 1):
                for roots in itertools.permutations(names, r):
                    count += 1
                    _ObjTok.cache = {}
                    objs = [_ObjTok(name=x) for x in roots]
                    vcrt.CURRENT.loop_counts = {}       # concrete iterations are counted per call
                    g = fn(objs, depgen=lambda o: tuple(deps[o.name]))
                    reach, todo = [], list(roots)
                    while todo:
                        x = todo.pop()
                        if x not in reach:
                            reach.append(x)
                            todo += deps[x]
                    problems = []
                    if sorted(o.name for o in g.nodes_) != sorted(reach):
                        problems.append('nodes are not the reachable objects')
                    if sorted(set((a.name, b.name) for a, b in g.edges_)) != sorted((x, d) for x in reach for d in deps[x]):
                        problems.append('edges are not the dependencies')
                    for x in reach:
                        od = _ObjTok.cache[x].obj_dependencies
                        if od == 'UNSET' or [o.name for o in od] != deps[x]:
                            problems.append('obj_dependencies of %s is %r, dependencies are %r' % (x, od, deps[x]))
                    if problems and len(bad) < 3:
                        bad.append({'dependencies': deps, 'roots': list(roots), 'problems': problems[:2]})
        return {'bad': bad, 'count': count}

    def post(env, r):
        return [('graph-and-wait-lists-match-the-dependencies' + ('' if not r['bad'] else ' [e.g. %s]' % (r['bad'][0],)),
                 z3.BoolVal(not r['bad'])), ('cases-enumerated', z3.BoolVal(r['count'] > 0))]
    sp = FunctionSpec(PROP, BLD, 'Builder.get_dependency_graph', {}, setup, post, theory=T, lemmas=[], ext=False,
                      variant='all DAGs on %d objects, all root lists' % n,
                      decode=lambda env, m, r: {'function': 'get_dependency_graph'},
                      notes=['bounded: exhaustive over the DAGs on %d objects' % n])
    sp.fn_override = run
    sp.fn_info = {'file': BLD, 'qualname': 'Builder.get_dependency_graph', 'sha': _sha2(BLD, 'Builder.get_dependency_graph'),
                  'loops': {}, 'dropped': []}
    return sp


def spec_obj_dependencies(uses, includes, header_kind):
    class PathM:
        def __init__(self, p):
            self.p = str(p)

        @property
        def stem(self):
            base = self.p.split('/')[-1]
            return base.rsplit('.', 1)[0] if '.' in base else base

    class Header:
        def __init__(self, name=None):
            self.name = name
            self.source_path = None if header_kind == 'missing' else 'inc/%s.h' % name
            self.uses = [] if header_kind == 'plain' else ['%s_kinds' % name, 'shared_mod']
    fn = inline(FO, 'Obj.dependencies', {'Path': PathM, 'Header': Header,
                                         'flatten': lambda it: [y for x in it for y in (x if isinstance(x, (list, tuple)) else [x])],
                                         'as_tuple': lambda x: tuple(x), 'dict': dict})

    def setup(spec):
        env = {}
        return (env,), {}, env

    def run(env):
        me = type('O', (), {})()
        me.source, me.uses, me.includes = 'SOURCE', list(uses), list(includes)
        return fn(me)

    def post(env, r):
        want = list(uses)
        if header_kind == 'uses':
            for inc in includes:
                stem = inc.split('/')[-1].rsplit('.', 1)[0]
                if '.intfb' in stem:
                    stem = stem.rsplit('.', 1)[0]
                want += ['%s_kinds' % stem, 'shared_mod']
        want = list(dict.fromkeys(want))
        ok = isinstance(r, tuple) and list(r) == want
        return [('dependencies-are-own-uses-plus-modules-used-by-included-headers', z3.BoolVal(ok))]
    sp = FunctionSpec(PROP, FO, 'Obj.dependencies', {}, setup, post, theory=T, lemmas=[], ext=False,
                      variant='uses=%s includes=%s headers:%s' % (list(uses), list(includes), header_kind),
                      decode=lambda env, m, r: {'function': 'Obj.dependencies'})
    sp.fn_override = run
    sp.fn_info = {'file': FO, 'qualname': 'Obj.dependencies', 'sha': _sha2(FO, 'Obj.dependencies'), 'loops': {}, 'dropped': []}
    return sp


def specs(tier='quick'):
    out = [spec_build_objs(True), spec_build_objs(False), spec_dependency_graph(2), spec_dependency_graph(3),
           spec_dependency_graph(4)]
    for uses in ((), ('m1',), ('m1', 'shared_mod')):
        for includes in ((), ('iface.intfb.h',), ('a.h', 'dir/b.intfb.h')):
            for hk in ('uses', 'plain', 'missing'):
                out.append(spec_obj_dependencies(uses, includes, hk))
    return out


def lemma_proofs():
    b = z3.Const('ind!b', VL)
    x, r = z3.Const('ind!x', V), z3.Const('ind!r', VL)
    ap = T.app
    stmts = {
        'set_of(app(a,b)) == set_of(a) | set_of(b)': lambda a: set_of(ap(a, b)) == un(set_of(a), set_of(b)),
        'all_objs(app(a,b))': lambda a: all_objs(ap(a, b)) == z3.And(all_objs(a), all_objs(b)),
    }
    app_l = [z3.ForAll([z3.Const('a!q', VL), b], set_of(ap(z3.Const('a!q', VL), b)) ==
                       un(set_of(z3.Const('a!q', VL)), set_of(b)), patterns=[set_of(ap(z3.Const('a!q', VL), b))]),
             z3.ForAll([z3.Const('a!q', VL), b], all_objs(ap(z3.Const('a!q', VL), b)) ==
                       z3.And(all_objs(z3.Const('a!q', VL)), all_objs(b)), patterns=[all_objs(ap(z3.Const('a!q', VL), b))])]
    rev_stmts = {
        'set_of(rev(a)) == set_of(a)': lambda a: set_of(T.rev(a)) == set_of(a),
        'all_objs(rev(a)) == all_objs(a)': lambda a: all_objs(T.rev(a)) == all_objs(a),
    }
    out = []
    for name, stmt in stmts.items():
        def thunk(stmt=stmt):
            res = []
            for tag, hyps, goal in (('base', [], stmt(VL.nil)), ('step', [stmt(r)], stmt(VL.cons(x, r)))):
                res.append((tag, str(check_retry(list(hyps) + [z3.Not(goal)], P_BIG))))
            return res
        out.append(('list lemma: ' + name, thunk))
    for name, stmt in rev_stmts.items():
        def thunk2(stmt=stmt):
            res = []
            for tag, hyps, goal in (('base', [], stmt(VL.nil)), ('step', [stmt(r)], stmt(VL.cons(x, r)))):
                res.append((tag, str(check_retry(app_l + list(hyps) + [z3.Not(goal)], P_BIG))))
            return res
        out.append(('list lemma (uses the append lemmas): ' + name, thunk2))
    return T.base_lemma_proofs() + out


META = {
    'category': 'other',
    'technique': 'contract-based deductive verification (pyvc): sequential submit/wait protocol with ghost sets and three '
                 'loop invariants; native adversarial-schedule harness as replay',
    'level_text': 'The real nested function Lib.build._build_objs is executed symbolically for an arbitrary dependency '
                  'graph, in the parallel (work queue) and the serial mode: at its call of Obj.build it must establish the '
                  'precondition "no dependency is in flight, every dependency with a source was submitted or found up to '
                  'date before, this object was not submitted before" (which is the property), and when it returns (before '
                  'linking) nothing may be in flight and every object with a source was handled. No clause mentions time, '
                  'so the result covers every worker count and every task timing. Every obligation is discharged; the '
                  'list lemmas are proved by induction on every run.',
    'level_note': 'ASSUMED contracts: nx.topological_sort enumerates the graph nodes once with edge sources first (so its '
                  'reverse lists dependencies first); wait_and_check returns only when the task has completed; '
                  'Obj.build is used through its contract (skip if up to date, else submit to the queue or compile '
                  'synchronously) and its body is not verified; stale q_task values from an earlier build of the same Obj '
                  'instances count as completed. "Produces the same library as a serial build" is the compiler and linker '
                  '(named, outside). Bounded, never counted as proved: Builder.get_dependency_graph (real source) is run on '
                  'every dependency DAG with up to 4 objects and every root list - nodes = reachable objects, one edge per '
                  'dependency, every object\'s obj_dependencies (the wait list) = its dependencies; Obj.dependencies (real '
                  'source) on 27 combinations of own USEs, included headers and header content. Level other, not proof: '
                  'the trusted contracts above carry part of the property. The closure variable `self` of _build_objs is an arbitrary Lib whose object list need not cover the dependency graph (objects resolved through the builder\'s source directories).',
    'trusted_base': ['pyvc engine', 'networkx.topological_sort (external)', 'concurrent.futures Future.result (external)',
                     'contract of Obj.build', 'contract of Builder.get_dependency_graph'],
    'assumptions': ['tasks of an earlier build of the same Obj instances have completed',
                    'tqdm(iterable) iterates the iterable', 'termination not proved'],
}


def bounded_checks(tier, seed):
    """native adversarial-schedule harness (replay/C44.py): real Lib.build / Obj.build / get_dependency_graph on four
    small DAGs with futures that complete only when waited for; bounded, never counted as proved"""
    import json
    import os
    import subprocess
    root = os.path.dirname(os.path.dirname(os.path.abspath(__file__)))
    repo = os.environ.get('LOKI_REPO', '/repo')
    p = subprocess.run([os.environ.get('LOKI_PYTHON', '/venv/bin/python'), os.path.join(root, 'replay', 'C44.py'),
                        '--corpus'], capture_output=True, text=True, timeout=1800,
                       env=dict(os.environ, PYTHONPATH=repo), cwd=repo)
    line = next((l for l in reversed(p.stdout.splitlines()) if l.startswith('[')), None)
    rule = ('4 module-dependency DAGs x {1, 3} workers, plus 3 libraries that list only their top-level object (the rest is '
            'resolved through the builder source directory); every compile job completes only when it is waited for; the '
            'property is checked at every submission and at link time')
    if line is None:
        return [{'name': 'native/driver', 'cases': 0, 'violation': False, 'error': p.stderr[-600:], 'rule': rule}]
    return [{'name': r['name'], 'cases': 1, 'distinct': 1, 'rule': rule, 'bound': 'fixed corpus of DAGs',
             'violation': bool(r['violation']), 'cex': r} for r in json.loads(line)]
