"""Algebraic encoding of multiplication and division (DESIGN 3.6 step 4a).

z3 stalls (and ignores budgets) when RecFunction unfolding meets nonlinear arithmetic.  The value
semantics therefore uses *uninterpreted* mulZ/divZ/mulR/divR in proofs, constrained only by LAWS - each law
is a lemma about the interpreted operation and is proved on pure arithmetic on every run (law_proofs) - and
the interpreted definitions are substituted back (interp) for counterexample search.  A proof found with the
laws alone is valid for the interpreted operations; a counterexample is only accepted on the interpreted ones.

divZ(a, b): Fortran integer division, truncation toward zero; total by divZ(a, 0) = 0
divR(a, b): real division; total by divR(a, 0) = 0
(the property's quantifier excludes zero divisors: wf() demands every divisor to be non-zero)
"""
import z3

I, R = z3.IntSort(), z3.RealSort()
mulZ = z3.Function('mulZ', I, I, I)
divZ = z3.Function('divZ', I, I, I)
mulR = z3.Function('mulR', R, R, R)
divR = z3.Function('divR', R, R, R)


def tdiv(a, b):
    """interpreted truncating division (b != 0)"""
    return z3.If(a >= 0, z3.If(b > 0, a / b, -(a / (-b))), z3.If(b > 0, -((-a) / b), (-a) / (-b)))


def _num(t):
    return z3.is_int_value(t) or z3.is_rational_value(t)


def MUL(m, a, b):
    """product term in mode m ('Z'/'R'); stays interpreted (linear) when a factor is a numeral"""
    if _num(a) or _num(b):
        return a * b
    return (mulZ if m == 'Z' else mulR)(a, b)


def DIV(m, a, b):
    return (divZ if m == 'Z' else divR)(a, b)


DECL_MAP = {}       # name -> (algebraic RecFunction decl, interpreted twin); registered by contracts/exprs.py


def interp(t, cache=None):
    """substitute the interpreted operations for the uninterpreted ones (and the interpreted twins for the
    spec functions defined with them)"""
    if cache is None:
        cache = {}
    i = t.get_id()
    r = cache.get(i)
    if r is not None:
        return r
    if z3.is_quantifier(t) or not z3.is_app(t) or t.num_args() == 0:
        r = t
    else:
        args = [interp(a, cache) for a in t.children()]
        d = t.decl()
        if d.eq(mulZ) or d.eq(mulR):
            r = args[0] * args[1]
        elif d.eq(divZ):
            r = z3.If(args[1] == 0, 0, tdiv(args[0], args[1]))
        elif d.eq(divR):
            r = z3.If(args[1] == 0, z3.RealVal(0), args[0] / args[1])
        elif d.name() in DECL_MAP and DECL_MAP[d.name()][0].eq(d):
            r = DECL_MAP[d.name()][1](*args)
        else:
            try:
                r = d(*args)
            except z3.Z3Exception:
                r = t
    cache[i] = r
    return r


def _laws(m):
    S = I if m == 'Z' else R
    mul, div = (mulZ, divZ) if m == 'Z' else (mulR, divR)
    a, b, c = [z3.Const('%s!law%s' % (n, m), S) for n in 'abc']
    L = []

    def law(name, vs, body, pats):
        L.append((name + '[' + m + ']', z3.ForAll(vs, body, patterns=pats), vs, body))
    law('mul-comm', [a, b], mul(a, b) == mul(b, a), [mul(a, b)])
    law('mul-assoc', [a, b, c], mul(mul(a, b), c) == mul(a, mul(b, c)), [mul(mul(a, b), c)])
    law('mul-assoc2', [a, b, c], mul(a, mul(b, c)) == mul(mul(a, b), c), [mul(a, mul(b, c))])
    law('mul-one', [a, b], z3.Implies(a == 1, mul(a, b) == b), [mul(a, b)])
    law('mul-zero', [a, b], z3.Implies(a == 0, mul(a, b) == 0), [mul(a, b)])
    law('mul-minus-one', [a, b], z3.Implies(a == -1, mul(a, b) == -b), [mul(a, b)])
    law('mul-one-r', [a, b], z3.Implies(b == 1, mul(a, b) == a), [mul(a, b)])
    law('mul-zero-r', [a, b], z3.Implies(b == 0, mul(a, b) == 0), [mul(a, b)])
    law('mul-minus-one-r', [a, b], z3.Implies(b == -1, mul(a, b) == -a), [mul(a, b)])
    # sign laws with *semantic* triggers: fire for any two products / quotients whose operands are negatives
    law('mul-neg', [a, b, c], z3.Implies(c == -a, mul(c, b) == -mul(a, b)), [z3.MultiPattern(mul(c, b), mul(a, b))])
    law('mul-neg2', [a, b, c], z3.Implies(c == -b, mul(a, c) == -mul(a, b)), [z3.MultiPattern(mul(a, c), mul(a, b))])
    law('mul-distr', [a, b, c], mul(a, b + c) == mul(a, b) + mul(a, c), [mul(a, b + c)])
    law('mul-distr-l', [a, b, c], mul(b + c, a) == mul(b, a) + mul(c, a), [mul(b + c, a)])
    law('mul-nonzero', [a, b], (mul(a, b) == 0) == z3.Or(a == 0, b == 0), [mul(a, b)])
    law('div-zero-num', [a, b], z3.Implies(a == 0, div(a, b) == 0), [div(a, b)])
    law('div-one', [a, b], z3.Implies(b == 1, div(a, b) == a), [div(a, b)])
    law('div-neg-num', [a, b, c], z3.Implies(c == -a, div(c, b) == -div(a, b)), [z3.MultiPattern(div(c, b), div(a, b))])
    law('div-neg-den', [a, b, c], z3.Implies(c == -b, div(a, c) == -div(a, b)), [z3.MultiPattern(div(a, c), div(a, b))])
    law('div-self-mul', [a, b], z3.Implies(b != 0, div(mul(a, b), b) == a), [div(mul(a, b), b)])
    law('div-zero-den', [a, b], z3.Implies(b == 0, div(a, b) == 0), [div(a, b)])
    if m == 'R':
        law('div-div', [a, b, c], div(div(a, b), c) == div(a, mul(b, c)), [div(div(a, b), c)])
        law('div-distr', [a, b, c], div(a + b, c) == div(a, c) + div(b, c), [div(a + b, c)])
        # closed forms (semantic triggers, create no new terms => safe as quantified lemmas)
        d = z3.Const('d!law' + m, S)
        law('div-distr-closed', [a, b, c, d], z3.Implies(d == a + b, div(d, c) == div(a, c) + div(b, c)),
            [z3.MultiPattern(div(d, c), div(a, c), div(b, c))])
        law('div-div-closed', [a, b, c, d], z3.Implies(d == div(a, b), div(d, c) == div(a, mul(b, c))),
            [z3.MultiPattern(div(d, c), div(a, b), mul(b, c))])
        law('div-mul', [a, b, c], div(mul(a, b), c) == mul(a, div(b, c)), [div(mul(a, b), c)])
        law('mul-div-cancel', [a, b], z3.Implies(b != 0, mul(div(a, b), b) == a), [mul(div(a, b), b)])
    else:
        law('div-exact-mul', [a, b, c], z3.Implies(c != 0, div(mul(a, c), mul(b, c)) == div(a, b)),
            [div(mul(a, c), mul(b, c))])
    return L


LAWS = {'Z': _laws('Z'), 'R': _laws('R')}
_PROVED = {}


def prove_laws(m, budget=30_000_000):
    """each law, on the *interpreted* operations, by z3 on pure arithmetic (cvc5 second).  Returns
    [(name, verdict)] ; a law that is not proved is not used (and reported)."""
    import subprocess
    out = []
    for name, q, vs, body in LAWS[m]:
        if name in _PROVED:
            out.append((name, _PROVED[name]))
            continue
        s = z3.Solver()
        s.set('rlimit', budget)
        s.set('timeout', 30000)
        s.add(z3.Not(interp(body)))
        v = str(s.check())
        if v != 'unsat':
            try:
                p = subprocess.run(['/usr/bin/cvc5', '--lang=smt2', '--tlimit=20000', '--nl-ext-tplanes'],
                                   input='(set-logic ALL)\n' + s.to_smt2(), capture_output=True, text=True, timeout=30)
                if p.stdout.strip().startswith('unsat'):
                    v = 'unsat'
            except Exception:       # pylint: disable=broad-except
                pass
        _PROVED[name] = v
        out.append((name, v))
    return out


# laws whose E-matching instantiation does not terminate (AC, distributivity): never given to the solver as
# quantifiers; instantiated by pyvc on the terms of the obligation only (one round)
LOOPING = ('mul-nonzero', 'mul-comm', 'mul-assoc', 'mul-assoc2', 'mul-distr', 'mul-distr-l', 'div-distr', 'div-div', 'div-mul',
           'div-exact-mul')


def _is_looping(name):
    return name.split('[')[0] in LOOPING


def usable_laws(m):
    """proved, non-looping laws (safe as quantified lemmas)"""
    res = dict(prove_laws(m))
    return [q for name, q, vs, body in LAWS[m] if res.get(name) == 'unsat' and not _is_looping(name)]


def looping_laws(m):
    res = dict(prove_laws(m))
    return [q for name, q, vs, body in LAWS[m] if res.get(name) == 'unsat' and _is_looping(name)]


def hints(m, terms, rounds=1, limit=300):
    """ground instances of the looping laws on the terms of an obligation (proof pass)"""
    from pyvc.core import ground_instances
    return ground_instances(looping_laws(m), terms, rounds=rounds, limit=limit)


def def_axioms(m):
    """the definitions themselves as quantified axioms (for theories that want the interpreted meaning in
    proofs, e.g. C10 where the specification is stated with interpreted integer arithmetic)"""
    S = I if m == 'Z' else R
    mul, div = (mulZ, divZ) if m == 'Z' else (mulR, divR)
    a, b = [z3.Const('%s!def%s' % (n, m), S) for n in 'ab']
    return [z3.ForAll([a, b], mul(a, b) == a * b, patterns=[mul(a, b)]),
            z3.ForAll([a, b], div(a, b) == interp(div(a, b)), patterns=[div(a, b)])]
