"""Expression theory shared by C06/C08/C09/C10: class model of loki/pymbolic expression nodes over the
universal value sort, value semantics val_Z (integers, truncating division) and val_R (reals), and the
trusted models of the few external helpers the simplifier calls."""
import z3
from pyvc import values, vcrt
from pyvc.values import ClassModel, Theory, SV, SSeq, SInt, SReal, SStr, SBool, mk_int, mk_bool, mk_str, truth
from pyvc.core import define_rec, ctx, OutOfSubset

CM = ClassModel

# ---- class model (bases in MRO order; fields None => abstract) ----------------------------------
_classes = [
    CM('Expression'), CM('AlgebraicLeaf', ['Expression']), CM('Leaf', ['AlgebraicLeaf']),
    CM('StrCompareMixin'), CM('_Literal', ['Leaf']),
    CM('P_MultiChild', ['Expression']),
    CM('P_Sum', ['P_MultiChild'], [('children', 'VL')]),
    CM('P_Product', ['P_MultiChild'], [('children', 'VL')]),
    CM('P_QuotientBase', ['Expression']),
    CM('P_Quotient', ['P_QuotientBase'], [('numerator', 'V'), ('denominator', 'V')]),
    CM('P_Power', ['Expression'], [('base', 'V'), ('exponent', 'V')]),
    CM('IntLiteral', ['StrCompareMixin', '_Literal'], [('value', 'Int'), ('kind', 'V')]),
    CM('FloatLiteral', ['StrCompareMixin', '_Literal'], [('value', 'Str'), ('kind', 'V')]),
    CM('LogicLiteral', ['StrCompareMixin', '_Literal'], [('value', 'Bool')]),
    CM('StringLiteral', ['StrCompareMixin', '_Literal'], [('value', 'Str')]),
    CM('Sum', ['StrCompareMixin', 'P_Sum'], [('children', 'VL')]),
    CM('Product', ['StrCompareMixin', 'P_Product'], [('children', 'VL')]),
    CM('Quotient', ['StrCompareMixin', 'P_Quotient'], [('numerator', 'V'), ('denominator', 'V')]),
    CM('Power', ['StrCompareMixin', 'P_Power'], [('base', 'V'), ('exponent', 'V')]),
    CM('ParenthesisedAdd', ['Sum'], [('children', 'VL')]),
    CM('ParenthesisedMul', ['Product'], [('children', 'VL')]),
    CM('ParenthesisedDiv', ['Quotient'], [('numerator', 'V'), ('denominator', 'V')]),
    CM('ParenthesisedPow', ['Power'], [('base', 'V'), ('exponent', 'V')]),
    CM('Comparison', ['StrCompareMixin', 'Expression'], [('operator', 'Str'), ('left', 'V'), ('right', 'V')]),
    CM('LogicalAnd', ['StrCompareMixin', 'P_MultiChild'], [('children', 'VL')]),
    CM('LogicalOr', ['StrCompareMixin', 'P_MultiChild'], [('children', 'VL')]),
    CM('LogicalNot', ['StrCompareMixin', 'Expression'], [('child', 'V')]),
    CM('Range', ['StrCompareMixin', 'Expression']),
    CM('RangeIndex', ['Range'], [('start', 'V'), ('stop', 'V'), ('step', 'V')]),
    CM('LoopRange', ['Range'], [('start', 'V'), ('stop', 'V'), ('step', 'V')]),
    CM('MetaSymbol', ['StrCompareMixin', 'AlgebraicLeaf']),
    CM('Scalar', ['MetaSymbol'], [('name', 'Str'), ('initial', 'V')]),
    CM('Array', ['MetaSymbol'], [('name', 'Str'), ('dimensions', 'VL')]),
    CM('OtherExpr', ['StrCompareMixin', 'Expression'], [('uid', 'Int')]),   # any other expression node (opaque)
]

T = Theory('expr', _classes)
V, VL = T.V, T.VL
C = T.classes

SUMS = ('P_Sum', 'Sum', 'ParenthesisedAdd')
PRODS = ('P_Product', 'Product', 'ParenthesisedMul')
QUOTS = ('P_Quotient', 'Quotient', 'ParenthesisedDiv')
POWS = ('P_Power', 'Power', 'ParenthesisedPow')


def is_any(t, names):
    return z3.Or([T.recog['is_C_' + n](t) for n in names])


def field(t, names, f):
    """accessor of field f for whichever of the classes `names` t is"""
    r = None
    for n in reversed(names):
        a = T.acc['%s__%s' % (n, f)](t)
        r = a if r is None else z3.If(T.recog['is_C_' + n](t), a, r)
    return r


from . import arith                     # noqa: E402
from .arith import tdiv, MUL, DIV       # noqa: E402


# uninterpreted pieces of the semantics
leafZ = z3.Function('leafZ', V, z3.IntSort())        # value of an opaque leaf / node under the (implicit) valuation
leafR = z3.Function('leafR', V, z3.RealSort())
powZ = z3.Function('powZ', z3.IntSort(), z3.IntSort(), z3.IntSort())
powR = z3.Function('powR', z3.RealSort(), z3.RealSort(), z3.RealSort())
realof = z3.Function('realof', z3.StringSort(), z3.RealSort())     # value denoted by a Fortran real literal text
realstr = z3.Function('realstr', z3.RealSort(), z3.StringSort())   # Python str(float)
div0Z = z3.Function('div0Z', z3.IntSort(), z3.IntSort())

_v = z3.Const('v!val', V)
_l = z3.Const('l!val', VL)


class Mode:
    """Value semantics: 'Z' integers with truncating division, 'R' reals.  Each exists in two encodings of
    multiplication/division (contracts/arith.py): algebraic (uninterpreted + proved laws; used by proofs) and
    interpreted (used for counterexample search, and by C10 whose specification is plain integer arithmetic).
    arith.interp() maps the algebraic spec functions to their interpreted twins."""

    def __init__(self, m, interpreted=False):
        self.m, self.interpreted = m, interpreted
        sfx = m + ('i' if interpreted else '')
        S = z3.IntSort() if m == 'Z' else z3.RealSort()
        self.S = S
        self.val = z3.RecFunction('val' + sfx, V, S)
        self.sumv = z3.RecFunction('sum' + sfx, VL, S)
        self.prodv = z3.RecFunction('prod' + sfx, VL, S)
        val, sumv, prodv = self.val, self.sumv, self.prodv
        pw = powZ if m == 'Z' else powR
        leaf = leafZ if m == 'Z' else leafR
        num = (lambda t: t) if m == 'Z' else z3.ToReal
        quot = self.div(val(field(_v, QUOTS, 'numerator')), val(field(_v, QUOTS, 'denominator')))
        tail = z3.If(is_any(_v, SUMS), sumv(field(_v, SUMS, 'children')),
               z3.If(is_any(_v, PRODS), prodv(field(_v, PRODS, 'children')),
               z3.If(is_any(_v, QUOTS), quot,
               z3.If(is_any(_v, POWS), pw(val(field(_v, POWS, 'base')), val(field(_v, POWS, 'exponent'))),
                     leaf(_v)))))
        if m == 'Z':
            body = z3.If(V.is_VInt(_v), V.ival(_v),
                   z3.If(V.is_VBool(_v), z3.If(V.bval(_v), 1, 0),
                   z3.If(T.recog['is_C_IntLiteral'](_v), T.acc['IntLiteral__value'](_v), tail)))
        else:
            body = z3.If(V.is_VInt(_v), z3.ToReal(V.ival(_v)),
                   z3.If(V.is_VBool(_v), z3.If(V.bval(_v), z3.RealVal(1), z3.RealVal(0)),
                   z3.If(V.is_VReal(_v), V.rval(_v),
                   z3.If(T.recog['is_C_IntLiteral'](_v), z3.ToReal(T.acc['IntLiteral__value'](_v)),
                   z3.If(T.recog['is_C_FloatLiteral'](_v), realof(T.acc['FloatLiteral__value'](_v)), tail)))))
        define_rec(val, [_v], body)
        define_rec(sumv, [_l], z3.If(VL.is_nil(_l), 0, val(VL.hd(_l)) + sumv(VL.tl(_l))))
        define_rec(prodv, [_l], z3.If(VL.is_nil(_l), 1, self.mul(val(VL.hd(_l)), prodv(VL.tl(_l)))))

    def mul(self, a, b):
        if self.interpreted:
            return a * b
        return MUL(self.m, a, b)

    def div(self, a, b):
        if self.interpreted:
            return arith.interp(DIV(self.m, a, b))
        return DIV(self.m, a, b)

    def num(self, x):
        """python/proxy number -> term of the mode's sort"""
        if self.m == 'Z':
            return values.as_int_term(x)
        return values.as_real_term(x)

    def lemmas(self):
        a, b = z3.Consts('a!lem b!lem', VL)
        return list(T.base_lemmas) + [
            z3.ForAll([a, b], self.sumv(T.app(a, b)) == self.sumv(a) + self.sumv(b), patterns=[self.sumv(T.app(a, b))]),
        ]

    def laws(self):
        return [] if self.interpreted else arith.usable_laws(self.m)

    def hints(self, terms):
        return [] if self.interpreted else arith.hints(self.m, terms)


MZ, MR = Mode('Z'), Mode('R')
MZI, MRI = Mode('Z', True), Mode('R', True)
valZ, sumZ, prodZ, valR, sumR, prodR = MZ.val, MZ.sumv, MZ.prodv, MR.val, MR.sumv, MR.prodv
for _a, _i in ((MZ, MZI), (MR, MRI)):
    for _n in ('val', 'sumv', 'prodv'):
        arith.DECL_MAP[getattr(_a, _n).name()] = (getattr(_a, _n), getattr(_i, _n))



def all_divisors_nonzero_axiom():
    """property quantifier: 'all variable valuations with non-zero divisors' - under val_Z a zero divisor
    is mapped to the uninterpreted div0Z so nothing can be concluded from it (no assumption needed)."""
    return []


# ---- python-level behaviour of model instances -----------------------------------------------------

def _children_prop(names):
    return lambda self: SSeq(T, z3.simplify(field(self.t, names, 'children')), 'tuple')


def _range_children(self):
    k = self.cls
    return (T.lower(T.acc[k + '__start'](self.t)), T.lower(T.acc[k + '__stop'](self.t)),
            T.lower(T.acc[k + '__step'](self.t)))


for _n in ('RangeIndex', 'LoopRange'):
    C[_n].props['children'] = _range_children
    C[_n].props['lower'] = lambda self: getattr(self, 'start')
    C[_n].props['upper'] = lambda self: getattr(self, 'stop')


def _range_new(cls, children, **kw):
    children = tuple(children)
    assert len(children) in (2, 3)
    if len(children) == 2:
        children += (None,)
    return T.construct(cls, *children)


C['RangeIndex'].methods['__new__'] = _range_new
C['LoopRange'].methods['__new__'] = _range_new


def _multi_new(cls, children, **kw):
    return T.construct(cls, children)


def _lit_new(cls, value, **kw):
    kind = kw.get('kind', None)
    if cls.name == 'IntLiteral':
        return T.construct(cls, vcrt.m_int(value), kind)
    if cls.name == 'FloatLiteral':
        return T.construct(cls, float_str(value), kind)
    if cls.name == 'LogicLiteral':
        if isinstance(value, (bool, SBool)):
            return T.construct(cls, value)
        if isinstance(value, str):
            return T.construct(cls, value.lower() in ('true', '.true.'))
        raise OutOfSubset('LogicLiteral(%r)' % (value,))
    return T.construct(cls, value)


for _n in ('IntLiteral', 'FloatLiteral', 'LogicLiteral', 'StringLiteral'):
    C[_n].methods['__new__'] = _lit_new


def float_str(x):
    """python str() of the value handed to FloatLiteral"""
    if isinstance(x, (SStr, str)):
        return x
    if isinstance(x, SReal):
        return mk_str(realstr(x.t))
    if isinstance(x, (SInt, int)):
        return vcrt.m_str(x)
    if isinstance(x, float):
        return repr(x)
    raise OutOfSubset('FloatLiteral(%r)' % (x,))


def Literal(value, **kw):
    """trusted model of loki.expression.literals.Literal.__new__ for python numbers (cross-checked by
    replay/model_crosscheck): int -> IntLiteral, float -> FloatLiteral"""
    if isinstance(value, SV):
        value = value.resolve()
    if isinstance(value, (bool, SBool)):
        return C['IntLiteral'](value, **kw)
    if isinstance(value, (int, SInt)):
        return C['IntLiteral'](value, **kw)
    if isinstance(value, (float, SReal)):
        return C['FloatLiteral'](value, **kw)
    raise OutOfSubset('Literal(%r)' % (value,))


def str_to_real(x):
    return SReal(realof(values.as_str_term(x)))


T.str_to_real = str_to_real

REAL_AXIOMS = []
_r = z3.Real('r!ax')
REAL_AXIOMS.append(z3.ForAll([_r], realof(realstr(_r)) == _r, patterns=[realstr(_r)]))


def as_tuple(item, type=None, length=None):        # pylint: disable=redefined-builtin
    """trusted model of loki.tools.as_tuple restricted to what the expression code passes"""
    if item is None:
        return ()
    if isinstance(item, (str, SStr)):
        return (item,)
    if isinstance(item, SV):
        r = item.resolve(['VTuple', 'VList', 'VNone'])
        if r is item:
            return (item,)
        item = r
        if item is None:
            return ()
    if isinstance(item, SSeq):
        return vcrt.m_tuple(item)
    if isinstance(item, (list, tuple)):
        return tuple(item)
    return (item,)


def fresh_expr(name='e'):
    """an arbitrary *expression operand*: python int/float or an Expression instance"""
    t = ctx().fresh(V, name)
    ctx().assume(z3.Or(V.is_VInt(t), is_expression(t)))
    return SV(T, t)


def is_expression(t):
    return z3.Or([T.recog['is_C_' + n](t) for n in T.concrete_subclasses('Expression')])


# well-formedness of expression trees (type invariant of inputs, DESIGN "Practices"): children of
# n-ary nodes are operands (python numbers or expressions), recursively; and - the property's own
# quantifier - every divisor evaluates to a non-zero value (mode specific).
def _mk_wf(mode):
    sfx = mode.m + ('i' if mode.interpreted else '')
    wf = z3.RecFunction('wf' + sfx, V, z3.BoolSort())
    wfl = z3.RecFunction('wfl' + sfx, VL, z3.BoolSort())
    define_rec(wf, [_v],
        z3.If(z3.Or(V.is_VInt(_v), V.is_VReal(_v)), z3.BoolVal(True) if mode.m == 'R' else V.is_VInt(_v),
        z3.If(is_any(_v, SUMS + PRODS), wfl(field(_v, SUMS + PRODS, 'children')),
        z3.If(is_any(_v, QUOTS), z3.And(wf(field(_v, QUOTS, 'numerator')), wf(field(_v, QUOTS, 'denominator')),
                                        mode.val(field(_v, QUOTS, 'denominator')) != 0),
        z3.If(is_any(_v, POWS), z3.And(wf(field(_v, POWS, 'base')), wf(field(_v, POWS, 'exponent'))),
              z3.And(is_expression(_v), z3.Not(is_any(_v, ('LogicLiteral', 'StringLiteral') + (('FloatLiteral',) if mode.m == 'Z' else ())))))))))
    define_rec(wfl, [_l], z3.If(VL.is_nil(_l), True, z3.And(wf(VL.hd(_l)), wfl(VL.tl(_l)))))
    mode.wf, mode.wfl = wf, wfl
    a, b = z3.Consts('a!wf b!wf', VL)
    mode.wf_lemmas = [z3.ForAll([a, b], wfl(T.app(a, b)) == z3.And(wfl(a), wfl(b)), patterns=[wfl(T.app(a, b))])]


for _m in (MZ, MR, MZI, MRI):
    _mk_wf(_m)
for _a, _i in ((MZ, MZI), (MR, MRI)):
    for _n in ('wf', 'wfl'):
        arith.DECL_MAP[getattr(_a, _n).name()] = (getattr(_a, _n), getattr(_i, _n))

# ---- truthiness of operands: spec function for the __bool__ family -----------------------------------
# (python numbers; IntLiteral.__bool__, LogicLiteral.__bool__ in loki; Sum/Product/QuotientBase.__bool__ in
# pymbolic; every other expression class inherits object truthiness = True).  Each real __bool__ is verified
# against this function (C08 specs `...__bool__`); code that tests an operand's truth uses the function.
truthy = z3.RecFunction('truthy', V, z3.BoolSort())
allnz = z3.RecFunction('allnz', VL, z3.BoolSort())
_ch = field(_v, SUMS, 'children')
define_rec(truthy, [_v],
    z3.If(V.is_VInt(_v), V.ival(_v) != 0,
    z3.If(V.is_VBool(_v), V.bval(_v),
    z3.If(V.is_VReal(_v), V.rval(_v) != 0,
    z3.If(V.is_VNone(_v), False,
    z3.If(V.is_VStr(_v), z3.Length(V.sval(_v)) > 0,
    z3.If(V.is_VList(_v), VL.is_cons(V.litems(_v)),
    z3.If(V.is_VTuple(_v), VL.is_cons(V.titems(_v)),
    z3.If(T.recog['is_C_IntLiteral'](_v), T.acc['IntLiteral__value'](_v) != 0,
    z3.If(T.recog['is_C_LogicLiteral'](_v), T.acc['LogicLiteral__value'](_v),
    z3.If(is_any(_v, SUMS), z3.If(z3.And(VL.is_cons(_ch), VL.is_nil(VL.tl(_ch))), truthy(VL.hd(_ch)), True),
    z3.If(is_any(_v, PRODS), allnz(field(_v, PRODS, 'children')),
    z3.If(is_any(_v, QUOTS), truthy(field(_v, QUOTS, 'numerator')),
          True)))))))))))))
define_rec(allnz, [_l], z3.If(VL.is_nil(_l), True, z3.And(truthy(VL.hd(_l)), allnz(VL.tl(_l)))))


def truth_hook(sv):
    return mk_bool(truthy(sv.t))


T.truth_hook = truth_hook


def _P_zero(mode):
    return lambda v: z3.Implies(z3.And(mode.wf(v), z3.Not(truthy(v))), mode.val(v) == 0)


def _Q_zero(mode):
    P = _P_zero(mode)
    return lambda l: z3.And(z3.Implies(z3.And(mode.wfl(l), z3.Not(allnz(l))), mode.prodv(l) == 0),
                            z3.Implies(VL.is_cons(l), P(VL.hd(l))))


def zero_lemma(mode):
    """not truthy(v) => val(v) == 0   (LEMMA, proved by structural induction on every run)"""
    v = z3.Const('v!zl', V)
    return z3.ForAll([v], _P_zero(mode)(v), patterns=[truthy(v)])


def prove_zero_lemma(mode):
    from pyvc.core import prove_tree_induction
    return prove_tree_induction(T, _P_zero(mode), _Q_zero(mode), lemmas=mode.laws())


# ---- python `==` between expression nodes of statically unknown class -------------------------------
# ASSUMED CONTRACT (trusted; C11 examines the real __eq__ family separately): a == b is reflexive and
# a == b implies that a and b denote the same value in both semantics.
peq = z3.Function('peq', V, V, z3.BoolSort())
_x, _y = z3.Consts('x!peq y!peq', V)
PEQ_AXIOMS = [
    z3.ForAll([_x, _y], z3.Implies(peq(_x, _y), z3.And(valZ(_x) == valZ(_y), valR(_x) == valR(_y),
                                                      MZI.val(_x) == MZI.val(_y), MRI.val(_x) == MRI.val(_y))),
              patterns=[peq(_x, _y)]),
    z3.ForAll([_x], peq(_x, _x), patterns=[peq(_x, _x)]),
]


def dyn_eq(a, o):
    return mk_bool(peq(T.lift(a), T.lift(o)))


T.dyn_eq = dyn_eq
T.veq = lambda a, b: peq(a, b)


def lemmas_for(mode):
    return (mode.lemmas() + PEQ_AXIOMS + REAL_AXIOMS + mode.wf_lemmas + [zero_lemma(mode)]
            + [_app_lemma(mode.prodv, mode.mul, 'prod' + mode.m), ALLNZ_APP] + mode.laws())


def ground_for(mode):
    from pyvc.core import ground_instances
    ax = PEQ_AXIOMS + REAL_AXIOMS
    return lambda terms: ground_instances(ax, terms)


def interp_for(mode):
    return arith.interp


# ---- callee contracts as uninterpreted functions ------------------------------------------------------
class ValueContract:
    """CONTRACT of a pure value-preserving function `name(expr, ...)`: modelled as an uninterpreted function
    F(expr, site) of its expression argument (site = opaque per-call-site token standing for the other
    arguments, so no equality between different calls is assumed) with the quantified contract
        wf(x)  =>  val(F(x, s)) == val(x)  and  wf(F(x, s))
    used as a lemma in proofs and ground-instantiated in refutations.  Because it is a function of x it can be
    used inside comprehensions over sequences of symbolic length."""

    _cache = {}

    def __new__(cls, name, mode, negate=False):
        key = (name, mode.m, mode.interpreted, negate)
        if key in cls._cache:
            return cls._cache[key]
        self = object.__new__(cls)
        cls._cache[key] = self
        self.name, self.mode, self.negate = name, mode, negate
        self.F = z3.Function('F_%s_%s' % (name, mode.m), V, z3.IntSort(), V)      # shared by both encodings
        x, s = z3.Const('x!vc', V), z3.Int('s!vc')
        rhs = -mode.val(x) if negate else mode.val(x)
        self.axiom = z3.ForAll([x, s], z3.Implies(mode.wf(x), z3.And(mode.val(self.F(x, s)) == rhs,
                                                                     mode.wf(self.F(x, s)))),
                               patterns=[self.F(x, s)])
        return self

    def __call__(self, x, *a, **kw):
        site = ctx().fresh(z3.IntSort(), 'site_' + self.name)
        xt = T.lift(x)
        r = self.F(xt, site)
        rhs = -self.mode.val(xt) if self.negate else self.mode.val(xt)
        ctx().assume(z3.Implies(self.mode.wf(xt), z3.And(self.mode.val(r) == rhs, self.mode.wf(r))))
        return SV(T, r)


def contract_axioms(contracts):
    return [c.axiom for c in contracts]


def comp_lemma(tag, seq_term, stmt):
    """Inside a comprehension hook: prove  forall L. stmt(L)  by list induction (two obligations under the
    current path condition, on fresh list variables), then use the instance for the actual sequence."""
    c = ctx()
    x = c.fresh(V, 'ind_x')
    r = c.fresh(VL, 'ind_r')
    c.check(stmt(VL.nil), 'comp/%s/base' % tag)
    c.check(z3.Implies(stmt(r), stmt(VL.cons(x, r))), 'comp/%s/step' % tag)
    c.assume(stmt(seq_term))


# ---- exponentiation: trusted semantics of `**` (Fortran and Python agree on these laws) ----------------
_pa, _pb = z3.Ints('a!pw b!pw')
_ra, _rb = z3.Reals('a!pwr b!pwr')
POW_AXIOMS = [
    z3.ForAll([_pa, _pb], z3.And(z3.Implies(_pb == 0, powZ(_pa, _pb) == 1), z3.Implies(_pb == 1, powZ(_pa, _pb) == _pa),
                                 z3.Implies(_pa == 1, powZ(_pa, _pb) == 1)), patterns=[powZ(_pa, _pb)]),
    z3.ForAll([_ra, _rb], z3.And(z3.Implies(_rb == 0, powR(_ra, _rb) == 1), z3.Implies(_rb == 1, powR(_ra, _rb) == _ra),
                                 z3.Implies(_ra == 1, powR(_ra, _rb) == 1)), patterns=[powR(_ra, _rb)]),
    # integer and real power agree on integer operands with a non-negative exponent
    z3.ForAll([_pa, _pb], z3.Implies(_pb >= 0, z3.ToReal(powZ(_pa, _pb)) == powR(z3.ToReal(_pa), z3.ToReal(_pb))),
              patterns=[powZ(_pa, _pb)]),
]


def sym_pow(a, b):
    """python `a ** b` on numbers: the same mathematical function as the target language's power"""
    if isinstance(a, (SReal, float)) or isinstance(b, (SReal, float)):
        return SReal(powR(values.as_real_term(a), values.as_real_term(b)))
    return mk_int(powZ(values.as_int_term(a), values.as_int_term(b)))


T.sym_pow = sym_pow


# ---- list lemmas (each proved by structural induction on every run; see lemma_proofs) ----------------
def _app_lemma(fold, combine, name):
    a, b = z3.Consts('a!%s b!%s' % (name, name), VL)
    return z3.ForAll([a, b], fold(T.app(a, b)) == combine(fold(a), fold(b)), patterns=[fold(T.app(a, b))])


def _prove_app_lemma(fold, combine, extra=()):
    from pyvc.core import check_retry, P_BIG
    b = z3.Const('ind!b', VL)
    x, r = z3.Const('ind!x', V), z3.Const('ind!r', VL)
    stmt = lambda a: fold(T.app(a, b)) == combine(fold(a), fold(b))
    out = []
    for tag, hyps, goal in (('base', [], stmt(VL.nil)), ('step', [stmt(r)], stmt(VL.cons(x, r)))):
        out.append((tag, str(check_retry(list(extra) + list(hyps) + [z3.Not(goal)], P_BIG))))
    return out


def _prove_prod_app(mode):
    # the step needs one associativity instance: given as a ground hint (the AC laws are never quantified)
    b = z3.Const('ind!b', VL)
    x, r = z3.Const('ind!x', V), z3.Const('ind!r', VL)
    fold = mode.prodv
    terms = [fold(T.app(VL.cons(x, r), b)) == mode.mul(mode.mul(mode.val(x), fold(r)), fold(b)),
             mode.mul(mode.val(x), fold(T.app(r, b))), mode.mul(mode.val(x), mode.mul(fold(r), fold(b)))]
    return _prove_app_lemma(fold, mode.mul, extra=mode.laws() + mode.hints(terms))


ALLNZ_APP = _app_lemma(allnz, z3.And, 'allnz')


def lemma_proofs(modes=None):
    """(name, thunk -> [(case, 'unsat'|...)]) for every lemma the C08/C09/C10 proofs use"""
    out = list(T.base_lemma_proofs())
    for mode in (modes or (MZ, MR)):
        if not mode.interpreted:
            out.append(('arithmetic laws of mul/div[%s] on the interpreted operations' % mode.m,
                        lambda mode=mode: arith.prove_laws(mode.m)))
        out.append(('zero-lemma[%s]: not truthy(v) and wf(v) => val(v) == 0' % (mode.m + 'i' * mode.interpreted),
                    lambda mode=mode: prove_zero_lemma(mode)))
        out.append(('sum-app[%s]: sumv(app(a,b)) == sumv(a)+sumv(b)' % mode.m,
                    lambda mode=mode: _prove_app_lemma(mode.sumv, lambda p, q: p + q)))
        out.append(('prod-app[%s]: prodv(app(a,b)) == prodv(a)*prodv(b)' % mode.m,
                    lambda mode=mode: _prove_prod_app(mode)))
        out.append(('wfl-app[%s]: wfl(app(a,b)) == wfl(a) and wfl(b)' % mode.m,
                    lambda mode=mode: _prove_app_lemma(mode.wfl, z3.And)))
    out.append(('allnz-app: allnz(app(a,b)) == allnz(a) and allnz(b)', lambda: _prove_app_lemma(allnz, z3.And)))
    return out


# ---- counterexample decoding: V term in a model -> JSON tree for the replay drivers -------------------
def decode_expr(m, t, depth=0):
    v = m.eval(t, model_completion=True)
    return _decode_val(v, depth)


def _decode_list(l, depth):
    out = []
    while z3.is_app(l) and l.decl().name() == 'cons' and len(out) < 12:
        out.append(_decode_val(l.arg(0), depth + 1))
        l = l.arg(1)
    return out


def _decode_val(v, depth=0):
    if not z3.is_app(v) or depth > 8:
        return {'opaque': str(v)[:40]}
    k = v.decl().name()
    if k == 'VNone':
        return None
    if k == 'VInt':
        return {'py': 'int', 'value': v.arg(0).as_long() if z3.is_int_value(v.arg(0)) else 0}
    if k == 'VBool':
        return {'py': 'bool', 'value': z3.is_true(v.arg(0))}
    if k == 'VReal':
        a = v.arg(0)
        return {'py': 'float', 'value': float(a.as_fraction()) if z3.is_rational_value(a) else 0.0}
    if k == 'VStr':
        return {'py': 'str', 'value': v.arg(0).as_string() if z3.is_string_value(v.arg(0)) else ''}
    if k in ('VList', 'VTuple'):
        return {'py': 'list' if k == 'VList' else 'tuple', 'items': _decode_list(v.arg(0), depth)}
    if k.startswith('C_'):
        cn = k[2:]
        out = {'cls': cn}
        for (f, s), a in zip(C[cn].fields, v.children()):
            if s == 'V':
                out[f] = _decode_val(a, depth + 1)
            elif s == 'VL':
                out[f] = _decode_list(a, depth)
            elif s == 'Int':
                out[f] = a.as_long() if z3.is_int_value(a) else 0
            elif s == 'Str':
                out[f] = a.as_string() if z3.is_string_value(a) else ''
            elif s == 'Bool':
                out[f] = z3.is_true(a)
            else:
                out[f] = str(a)
        return out
    return {'opaque': str(v)[:40]}
