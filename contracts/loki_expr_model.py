"""Model namespace for `loki.expression.symbols` (imported as `sym`): class tokens of the expression
theory; the dunder methods of the literal classes are inlined from the real loki source."""
import types
from pyvc.inline import inline
from .exprs import T, C, Literal, as_tuple
from .pmbl_model import pmbl, G as PG

LIT = 'loki/expression/literals.py'
G = {'IntLiteral': C['IntLiteral'], 'FloatLiteral': C['FloatLiteral'], 'StringLiteral': C['StringLiteral'],
     'LogicLiteral': C['LogicLiteral'], 'pmbl': pmbl}


def _super_literal(clsname, obj):
    raise NotImplementedError


for _m in ('__eq__', '__lt__', '__le__', '__gt__', '__ge__', '__int__', '__bool__'):
    C['IntLiteral'].methods[_m] = inline(LIT, 'IntLiteral.' + _m, G)
C['LogicLiteral'].methods['__bool__'] = inline(LIT, 'LogicLiteral.__bool__', G)

sym = types.SimpleNamespace(**{n: C[n] for n in (
    'IntLiteral', 'FloatLiteral', 'LogicLiteral', 'StringLiteral', 'Sum', 'Product', 'Quotient', 'Power',
    'Comparison', 'LogicalAnd', 'LogicalOr', 'LogicalNot', 'RangeIndex', 'LoopRange', 'Scalar', 'Array',
    'ParenthesisedAdd', 'ParenthesisedMul', 'ParenthesisedDiv', 'ParenthesisedPow')})
sym.Literal = Literal
sym._Literal = C['_Literal']
