"""Model namespace for `pymbolic.primitives` (imported as `pmbl` by loki): the operator overloads and the
is_zero/is_constant helpers are *inlined from the installed pymbolic source* (site-packages), not
re-written; only constructors and the n-ary Product.__bool__ loop are models/contracts."""
import os
import types
import z3

from pyvc import vcrt
from pyvc.inline import inline
from pyvc.values import SV, SSeq, SBool, mk_bool, truth
from pyvc.core import ctx
from .exprs import T, C, V, Literal, as_tuple, MZ, MR, field, PRODS

PMBL_SRC = os.environ.get('PYMBOLIC_SRC', '/venv/lib/python3.12/site-packages/pymbolic/primitives.py')

G = {}          # globals namespace of the inlined pymbolic functions


def _I(qualname):
    return inline(PMBL_SRC, qualname, G)


G.update({
    'Sum': C['P_Sum'], 'Product': C['P_Product'], 'Quotient': C['P_Quotient'], 'Power': C['P_Power'],
    'Expression': C['Expression'],
    'VALID_OPERANDS': (C['Expression'],),
    # (int, float, complex) + numpy scalars (not modelled) + classes registered by loki (IntLiteral)
    'VALID_CONSTANT_CLASSES': (int, float, complex, C['IntLiteral']),
})

for _f in ('is_constant', 'is_valid_operand', 'is_nonzero', 'is_zero'):
    G[_f] = _I(_f)


def quotient(numerator, denominator):
    """model of pymbolic.primitives.quotient for expression operands (no Rational folding for non-ints)"""
    return C['P_Quotient'](numerator, denominator)


G['quotient'] = quotient

# operator overloads, read from the real pymbolic classes
_E = C['Expression'].methods
for _m in ('__add__', '__radd__', '__sub__', '__rsub__', '__mul__', '__rmul__', '__neg__', '__pos__'):
    _E[_m] = _I('Expression.' + _m)
_E['__truediv__'] = _I('Expression.__div__')
_E['__rtruediv__'] = _I('Expression.__rdiv__')
for _m in ('__le__', '__lt__', '__ge__', '__gt__'):
    _E[_m] = _I('Expression.' + _m)
_S = C['P_Sum'].methods
for _m in ('__add__', '__radd__', '__sub__', '__bool__'):
    _S[_m] = _I('Sum.' + _m)
_P = C['P_Product'].methods
for _m in ('__mul__', '__rmul__'):
    _P[_m] = _I('Product.' + _m)
C['P_QuotientBase'].methods['__bool__'] = _I('QuotientBase.__bool__')


def product_bool_contract(self):
    """CONTRACT of pymbolic Product.__bool__ (a loop over children; verified separately as
    pymbolic::Product.__bool__): returns False only if some child is zero.  Callers rely on
    `not bool(p)  =>  val(p) == 0` in both value semantics."""
    b = ctx().fresh(z3.BoolSort(), 'prod_truth')
    ch = field(self.t, PRODS, 'children')
    ctx().assume(z3.Implies(z3.Not(b), z3.And(MZ.prodv(ch) == 0, MR.prodv(ch) == 0)))
    return mk_bool(b)


_P['__bool__'] = product_bool_contract

pmbl = types.SimpleNamespace(
    is_zero=G['is_zero'], is_nonzero=G['is_nonzero'], is_constant=G['is_constant'],
    is_valid_operand=G['is_valid_operand'], Expression=C['Expression'], Sum=C['P_Sum'], Product=C['P_Product'],
    Quotient=C['P_Quotient'], Power=C['P_Power'], Leaf=C['Leaf'], AlgebraicLeaf=C['AlgebraicLeaf'],
)
