"""Model namespace for `pymbolic.primitives` (imported as `pmbl` by loki): the operator overloads and the
is_zero/is_constant helpers are *inlined from the installed pymbolic source* (site-packages), not
re-written; only constructors and the n-ary Product.__bool__ loop are models/contracts."""
import os
import types
import z3

from pyvc import vcrt
from pyvc.inline import inline
from pyvc.values import SV, SSeq, SBool, mk_bool, truth
from pyvc.core import ctx
from .exprs import T, C, V, Literal, as_tuple, MZ, MR, field, PRODS

PMBL_SRC = os.environ.get('PYMBOLIC_SRC', '/venv/lib/python3.12/site-packages/pymbolic/primitives.py')

G = {}          # globals namespace of the inlined pymbolic functions


def _I(qualname):
    return inline(PMBL_SRC, qualname, G)


G.update({
    'Sum': C['P_Sum'], 'Product': C['P_Product'], 'Quotient': C['P_Quotient'], 'Power': C['P_Power'],
    'Expression': C['Expression'],
    'VALID_OPERANDS': (C['Expression'],),
    # (int, float, complex) + numpy scalars (not modelled) + classes registered by loki (IntLiteral)
    'VALID_CONSTANT_CLASSES': (int, float, complex, C['IntLiteral']),
})

for _f in ('is_constant', 'is_valid_operand', 'is_nonzero', 'is_zero'):
    G[_f] = _I(_f)


def quotient(numerator, denominator):
    """model of pymbolic.primitives.quotient for expression operands (no Rational folding for non-ints)"""
    return C['P_Quotient'](numerator, denominator)


G['quotient'] = quotient

# operator overloads, read from the real pymbolic classes (INLINE) or replaced by their contracts (CONTRACT)
INLINE_OPS = {'Expression': {}, 'P_Sum': {}, 'P_Product': {}}
for _m in ('__add__', '__radd__', '__sub__', '__rsub__', '__mul__', '__rmul__', '__neg__', '__pos__'):
    INLINE_OPS['Expression'][_m] = _I('Expression.' + _m)
INLINE_OPS['Expression']['__truediv__'] = _I('Expression.__div__')
INLINE_OPS['Expression']['__rtruediv__'] = _I('Expression.__rdiv__')
for _m in ('__add__', '__radd__', '__sub__'):
    INLINE_OPS['P_Sum'][_m] = _I('Sum.' + _m)
for _m in ('__mul__', '__rmul__'):
    INLINE_OPS['P_Product'][_m] = _I('Product.' + _m)
_E = C['Expression'].methods
for _m in ('__le__', '__lt__', '__ge__', '__gt__'):
    _E[_m] = _I('Expression.' + _m)
C['P_Sum'].methods['__bool__'] = _I('Sum.__bool__')
C['P_QuotientBase'].methods['__bool__'] = _I('QuotientBase.__bool__')

OPS = {'__add__': ('+', False), '__radd__': ('+', True), '__sub__': ('-', False), '__rsub__': ('-', True),
       '__mul__': ('*', False), '__rmul__': ('*', True), '__neg__': ('neg', False)}


class BinaryContract:
    """CONTRACT of a pymbolic arithmetic overload (verified against the real method in the specs
    `pymbolic::...`): the result is a well-formed operand whose value is the arithmetic result."""
    _cache = {}

    def __new__(cls, op, mode):
        key = (op, mode.m, mode.interpreted)
        if key in cls._cache:
            return cls._cache[key]
        self = object.__new__(cls)
        cls._cache[key] = self
        self.op, self.mode = op, mode
        from .exprs import V as _V
        self.F = z3.Function('F_op%s_%s' % ({'+': 'add', '-': 'sub', '*': 'mul', 'neg': 'neg'}[op], mode.m), _V, _V, _V)
        a, b = z3.Consts('a!bc b!bc', _V)
        self.axiom = z3.ForAll([a, b], z3.Implies(z3.And(mode.wf(a), mode.wf(b)),
                                                   z3.And(mode.val(self.F(a, b)) == self.value(a, b),
                                                          mode.wf(self.F(a, b)))), patterns=[self.F(a, b)])
        return self

    def value(self, a, b):
        va, vb = self.mode.val(a), self.mode.val(b)
        return {'+': va + vb, '-': va - vb, '*': self.mode.mul(va, vb), 'neg': -va}[self.op]

    def apply(self, a, b):
        at, bt = T.lift(a), T.lift(b)
        r = self.F(at, bt)
        ctx().assume(z3.Implies(z3.And(self.mode.wf(at), self.mode.wf(bt)),
                                z3.And(self.mode.val(r) == self.value(at, bt), self.mode.wf(r))))
        return SV(T, r)


def contract_ops(mode):
    tab = {}
    for m, (op, rev) in OPS.items():
        bc = BinaryContract(op, mode)
        if op == 'neg':
            tab[m] = lambda self, bc=bc: bc.apply(self, 0)
        elif rev:
            tab[m] = lambda self, other, bc=bc: bc.apply(other, self)
        else:
            tab[m] = lambda self, other, bc=bc: bc.apply(self, other)
    return tab


def use_ops(kind, mode=None):
    """install the inlined real overloads ('inline') or their contracts ('contract') on the class models"""
    for cn in ('Expression', 'P_Sum', 'P_Product'):
        for m in list(C[cn].methods):
            if m in OPS or m in ('__truediv__', '__rtruediv__', '__pos__'):
                del C[cn].methods[m]
    if kind == 'inline':
        for cn, tab in INLINE_OPS.items():
            C[cn].methods.update(tab)
    else:
        C['Expression'].methods.update(contract_ops(mode))


def op_axioms(mode):
    return [BinaryContract(op, mode).axiom for op in ('+', '-', '*', 'neg')]


use_ops('inline')


def product_bool_contract(self):
    """CONTRACT of pymbolic Product.__bool__ (a loop over children; verified separately as
    pymbolic::Product.__bool__): returns False only if some child is zero.  Callers rely on
    `not bool(p)  =>  val(p) == 0` in both value semantics."""
    b = ctx().fresh(z3.BoolSort(), 'prod_truth')
    ch = field(self.t, PRODS, 'children')
    ctx().assume(z3.Implies(z3.Not(b), z3.And(MZ.prodv(ch) == 0, MR.prodv(ch) == 0)))      # unused: truthiness goes through exprs.truthy
    return mk_bool(b)


C['P_Product'].methods['__bool__'] = product_bool_contract

pmbl = types.SimpleNamespace(
    is_zero=G['is_zero'], is_nonzero=G['is_nonzero'], is_constant=G['is_constant'],
    is_valid_operand=G['is_valid_operand'], Expression=C['Expression'], Sum=C['P_Sum'], Product=C['P_Product'],
    Quotient=C['P_Quotient'], Power=C['P_Power'], Leaf=C['Leaf'], AlgebraicLeaf=C['AlgebraicLeaf'],
)
