"""pyvc property-level driver: runs all function specs of one property, discharges, replays
counterexamples on the real code, applies the known-findings ledger, writes evidence, sets the exit code.

exit 0  every obligation discharged (or a listed known finding that still fails in the recorded way)
exit 1  VIOLATION (refuted obligation; replayed on the real code where a concrete input exists)
exit 2  UNDECIDED (an obligation neither discharged nor refuted and the bounded stand-in found nothing)
exit 3  CHECKER-ERROR (out-of-subset construct, stale model, engine crash)
"""
import argparse
import importlib
import json
import multiprocessing as mp
import os
import subprocess
import sys
import time
import traceback

ROOT = os.path.dirname(os.path.dirname(os.path.abspath(__file__)))
REPO = os.environ.get('LOKI_REPO', '/repo')
PY_REAL = os.environ.get('LOKI_PYTHON', '/venv/bin/python')


_keep = []
_REPLAY_CACHE = {}


def _worker(args):
    modname, idx, tier = args
    try:
        from pyvc.runner import verify
        from pyvc.inline import INLINED
        if os.environ.get('PYVC_PERTURB'):
            # robustness drill (developer option): shift z3's term ids / learned state before the run; every
            # verdict must be the same for any value
            import z3
            _keep.extend(z3.Int('perturb!%d' % i) + i for i in range(int(os.environ['PYVC_PERTURB'])))
        mod = importlib.import_module(modname)
        spec = mod.specs(tier)[idx]
        res = verify(spec)
        res.inlined = dict(INLINED)
        return res
    except BaseException as e:          # pylint: disable=broad-except
        class R:
            pass
        r = R()
        r.label = '%s#%d' % (modname, idx)
        r.error = ('crash', '%s: %s\n%s' % (type(e).__name__, e, traceback.format_exc(limit=8)))
        r.obligations, r.paths, r.wall, r.info, r.reached, r.notes, r.outcomes, r.inlined = [], 0, 0.0, {}, [], [], {}, {}
        r.pruned = False
        r.file = r.qualname = r.variant = None
        return r


def short(name):
    return name


def load_known(prop):
    p = os.path.join(ROOT, 'known_findings.json')
    if not os.path.exists(p):
        return []
    with open(p) as f:
        data = json.load(f)
    return [e for e in data.get('findings', []) if e.get('property') == prop]


def match_known(entry, obname, cex):
    if entry.get('status') != 'known':
        return False
    import fnmatch
    if not fnmatch.fnmatchcase(obname, entry['obligation']):
        return False
    fp = entry.get('fingerprint')
    if fp is None:
        return True
    if cex is None or not isinstance(cex, dict):
        return False
    try:
        return bool(eval(fp, {'__builtins__': {'abs': abs, 'len': len, 'min': min, 'max': max, 'any': any,
                                              'all': all, 'isinstance': isinstance, 'str': str, 'int': int}},
                         dict(cex)))
    except Exception:       # pylint: disable=broad-except
        return False


def run_replay(prop, path):
    drv = os.path.join(ROOT, 'replay', '%s.py' % prop)
    if not os.path.exists(drv):
        return None
    try:
        p = subprocess.run([PY_REAL, drv, path], capture_output=True, text=True, timeout=300,
                           env=dict(os.environ, PYTHONPATH=REPO, LOKI_REPO=REPO))
    except subprocess.TimeoutExpired:
        return {'reproduced': None, 'error': 'replay timeout'}
    out = p.stdout.strip().splitlines()
    for line in reversed(out):
        try:
            return json.loads(line)
        except ValueError:
            continue
    return {'reproduced': None, 'error': 'replay driver gave no JSON', 'stdout': p.stdout[-500:],
            'stderr': p.stderr[-800:]}


def cvc5_retry(smt2, timeout=180):      # wall-clock net sized for a loaded machine (idle: a few seconds)
    """second back end for obligations z3 left open (strings / nonlinear), DESIGN 3.6 step 3"""
    if not smt2:
        return None
    try:
        p = subprocess.run(['/usr/bin/cvc5', '--lang=smt2', '--strings-exp', '--tlimit=%d' % (timeout * 1000)],
                           input=smt2 + '\n(check-sat)\n' if '(check-sat)' not in smt2 else smt2,
                           capture_output=True, text=True, timeout=timeout + 5)
    except Exception:       # pylint: disable=broad-except
        return None
    o = p.stdout.strip().splitlines()
    return o[0] if o else None


def main(argv=None):
    ap = argparse.ArgumentParser()
    ap.add_argument('prop')
    ap.add_argument('--tier', default=os.environ.get('VERIF_TIER', 'quick'))
    ap.add_argument('--replay')
    ap.add_argument('--jobs', type=int, default=int(os.environ.get('PYVC_JOBS', '16')))
    ap.add_argument('-v', action='store_true')
    a = ap.parse_args(argv)
    prop = a.prop
    seed = int(os.environ.get('VERIF_SEED', '0') or 0)
    os.chdir(ROOT)
    if a.replay:
        r = run_replay(prop, a.replay)
        print(json.dumps(r, indent=1))
        return 1 if r and r.get('reproduced') else 0
    t0 = time.time()
    modname = 'contracts.%s' % prop
    try:
        mod = importlib.import_module(modname)
        nspecs = len(mod.specs(a.tier))
    except BaseException as e:      # pylint: disable=broad-except
        print('CHECKER-ERROR property=%s cannot load contracts: %s: %s' % (prop, type(e).__name__, e))
        traceback.print_exc()
        return 3
    jobs = [(modname, i, a.tier) for i in range(nspecs)]
    if a.jobs > 1 and nspecs > 1:
        ctxmp = mp.get_context('fork')
        # one fresh fork of this process per function spec: z3's resource accounting depends on what the
        # process did before, so a worker that is reused for several specs makes probe verdicts (and with
        # them the set of explored paths) depend on the scheduling of the pool
        reuse = bool(getattr(mod, 'POOL_REUSE', False))
        with ctxmp.Pool(min(a.jobs, nspecs), maxtasksperchild=None if reuse else 1) as pool:
            results = pool.map(_worker, jobs, chunksize=8 if reuse else 1)
    else:
        results = [_worker(j) for j in jobs]

    # lemmas used by the proofs are themselves proved (structural induction) on every run
    lemma_results = []
    lp = getattr(mod, 'lemma_proofs', None)
    if lp is not None:
        for lname, thunk in lp():
            tl = time.time()
            try:
                cases = thunk()
            except BaseException as e:      # pylint: disable=broad-except
                cases = [('crash', '%s: %s' % (type(e).__name__, e))]
            lemma_results.append((lname, cases, time.time() - tl))

    known = load_known(prop)
    os.makedirs(os.path.join(ROOT, 'replays', prop), exist_ok=True)
    for old in os.listdir(os.path.join(ROOT, 'replays', prop)):
        os.remove(os.path.join(ROOT, 'replays', prop, old))
    n_ob = n_proved = 0
    violations, known_hits, undecided, errors = [], [], [], []
    functions, samples, backends = [], [], {}
    solver_time = 0.0
    inlined = {}
    bounded = []
    for r in results:
        inlined.update(getattr(r, 'inlined', {}) or {})
        if r.error:
            errors.append((r.label, r.error))
        functions.append({'function': r.label, 'sha': (r.info or {}).get('sha'), 'paths': r.paths,
                          'obligations': len(r.obligations), 'wall_s': round(r.wall, 3),
                          'outcomes': r.outcomes, 'loops': (r.info or {}).get('loops'),
                          'dropped': (r.info or {}).get('dropped'), 'reached': r.reached, 'notes': r.notes})
        for o in r.obligations:
            n_ob += 1
            solver_time += o.time
            backends[o.backend] = backends.get(o.backend, 0) + 1
            if o.status == 'unknown' and o.smt2:
                tc = time.time()
                v = cvc5_retry(o.smt2)
                o.time += time.time() - tc
                if v == 'unsat':
                    backends[o.backend] -= 1
                    o.status, o.backend = 'proved', 'cvc5'
                    backends['cvc5'] = backends.get('cvc5', 0) + 1
            if o.status == 'proved':
                n_proved += 1
                if len(samples) < 6:
                    samples.append({'obligation': o.name, 'hypotheses': o.size, 'goal': o.goal[:160],
                                    'verdict': 'unsat (valid)', 'backend': o.backend, 'time_s': round(o.time, 4)})
                continue
            if o.status == 'unknown':
                undecided.append(o)
                continue
            # refuted
            rp = os.path.join(ROOT, 'replays', prop, '%s.json' % _safe(o.name + '@%d' % o.path))
            rec = {'property': prop, 'obligation': o.name, 'path': o.path, 'inputs': o.cex, 'goal': o.goal,
                   'solver_output': o.model, 'source_sha': (r.info or {}).get('sha'), 'function': r.label}
            hit = None
            for e in known:
                if match_known(e, o.name, o.cex):
                    hit = e
                    break
            with open(rp, 'w') as f:
                json.dump(rec, f, indent=1, default=str)
            rr = None
            if o.cex is not None and not (isinstance(o.cex, dict) and 'decode_error' in o.cex):
                # identical decoded inputs - and all instances of one listed known finding - share one native replay
                ck = ('known', hit['what']) if hit is not None else json.dumps(o.cex, sort_keys=True, default=str)
                if ck not in _REPLAY_CACHE:
                    _REPLAY_CACHE[ck] = run_replay(prop, rp)
                rr = _REPLAY_CACHE[ck]
                rec['replay'] = rr
                with open(rp, 'w') as f:
                    json.dump(rec, f, indent=1, default=str)
            if hit is not None:
                known_hits.append((hit, o, rr))
            elif getattr(r, 'pruned', False) and not (rr and rr.get('reproduced')):
                # a pruned exploration only counts when its counterexample replays on the real code
                errors.append((r.label, ('out-of-subset', 'refutation on a pruned exploration did not replay: %s' % o.name)))
            else:
                violations.append((o, rp, rr))

    lemma_failed = []
    for lname, cases, tl in lemma_results:
        solver_time += tl
        for case, verdict in cases:
            n_ob += 1
            if verdict == 'unsat':
                n_proved += 1
            else:
                lemma_failed.append('%s/%s: %s' % (lname, case, verdict))
    for lf in lemma_failed:
        errors.append(('lemma', ('checker-error', 'lemma not proved: ' + lf)))

    # stand-in for undecided obligations
    stand = getattr(mod, 'bounded_standin', None)
    still_undecided = []
    for o in undecided:
        if stand is not None:
            b = stand(o.name, a.tier)
            if b is not None:
                bounded.append(b)
                if b.get('violation'):
                    rp = os.path.join(ROOT, 'replays', prop, '%s.json' % _safe(o.name + '@bounded'))
                    with open(rp, 'w') as f:
                        json.dump({'property': prop, 'obligation': o.name, 'bounded': b}, f, indent=1, default=str)
                    violations.append((o, rp, {'reproduced': True, 'bounded': True}))
                    continue
        still_undecided.append(o)

    # bounded checks the contract module runs in any case (functions outside the deductive reach)
    extra = getattr(mod, 'bounded_checks', None)
    if extra is not None:
        for b in extra(a.tier, seed):
            bounded.append(b)
            if b.get('violation'):
                hit = None
                for e in known:
                    if match_known(e, b['name'], b.get('cex')):
                        hit = e
                        break
                rp = os.path.join(ROOT, 'replays', prop, '%s.json' % _safe(b['name'] + '@bounded'))
                with open(rp, 'w') as f:
                    json.dump({'property': prop, 'obligation': b['name'], 'bounded': b}, f, indent=1, default=str)
                if hit is not None:
                    class O:
                        pass
                    o = O()
                    o.name, o.cex = b['name'], b.get('cex')
                    known_hits.append((hit, o, {'reproduced': True}))
                else:
                    class O2:
                        pass
                    o = O2()
                    o.name, o.cex = b['name'], b.get('cex')
                    violations.append((o, rp, {'reproduced': True, 'bounded': True}))

    # ---- vacuity / lock guards ----------------------------------------------------------------
    lock_path = os.path.join(ROOT, 'obligations.lock.json')
    lock_note = None
    if os.path.exists(lock_path):
        with open(lock_path) as f:
            lock = json.load(f).get(prop)
        if lock:
            names_now = {}
            for r in results:
                for o in r.obligations:
                    names_now.setdefault(r.label, set()).add(o.name)
            for fn, entry in lock.items():
                cur = next((x for x in functions if x['function'] == fn), None)
                if cur is None:
                    errors.append((fn, ('checker-error', 'function in obligations.lock.json is no longer verified')))
                    continue
                if cur['sha'] == entry.get('sha'):
                    missing = set(entry['names']) - names_now.get(fn, set())
                    if missing:
                        errors.append((fn, ('checker-error', 'obligations disappeared on unchanged source: %s'
                                            % sorted(missing)[:3])))
    if n_ob == 0 and not errors:
        errors.append((prop, ('checker-error', 'zero obligations generated')))

    # ---- report ----------------------------------------------------------------------------------
    rc = 0
    printed = set()
    for hit, o, rr in known_hits:
        key = hit['what']
        if key in printed:
            continue
        printed.add(key)
        print('KNOWN-FINDING: property=%s %s' % (prop, hit['what']))
    for o, rp, rr in violations:
        tail = ''
        if not rr or not rr.get('reproduced'):
            tail = ' no-failing-input-found'
        print('VIOLATION property=%s replay=%s obligation=%s%s' % (prop, rp, o.name, tail))
        rc = 1
    for o in still_undecided:
        print('UNDECIDED property=%s obligation=%s %s' % (prop, o.name, o.note))
        if rc == 0:
            rc = 2
    for label, (kind, msg) in errors:
        print('CHECKER-ERROR property=%s %s: %s: %s' % (prop, label, kind, msg))
        rc = 3 if rc in (0, 2) else rc

    meta = getattr(mod, 'META', {})
    n_known = len(known_hits)
    # the level is the one claimed for the property in MANIFEST.json (META['category']); a run that leaves an
    # obligation open shows it in coverage.discharged < coverage.obligations, violations, undecided and errors
    level = meta.get('category') or ('proof' if (n_ob > 0 and n_proved == n_ob and not bounded and rc == 0)
                                     else 'other')
    trusted = list(meta.get('trusted_base', []))
    trusted += ['inlined helper (executed from real source): %s sha=%s' % (k, v['sha']) for k, v in sorted(inlined.items())]
    expl = ('%d obligation instances generated from the current source of %d function specs; %d discharged '
            'deductively (z3/cvc5), %d refuted and matched to listed known findings, %d new violations, '
            '%d undecided; %d bounded stand-in checks (never counted as proved).'
            % (n_ob, len(results), n_proved, n_known, len(violations), len(still_undecided), len(bounded)))
    cov = {
        'obligations': n_ob, 'discharged': n_proved,
        'checker_cmd': './check %s --tier %s' % (prop, a.tier),
        'trusted_base': trusted,
        'samples': samples or [{'note': 'no discharged obligation'}],
        'explanation': expl,
        'functions_under_contract': functions,
        'lemmas': [{'lemma': n, 'cases': len(c), 'proved': sum(1 for _, v in c if v == 'unsat'),
                    'time_s': round(t, 3)} for n, c, t in lemma_results],
        'backends': backends,
        'solver_time_s': round(solver_time, 3),
        'bounded': bounded,
        'known_findings': [{'what': h['what'], 'obligation': o.name, 'cex': getattr(o, 'cex', None),
                            'replayed': (rr or {}).get('reproduced')} for h, o, rr in known_hits],
        'undecided': [o.name for o in still_undecided],
        'errors': [{'where': l, 'kind': k, 'message': m[:400]} for l, (k, m) in errors],
        'paths': sum(r.paths for r in results),
        'exhaustive': False,
    }
    if bounded:
        cov['evaluations'] = sum(b.get('cases', 0) for b in bounded)
        cov['distinct_nontrivial'] = sum(b.get('distinct', b.get('cases', 0)) for b in bounded)
        cov['rule'] = '; '.join(sorted({b.get('rule', '') for b in bounded if b.get('rule')}))
    ev = {
        'property_id': prop, 'tier': 'thorough' if a.tier == 'thorough' else 'quick', 'seed': seed, 'level': level,
        'coverage': cov,
        'assumptions': list(meta.get('assumptions', [])),
        'wall_s': round(time.time() - t0, 3),
        'violations': len(violations),
    }
    os.makedirs(os.path.join(ROOT, 'evidence'), exist_ok=True)
    with open(os.path.join(ROOT, 'evidence', '%s.json' % prop), 'w') as f:
        json.dump(ev, f, indent=1, default=str)
    print('%s: %d/%d obligations discharged, %d known findings, %d violations, %d undecided, %d errors, '
          '%d bounded, %.1fs -> exit %d' % (prop, n_proved, n_ob, n_known, len(violations), len(still_undecided),
                                          len(errors), len(bounded), time.time() - t0, rc))
    if a.v:
        for fnr in functions:
            print('   ', fnr['function'], 'paths', fnr['paths'], 'obs', fnr['obligations'], fnr['wall_s'], 's')
    return rc


def _safe(s):
    import re
    return re.sub(r'[^A-Za-z0-9_.@#\[\]-]+', '_', s)[-180:]


if __name__ == '__main__':
    sys.exit(main())
