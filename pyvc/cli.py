"""developer CLI: python3-vt -m pyvc.cli contracts.C08 [filter]"""
import importlib
import sys
from .runner import verify


def main():
    mod = importlib.import_module(sys.argv[1])
    flt = sys.argv[2] if len(sys.argv) > 2 else ''
    for spec in mod.specs():
        if flt not in spec.label:
            continue
        r = verify(spec)
        st = {}
        for o in r.obligations:
            st[o.status] = st.get(o.status, 0) + 1
        print('%-70s paths=%-4d obs=%-4d %s  %.2fs %s' % (r.label, r.paths, len(r.obligations), st, r.wall,
                                                       r.outcomes))
        if r.error:
            print('   ERROR', r.error[0], r.error[1])
        for o in r.obligations:
            if o.status != 'proved':
                print('   %-9s %s  [path %d] %s' % (o.status, o.name, o.path, o.note))
                if '-v' in sys.argv:
                    print('      goal:', o.goal)
                    print('      model:', o.model)


if __name__ == '__main__':
    main()
