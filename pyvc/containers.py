"""pyvc containers: dict/set models.

CDict  - a dict of *concrete shape* (known number of entries) whose keys/values may be symbolic;
         look-ups compare keys with `==` (branching).  Insertion-ordered like dict.
SMap   - a dict of symbolic shape: z3 arrays (domain set + value array) over the universal sort V.
SSet   - a set of symbolic shape: z3 set over V.
"""
import z3
from .core import ctx, OutOfSubset
from .values import Sym, SV, SSeq, SInt, SBool, SStr, mk_bool, mk_int, truth, theory, as_bool_term

_MISSING = object()


def _same_key(a, b):
    if a is b:
        return True
    if not isinstance(a, Sym) and not isinstance(b, Sym) and not _has_sym(a) and not _has_sym(b):
        try:
            return a == b
        except Exception:           # pylint: disable=broad-except
            return False
    if isinstance(a, tuple) and isinstance(b, tuple):
        if len(a) != len(b):
            return False
        for x, y in zip(a, b):
            if not _same_key(x, y):
                return False
        return True
    return truth(a == b)


def _has_sym(x):
    if isinstance(x, Sym):
        return True
    if isinstance(x, (tuple, list)):
        return any(_has_sym(y) for y in x)
    return False


class CDict:
    def __init__(self, items=(), default_factory=None):
        self._k, self._v = [], []
        self.default_factory = default_factory
        if items:
            self.update(items)

    def _find(self, k):
        for i, kk in enumerate(self._k):
            if _same_key(kk, k):
                return i
        return -1

    def __getitem__(self, k):
        i = self._find(k)
        if i < 0:
            if self.default_factory is not None:
                v = self.default_factory()
                self._k.append(k)
                self._v.append(v)
                return v
            raise KeyError(k)
        return self._v[i]

    def __setitem__(self, k, v):
        i = self._find(k)
        if i < 0:
            self._k.append(k)
            self._v.append(v)
        else:
            self._v[i] = v

    def __delitem__(self, k):
        i = self._find(k)
        if i < 0:
            raise KeyError(k)
        del self._k[i]
        del self._v[i]

    def __contains__(self, k):
        return self._find(k) >= 0

    def __iter__(self):
        return iter(list(self._k))

    def __vc_len__(self):
        return len(self._k)

    def __len__(self):
        return len(self._k)

    def __bool__(self):
        return bool(self._k)

    def __eq__(self, o):
        if isinstance(o, CDict):
            if len(o._k) != len(self._k):
                return False
            for k, v in zip(self._k, self._v):
                i = o._find(k)
                if i < 0 or not truth(o._v[i] == v):
                    return False
            return True
        if isinstance(o, dict):
            return self == CDict(o)
        return NotImplemented

    __hash__ = None

    def keys(self):
        return list(self._k)

    def values(self):
        return list(self._v)

    def items(self):
        return list(zip(self._k, self._v))

    def get(self, k, d=None):
        i = self._find(k)
        return d if i < 0 else self._v[i]

    def pop(self, k, d=_MISSING):
        i = self._find(k)
        if i < 0:
            if d is _MISSING:
                raise KeyError(k)
            return d
        v = self._v[i]
        del self._k[i]
        del self._v[i]
        return v

    def popitem(self):
        if not self._k:
            raise KeyError('popitem(): dictionary is empty')
        return self._k.pop(), self._v.pop()

    def setdefault(self, k, d=None):
        i = self._find(k)
        if i < 0:
            self._k.append(k)
            self._v.append(d)
            return d
        return self._v[i]

    def update(self, other=(), **kw):
        if isinstance(other, (CDict, dict)):
            other = list(other.items())
        elif hasattr(other, 'items') and not isinstance(other, (list, tuple)):
            other = list(other.items())
        for k, v in other:
            self[k] = v
        for k, v in kw.items():
            self[k] = v

    def copy(self):
        d = CDict(default_factory=self.default_factory)
        d._k, d._v = list(self._k), list(self._v)
        return d

    def clear(self):
        self._k, self._v = [], []

    def __repr__(self):
        return 'CDict(%r)' % (self.items(),)

    def __vc_havoc__(self, name, assigned):
        raise OutOfSubset('dict %s is modified in a cut loop: use an SMap model for it' % name)


def CDefaultDict(factory=None, *a, **kw):
    d = CDict(default_factory=factory)
    if a:
        d.update(a[0])
    d.update(**kw)
    return d


class SSet(Sym):
    __slots__ = ('T', 't')

    def __init__(self, T, t):
        self.T, self.t = T, t

    @classmethod
    def empty(cls, T=None):
        T = T or theory()
        return cls(T, z3.EmptySet(T.V))

    @classmethod
    def fresh(cls, name='S', T=None):
        T = T or theory()
        return cls(T, ctx().fresh(z3.SetSort(T.V), name))

    def __repr__(self):
        return 'SSet(%s)' % str(self.t)[:80]

    def _lift_other(self, o):
        if isinstance(o, SSet):
            return o.t
        T = self.T
        if isinstance(o, SSeq) or isinstance(o, SV):
            hook = getattr(T, 'set_of_seq', None)
            if hook is None:
                raise OutOfSubset('set from symbolic sequence needs theory.set_of_seq')
            return hook(T.lift_seq(o))
        if isinstance(o, (set, frozenset, list, tuple)) or hasattr(o, '__iter__'):
            t = z3.EmptySet(T.V)
            for x in o:
                t = z3.SetAdd(t, T.lift(x))
            return t
        raise OutOfSubset('cannot make a set of %r' % (o,))

    def havoc(self, name):
        return SSet(self.T, ctx().fresh(z3.SetSort(self.T.V), name))

    def copy(self):
        return SSet(self.T, self.t)

    def __contains__(self, x):
        return truth(mk_bool(z3.IsMember(self.T.lift(x), self.t)))

    def add(self, x):
        self.t = z3.SetAdd(self.t, self.T.lift(x))

    def discard(self, x):
        self.t = z3.SetDel(self.t, self.T.lift(x))

    def remove(self, x):
        if not truth(mk_bool(z3.IsMember(self.T.lift(x), self.t))):
            raise KeyError(x)
        self.discard(x)

    def update(self, *others):
        for o in others:
            self.t = z3.SetUnion(self.t, self._lift_other(o))

    def difference_update(self, *others):
        for o in others:
            self.t = z3.SetDifference(self.t, self._lift_other(o))

    def intersection_update(self, *others):
        for o in others:
            self.t = z3.SetIntersect(self.t, self._lift_other(o))

    def union(self, *others):
        r = self.copy()
        r.update(*others)
        return r

    def difference(self, *others):
        r = self.copy()
        r.difference_update(*others)
        return r

    def intersection(self, *others):
        r = self.copy()
        r.intersection_update(*others)
        return r

    def __or__(self, o): return self.union(o)
    def __ror__(self, o): return self.union(o)
    def __and__(self, o): return self.intersection(o)
    def __rand__(self, o): return self.intersection(o)
    def __sub__(self, o): return self.difference(o)
    def __rsub__(self, o): return SSet(self.T, z3.SetDifference(self._lift_other(o), self.t))

    def __ior__(self, o):
        self.update(o)
        return self

    def __iand__(self, o):
        self.intersection_update(o)
        return self

    def __isub__(self, o):
        self.difference_update(o)
        return self

    def issubset(self, o):
        return mk_bool(z3.IsSubset(self.t, self._lift_other(o)))

    def __le__(self, o): return self.issubset(o)
    def __ge__(self, o): return mk_bool(z3.IsSubset(self._lift_other(o), self.t))

    def __eq__(self, o):
        if isinstance(o, (SSet, set, frozenset)):
            return mk_bool(self.t == self._lift_other(o))
        return False

    def __ne__(self, o):
        r = self.__eq__(o)
        return mk_bool(z3.Not(as_bool_term(r)))

    def __bool__(self):
        return ctx().branch(self.t != z3.EmptySet(self.T.V), 'set-nonempty')

    def __iter__(self):
        raise OutOfSubset('iteration over a symbolic set')

    def clear(self):
        self.t = z3.EmptySet(self.T.V)

    def __vc_comp__(self, vc, kind, ordinal, elt, cond):
        """{elt(x) for x in self if cond(x)}: cond and elt are summarised on one fresh element (all paths
        merged).  An identity element expression gives the filtered set exactly, as a lambda term; any other
        element expression needs `theory.set_image(elt_term, x, filtered set)` (a spec function of the sidecar)."""
        from . import vcrt
        T = self.T
        outer = ctx()
        x = z3.Const('setx!%d' % next(vcrt._COMP_COUNTER), T.V)
        guard = getattr(T, 'set_element_type', None)
        if guard is not None:           # type invariant of the set's elements (x is a fresh constant)
            outer.assume(guard(x))
        cases = vcrt.summarize(lambda: vcrt._cond_elt(cond, elt, T.lower(x), T), outer)
        cond_t, elt_t = None, None
        for pc, (c, e) in reversed(cases):
            g = z3.And(pc) if pc else z3.BoolVal(True)
            cond_t = c if cond_t is None else z3.If(g, c, cond_t)
            elt_t = e if elt_t is None else z3.If(g, e, elt_t)
        alg = _set_algebra(z3.simplify(cond_t), x, T.V)
        if z3.is_true(z3.simplify(cond_t)):
            filt = self.t
        elif alg is not None:         # the filter is a boolean combination of memberships: plain set algebra
            filt = z3.SetIntersect(self.t, alg)
        else:
            filt = z3.Lambda([x], z3.And(z3.IsMember(x, self.t), cond_t))
        ident = z3.simplify(z3.Implies(cond_t, elt_t == x))
        if not z3.is_true(ident):
            sv = z3.Solver()
            sv.set('rlimit', 2_000_000)
            sv.add(z3.Not(ident))
            if sv.check() == z3.unsat:
                ident = z3.BoolVal(True)
        if z3.is_true(ident):
            return SSet(T, filt)
        hook = getattr(T, 'set_image', None)
        if hook is None:
            raise OutOfSubset('image of a symbolic set under a non-identity element expression needs theory.set_image')
        return SSet(T, hook(elt_t, x, filt))


def _mentions(t, x):
    todo, seen = [t], set()
    while todo:
        u = todo.pop()
        if u.get_id() in seen:
            continue
        seen.add(u.get_id())
        if u.eq(x):
            return True
        if z3.is_app(u):
            todo.extend(u.children())
        elif z3.is_quantifier(u):
            return True
    return False


def _set_algebra(c, x, sort):
    """{x | c(x)} as a set term when c is a boolean combination of `x in Q` (Q free of x); else None"""
    if z3.is_true(c):
        return z3.FullSet(sort)
    if z3.is_false(c):
        return z3.EmptySet(sort)
    if z3.is_not(c):
        r = _set_algebra(c.arg(0), x, sort)
        return None if r is None else z3.SetComplement(r)
    if z3.is_and(c) or z3.is_or(c):
        parts = [_set_algebra(a, x, sort) for a in c.children()]
        if any(p is None for p in parts):
            return None
        r = parts[0]
        for p in parts[1:]:
            r = z3.SetIntersect(r, p) if z3.is_and(c) else z3.SetUnion(r, p)
        return r
    if z3.is_select(c) and c.arg(1).eq(x) and not _mentions(c.arg(0), x):
        return c.arg(0)
    return None


def make_set(items=()):
    if isinstance(items, SSet):
        return items.copy()
    if isinstance(items, (SSeq, SV)):
        s = SSet.empty()
        s.update(items)
        return s
    items = list(items)
    if not any(_has_sym(x) for x in items):
        try:
            return set(items)
        except TypeError:
            pass
    s = SSet.empty()
    for x in items:
        s.add(x)
    return s


class SMap(Sym):
    """dict of symbolic shape: domain set + total value array over V"""
    __slots__ = ('T', 'dom', 'val', 'default_factory')

    def __init__(self, T, dom, val, default_factory=None):
        self.T, self.dom, self.val, self.default_factory = T, dom, val, default_factory

    @classmethod
    def empty(cls, T=None, default_factory=None):
        T = T or theory()
        return cls(T, z3.EmptySet(T.V), z3.K(T.V, T.V.VNone), default_factory)

    @classmethod
    def fresh(cls, name='M', T=None, default_factory=None):
        T = T or theory()
        c = ctx()
        return cls(T, c.fresh(z3.SetSort(T.V), name + '_dom'), c.fresh(z3.ArraySort(T.V, T.V), name + '_val'),
                   default_factory)

    def havoc(self, name):
        return SMap.fresh(name, self.T, self.default_factory)

    def copy(self):
        return SMap(self.T, self.dom, self.val, self.default_factory)

    def _has(self, k):
        return z3.IsMember(k, self.dom)

    def __contains__(self, k):
        return truth(mk_bool(self._has(self.T.lift(k))))

    def __getitem__(self, k):
        kt = self.T.lift(k)
        if not ctx().branch(self._has(kt), 'map-has-key'):
            if self.default_factory is not None:
                v = self.default_factory()
                self.dom = z3.SetAdd(self.dom, kt)
                self.val = z3.Store(self.val, kt, self.T.lift(v))
                return v
            raise KeyError(k)
        return self.T.lower(z3.Select(self.val, kt))

    def __setitem__(self, k, v):
        kt = self.T.lift(k)
        self.dom = z3.SetAdd(self.dom, kt)
        self.val = z3.Store(self.val, kt, self.T.lift(v))

    def __delitem__(self, k):
        kt = self.T.lift(k)
        if not ctx().branch(self._has(kt), 'map-has-key'):
            raise KeyError(k)
        self.dom = z3.SetDel(self.dom, kt)

    def get(self, k, d=None):
        kt = self.T.lift(k)
        if ctx().branch(self._has(kt), 'map-has-key'):
            return self.T.lower(z3.Select(self.val, kt))
        return d

    def pop(self, k, d=_MISSING):
        kt = self.T.lift(k)
        if ctx().branch(self._has(kt), 'map-has-key'):
            v = self.T.lower(z3.Select(self.val, kt))
            self.dom = z3.SetDel(self.dom, kt)
            return v
        if d is _MISSING:
            raise KeyError(k)
        return d

    def setdefault(self, k, d=None):
        kt = self.T.lift(k)
        if ctx().branch(self._has(kt), 'map-has-key'):
            return self.T.lower(z3.Select(self.val, kt))
        self.dom = z3.SetAdd(self.dom, kt)
        self.val = z3.Store(self.val, kt, self.T.lift(d))
        return d

    def update(self, other=(), **kw):
        if isinstance(other, SMap):
            k = z3.Const('k!upd', self.T.V)
            self.val = z3.Lambda([k], z3.If(z3.IsMember(k, other.dom), z3.Select(other.val, k),
                                            z3.Select(self.val, k)))
            self.dom = z3.SetUnion(self.dom, other.dom)
        else:
            if hasattr(other, 'items'):
                other = other.items()
            for kk, v in other:
                self[kk] = v
        for kk, v in kw.items():
            self[kk] = v

    def clear(self):
        self.dom = z3.EmptySet(self.T.V)

    def __bool__(self):
        return ctx().branch(self.dom != z3.EmptySet(self.T.V), 'map-nonempty')

    def __iter__(self):
        raise OutOfSubset('iteration over a symbolic map')

    def items(self):
        raise OutOfSubset('items() of a symbolic map')

    keys = values = items
