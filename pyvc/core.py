"""pyvc core: path exploration by re-execution, obligations, two-pass discharge.

A function under verification is executed by CPython on symbolic proxy values.  Every
truth test on a proxy calls :func:`branch`, which consults the decision vector of the
current run; unexplored alternatives are queued and explored by re-running the function
from the start (DESIGN 3.4).  Every assertion becomes a named obligation whose hypothesis
is the path condition at that point.
"""
import time
import z3

# deterministic budgets (resource limits, not wall clock: verdicts must not flip under load)
RLIMIT_PROOF = 40_000_000
RLIMIT_REFUTE = 40_000_000
SOLVER_TIMEOUT_MS = 30_000
FEAS_RLIMIT = 300_000            # decides the probes (about 50 ms on an idle core); unknown counts as feasible
FEAS_TIMEOUT_MS = 30_000         # wall-clock safety net only: a 400 ms limit here flipped probes to `unknown` on a
                                 # loaded machine, so infeasible paths were explored in some runs and not in others
VACUITY_RLIMIT = 5_000_000       # second opinion of the vacuity guards (is the path condition itself satisfiable?)
MAX_PATHS = 4000
PRUNED_EXPLORATION_S = 60


_NL_CACHE = {}
_NL_FUNS = {}


def _nl_fun(name, sorts):
    key = (name,) + tuple(str(x) for x in sorts)
    f = _NL_FUNS.get(key)
    if f is None:
        f = z3.Function('nl!%s!%d' % (name, len(_NL_FUNS)), *sorts)
        _NL_FUNS[key] = f
    return f


def abstract_nonlinear(t):
    """Over-approximate a formula for *feasibility probes only*: products of two non-numerals and divisions /
    modulo by a non-numeral become uninterpreted functions (z3 ignores its timeout inside nonlinear reasoning,
    and a probe may safely answer 'feasible' too often)."""
    i = t.get_id()
    r = _NL_CACHE.get(i)
    if r is not None:
        return r[1]
    if z3.is_quantifier(t) or not z3.is_app(t) or t.num_args() == 0:
        r = t
    else:
        args = [abstract_nonlinear(a) for a in t.children()]
        k = t.decl().kind()
        if k == z3.Z3_OP_MUL:
            non = [a for a in args if not (z3.is_int_value(a) or z3.is_rational_value(a))]
            if len(non) >= 2:
                acc = args[0]
                for a in args[1:]:
                    if (z3.is_int_value(a) or z3.is_rational_value(a)) or (z3.is_int_value(acc) or z3.is_rational_value(acc)):
                        acc = acc * a
                    else:
                        acc = _nl_fun('mul', [acc.sort(), a.sort(), t.sort()])(acc, a)
                r = acc
            else:
                r = t.decl()(*args)
        elif k in (z3.Z3_OP_DIV, z3.Z3_OP_IDIV, z3.Z3_OP_MOD, z3.Z3_OP_REM) and not (
                z3.is_int_value(args[1]) or z3.is_rational_value(args[1])):
            r = _nl_fun('div%d' % k, [args[0].sort(), args[1].sort(), t.sort()])(args[0], args[1])
        elif k == z3.Z3_OP_POWER:
            r = _nl_fun('pow', [args[0].sort(), args[1].sort(), t.sort()])(args[0], args[1])
        else:
            try:
                r = t.decl()(*args)
            except z3.Z3Exception:
                r = t
    _NL_CACHE[i] = (t, r)        # keep t alive: z3 reuses ast ids of collected terms
    if len(_NL_CACHE) > 200000:
        _NL_CACHE.clear()
    return r


DEFS = {}        # RecFunction name -> (decl, vars, body): kept so that definitions can be unfolded by hand


def define_rec(f, vs, body):
    z3.RecAddDefinition(f, vs, body)
    DEFS[f.name()] = (f, list(vs), body)


class PathEnd(BaseException):
    """Silently ends the current path (after a loop cut, an infeasible assumption, ...)."""


class OutOfSubset(BaseException):
    """The code under verification uses a construct the engine does not model (exit 3)."""


class CheckerError(BaseException):
    pass


class Obligation:
    __slots__ = ('name', 'hyps', 'goal', 'path', 'status', 'model', 'time', 'backend', 'note', 'decode')

    def __init__(self, name, hyps, goal, path, decode=None):
        self.name, self.hyps, self.goal, self.path = name, list(hyps), goal, path
        self.status = None      # 'proved' | 'refuted' | 'unknown'
        self.model = None
        self.time = 0.0
        self.backend = None
        self.note = ''
        self.decode = decode    # callable(model) -> JSON-able concrete input (or None)


class Ctx:
    """State of one symbolic run (one path) and of the whole exploration of one function."""

    def __init__(self, label='?', lemmas=(), axioms_ground=None):
        self.label = label
        self.lemmas = list(lemmas)          # quantified, proved elsewhere (or axioms of spec symbols)
        self.axioms_ground = axioms_ground  # callable(list_of_terms) -> ground instances (refutation pass)
        self.pending = [[]]
        self.obligations = []
        self.paths = 0
        self.path_outcomes = []
        self.assumptions = set()            # textual notes collected while running (models used, ...)
        self._feas = z3.Solver()
        self._set_feas_limits()
        self.reset_path([])

    # ---- per path -------------------------------------------------------------------------
    def reset_path(self, decisions):
        self.decisions = list(decisions)
        self.pos = 0
        self.pc = []
        self.pc_ids = {}
        self.counter = {}
        self.ghost = {}
        self.heap_log = []
        self.trace = []
        self._feas.reset()
        self._set_feas_limits()

    def _set_feas_limits(self):
        self._feas.set('timeout', FEAS_TIMEOUT_MS)
        self._feas.set('rlimit', FEAS_RLIMIT)

    def fresh_name(self, prefix):
        n = self.counter.get(prefix, 0)
        self.counter[prefix] = n + 1
        return '%s!%d' % (prefix, n)

    def fresh(self, sort, prefix='v'):
        return z3.Const(self.fresh_name(prefix), sort)

    def assume(self, cond):
        cond = z3.simplify(cond) if z3.is_expr(cond) else z3.BoolVal(bool(cond))
        if z3.is_false(cond):
            raise PathEnd()
        if z3.is_true(cond):
            return
        self.pc.append(cond)
        if z3.is_not(cond):
            self.pc_ids[cond.arg(0).get_id()] = False
        else:
            self.pc_ids[cond.get_id()] = True
        self._feas.add(abstract_nonlinear(cond))

    def known(self, cond):
        """True / False if the condition was decided syntactically on this path, else None"""
        return self.pc_ids.get(z3.simplify(cond).get_id())

    def probe(self, cond=None):
        """three-valued feasibility probe of the (nonlinear-abstracted) path condition [and cond]"""
        if cond is None:
            return self._feas.check()
        return self._feas.check(abstract_nonlinear(cond))

    def feasible(self, cond):
        return self.probe(cond) != z3.unsat

    def pc_satisfiable(self, upto=None):
        """Is the path condition (its first `upto` conjuncts) satisfiable?  Used by the vacuity guards to tell
        'the contract contradicts a feasible path' (sat) from 'this path was infeasible all along and an earlier
        probe merely ran out of budget' (unsat).  Exact formula (nothing abstracted), quantified conjuncts
        dropped (an over-approximation, so `unsat` is definite); rlimit-bounded."""
        s = z3.Solver()
        s.set('rlimit', VACUITY_RLIMIT)
        s.set('timeout', SOLVER_TIMEOUT_MS)
        for h in (self.pc if upto is None else self.pc[:upto]):
            if not z3.is_quantifier(h):
                s.add(h)
        return s.check()

    def branch(self, cond, tag=''):
        """Decide a symbolic truth test.  Returns a concrete bool and extends the path condition."""
        if isinstance(cond, bool):
            return cond
        cond = z3.simplify(cond)
        if z3.is_true(cond):
            return True
        if z3.is_false(cond):
            return False
        known = self.pc_ids.get(cond.get_id())
        if known is not None:
            return known            # syntactically decided earlier on this path: no new decision point
        if self.pos < len(self.decisions):
            d = self.decisions[self.pos]
        else:
            t = self.feasible(cond)
            f = self.feasible(z3.Not(cond))
            if t and f:
                self.pending.append(self.decisions[:self.pos] + [False])
                d = True
            elif t:
                d = True
            elif f:
                d = False
            else:
                raise PathEnd()     # path condition itself infeasible
            self.decisions.append(d)
        self.pos += 1
        c = cond if d else z3.Not(cond)
        self.pc.append(c)
        self.pc_ids[cond.get_id()] = d
        self._feas.add(abstract_nonlinear(c))
        self.trace.append((tag, d))
        return d

    def choose(self, n, tag=''):
        """Non-deterministic choice among n alternatives (ghost forks), explored exhaustively."""
        for i in range(n - 1):
            b = z3.Bool(self.fresh_name('choice'))
            if self.branch(b, tag):
                return i
        return n - 1

    def check(self, goal, name, decode=None):
        if isinstance(goal, bool):
            goal = z3.BoolVal(goal)
        self.obligations.append(Obligation('%s/%s' % (self.label, name), self.pc, goal, self.paths, decode))

    # ---- exploration ----------------------------------------------------------------------
    def explore(self, run):
        """run() executes the function once on fresh symbolic inputs.  Called once per path."""
        global CTX
        t_start = time.time()
        while self.pending:
            if self.paths >= MAX_PATHS:
                raise CheckerError('%s: more than %d paths; give a helper a contract' % (self.label, MAX_PATHS))
            if getattr(self, 'pruned', False) and time.time() - t_start > PRUNED_EXPLORATION_S:
                # an exploration that already abandoned paths (recursive helper without contract) proves nothing:
                # stop early instead of enumerating thousands of paths
                raise CheckerError('%s: exploration with an uncontracted recursive helper stopped after %d s and %d '
                                   'paths; the helper needs a contract' % (self.label, PRUNED_EXPLORATION_S, self.paths))
            dec = self.pending.pop()
            self.reset_path(dec)
            prev, CTX = CTX, self
            try:
                try:
                    out = run()
                    self.path_outcomes.append(('ok', out))
                except PathEnd:
                    self.path_outcomes.append(('end', None))
            finally:
                CTX = prev
            self.paths += 1


CTX = None


def ctx():
    if CTX is None:
        raise CheckerError('no active verification context')
    return CTX


# ---- discharge ----------------------------------------------------------------------------

_TIMEOUT_OVERRIDE = [None]


# A proof query that is normally discharged in milliseconds occasionally diverges (unlucky instantiation order:
# the verdict of the *same* formula depends on the term ids z3 happened to hand out before).  A diverged attempt is
# repeated under other random seeds before the obligation moves on to the expensive stages; `unsat` from any
# attempt is a proof, so this only removes spurious `unknown`s.
RETRY_SEEDS = (None, 1, 2, 3)


def _mk_solver(rlimit, seed=None):
    s = z3.Solver()
    if seed is not None:
        s.set('random_seed', seed)
    s.set('rlimit', rlimit)
    s.set('timeout', _TIMEOUT_OVERRIDE[0] or SOLVER_TIMEOUT_MS)       # safety net only; the rlimit is what decides
    return s


_UF_OF = {}


def _uf_decl(f):
    u = _UF_OF.get(f.name())
    if u is None:
        u = z3.Function('uf!' + f.name(), *([f.domain(i) for i in range(f.arity())] + [f.range()]))
        _UF_OF[f.name()] = u
    return u


def _to_uf(t, cache):
    """replace every RecFunction application by the application of a plain uninterpreted function"""
    i = t.get_id()
    r = cache.get(i)
    if r is not None:
        return r
    if z3.is_quantifier(t) or not z3.is_app(t) or t.num_args() == 0:
        r = t
    else:
        args = [_to_uf(a, cache) for a in t.children()]
        d = t.decl()
        if d.name() in DEFS and DEFS[d.name()][0].eq(d):
            r = _uf_decl(d)(*args)
        else:
            try:
                r = d(*args)
            except z3.Z3Exception:
                r = t
    cache[i] = r
    return r


def _rec_apps(terms):
    out, seen = [], set()
    for t in _subterms(terms):
        if z3.is_app(t) and t.num_args() > 0 and t.decl().name() in DEFS and DEFS[t.decl().name()][0].eq(t.decl()):
            if t.get_id() not in seen:
                seen.add(t.get_id())
                out.append(t)
    return out


def uf_pass(ob, lemmas, rounds=4, budget=5_000_000, limit=1200):
    """Proof pass for goals that mix RecFunction unfolding with nonlinear arithmetic (where z3 stalls):
    RecFunctions become plain uninterpreted functions; their definitions are unfolded *by hand* on the
    applications that occur (a few rounds) and the quantified lemmas are ground-instantiated on the occurring
    terms.  Everything added is an instance of a definition or of a proved lemma, so `unsat` is a valid proof."""
    forms = list(ob.hyps) + [z3.Not(ob.goal)]
    extra, seen = [], set()
    pool = list(forms)
    for _ in range(rounds):
        new = []
        for app in _rec_apps(pool):
            if app.get_id() in seen:
                continue
            seen.add(app.get_id())
            f, vs, body = DEFS[app.decl().name()]
            inst = z3.substitute(body, *[(v, a) for v, a in zip(vs, app.children())])
            new.append(app == inst)
        gi = ground_instances([l for l in lemmas if z3.is_quantifier(l)], pool, rounds=1, limit=limit)
        for g in gi:
            if g.get_id() not in seen:
                seen.add(g.get_id())
                new.append(g)
        if not new or len(extra) + len(new) > limit:
            extra.extend(new[:max(0, limit - len(extra))])
            break
        extra.extend(new)
        pool = pool + new
    cache = {}
    s = _mk_solver(budget)
    for f in forms + extra:
        s.add(_to_uf(f, cache))
    r = s.check()
    return r, s


def check_retry(forms, rlimit):
    """check-sat of a list of formulas; an `unknown` is retried under the other seeds of RETRY_SEEDS"""
    r = z3.unknown
    for seed in RETRY_SEEDS:
        s = _mk_solver(rlimit, seed)
        for f in forms:
            s.add(f)
        r = s.check()
        if r != z3.unknown:
            break
    return r


EXT_Z3 = None
EXT_RLIMIT = 3_000_000
EXT_SEEDS = (0, 1, 2)
EXT_WALL_S = 120                 # safety net; the queries this pass exists for take well under a second


def _ext_z3():
    global EXT_Z3
    if EXT_Z3 is None:
        import shutil
        EXT_Z3 = shutil.which('z3-new') or shutil.which('z3') or ''
    return EXT_Z3


def external_pass(ob, lemmas, budget=EXT_RLIMIT, seeds=EXT_SEEDS):
    """Proof pass in a *fresh solver process* (the z3 command line tool on the SMT-LIB dump of lemmas, hypotheses
    and negated goal).  Whether an in-process query diverges depends on everything the process asked z3 before
    (term ids, learned state): an obligation that is discharged in milliseconds in one run exhausts every budget
    in another.  A fresh process has no history, so its verdict depends on the formula alone; budgets are rlimits,
    -T is a wall-clock safety net only.  Only `unsat` is used."""
    exe = _ext_z3()
    if not exe:
        return z3.unknown, 'no z3 executable'
    import subprocess
    s = z3.Solver()
    for l in lemmas:
        s.add(l)
    for h in ob.hyps:
        s.add(h)
    s.add(z3.Not(ob.goal))
    try:
        txt = s.to_smt2()
    except Exception as e:        # pylint: disable=broad-except
        return z3.unknown, 'no smt2: %s' % e
    why = ''
    for seed in seeds:
        t0 = time.time()
        try:
            p = subprocess.run([exe, '-smt2', '-in', '-T:%d' % EXT_WALL_S, 'rlimit=%d' % budget,
                                'smt.random_seed=%d' % seed, 'sat.random_seed=%d' % seed],
                               input=txt, capture_output=True, text=True, timeout=EXT_WALL_S + 30)
        except Exception as e:    # pylint: disable=broad-except
            return z3.unknown, type(e).__name__
        out = p.stdout.strip().splitlines()
        v = out[0].strip() if out else ''
        if v == 'unsat':
            return z3.unsat, 'seed %d' % seed
        why = v[:40]
        if v == 'timeout' or time.time() - t0 >= EXT_WALL_S:
            break           # a theory on which the rlimit does not bite (strings): other seeds will not help
    return z3.unknown, why


P_SMALL, R_SMALL, P_BIG, R_BIG = 3_000_000, 4_000_000, 8_000_000, 6_000_000
DEFAULT_BUDGETS = (P_SMALL, R_SMALL, 5_000_000, P_BIG, R_BIG)


def _pass(ob, lemmas, ginst, kind, budget, interp=None, seed=None):
    s = _mk_solver(budget, seed)
    if kind == 'proof' or interp is None:
        for l in (lemmas if kind == 'proof' else ginst):
            s.add(l)
        for h in ob.hyps:
            s.add(h)
        s.add(z3.Not(ob.goal))
    else:
        # counterexample search on the *interpreted* operations (uninterpreted mul/div substituted back)
        cache = {}
        for l in ginst:
            s.add(interp(l, cache))
        for h in ob.hyps:
            if z3.is_quantifier(h):
                continue        # candidate search only: quantified hypotheses are dropped (replay decides)
            s.add(interp(h, cache))
        s.add(interp(z3.Not(ob.goal), cache))
        for sd in cache.get('__side__', []):
            s.add(sd)           # validity conditions of the interpretation (e.g. bounded string length)
    r = s.check()
    return r, s


def discharge(ob, lemmas, ground=None, want_model=True, interp=None, hints=None, budgets=None, ext=True):
    """Two kinds of pass (DESIGN 3.6): *proof* with the quantified lemmas; *refutation* quantifier-free with
    ground axiom instances (gives models; with lemmas present z3 answers unknown for every false goal).
    Budgets are rlimits (deterministic).  Order: small proof, small refutation, big proof, big refutation.
    A refutation found with only ground instances is a *candidate*: it is accepted only after the big proof
    pass has failed as well, so a goal that is provable within budget is never reported as refuted."""
    t0 = time.time()
    ob.backend = 'z3'
    notes = []
    ginst = []
    P_SMALL, R_SMALL, UF_B, P_BIG, R_BIG = (budgets or DEFAULT_BUDGETS)[:5]
    _TIMEOUT_OVERRIDE[0] = budgets[5] if budgets and len(budgets) > 5 else None
    if ground is not None and lemmas:
        ginst = ground(list(ob.hyps) + [ob.goal])
    model = None
    if hints is not None:
        # ground instances (on the obligation's own terms) of proved laws that must not be given to the solver
        # as quantifiers; they are extra hypotheses of the proof passes
        hs = hints(list(ob.hyps) + [ob.goal])
        if hs:
            ob.hyps = list(ob.hyps) + list(hs)

    tlast = [time.time()]

    def lap():
        t = time.time()
        d, tlast[0] = t - tlast[0], t
        return '(%.1fs)' % d

    def note(kind, budget, r, s):
        notes.append('%s@%dM:%s%s' % (kind, budget // 1_000_000, s.reason_unknown() if r == z3.unknown else r, lap()))

    r, s = _pass(ob, lemmas, ginst, 'proof', P_SMALL)
    if r == z3.unknown:
        for seed in RETRY_SEEDS[1:]:
            rr, ss = _pass(ob, lemmas, ginst, 'proof', P_SMALL, seed=seed)
            if rr != z3.unknown:
                notes.append('proof@%dM:%s;retry(seed %d)' % (P_SMALL // 1_000_000, s.reason_unknown(), seed))
                r, s = rr, ss
                break
    if r == z3.unsat:
        ob.status = 'proved'
    elif r == z3.sat and not lemmas:
        ob.status, ob.model = 'refuted', s.model()
    else:
        note('proof', P_SMALL, r, s)
        if lemmas:
            r2, s2 = _pass(ob, lemmas, ginst, 'refute', R_SMALL, interp)
            if r2 == z3.unsat:
                ob.status = 'proved'
            elif r2 == z3.sat:
                model = s2.model()
            else:
                note('refute', R_SMALL, r2, s2)
        if ob.status is None and ext:
            rx, wx = external_pass(ob, lemmas)
            if rx == z3.unsat:
                ob.status = 'proved'
                ob.backend = 'z3(fresh process)'
                notes.append('ext:' + wx + lap())
            else:
                notes.append('ext@%dM:%s%s' % (EXT_RLIMIT // 1_000_000, wx, lap()))
        if ob.status is None and lemmas and UF_B:
            ru, su = uf_pass(ob, lemmas, budget=UF_B)
            if ru == z3.unsat:
                ob.status = 'proved'
                ob.backend = 'z3(uf-pass)'
            else:
                note('uf', UF_B, ru, su)
        if ob.status is None:
            r3, s3 = _pass(ob, lemmas, ginst, 'proof', P_BIG)
            if r3 == z3.unsat:
                ob.status = 'proved'
            elif r3 == z3.sat and not lemmas:
                ob.status, ob.model = 'refuted', s3.model()
            else:
                note('proof', P_BIG, r3, s3)
                if model is None and lemmas:
                    r4, s4 = _pass(ob, lemmas, ginst, 'refute', R_BIG, interp)
                    if r4 == z3.unsat:
                        ob.status = 'proved'
                    elif r4 == z3.sat:
                        model = s4.model()
                    else:
                        note('refute', R_BIG, r4, s4)
                if ob.status is None:
                    if model is not None:
                        ob.status, ob.model = 'refuted', model
                    else:
                        ob.status = 'unknown'
    ob.note = ' '.join(notes)
    ob.time = time.time() - t0
    return ob


def prove_lemma_by_induction(name, VL, nil, cons, hd, tl, stmt, lemmas=(), extra_vars=()):
    """Structural induction over a cons-list variable: stmt(L) for all L.

    stmt: callable(list_term) -> BoolRef.  Returns (ok, detail)."""
    x = z3.Const('ind!x', hd.range())
    r = z3.Const('ind!r', VL)
    res = []
    for tag, hyps, goal in (('base', [], stmt(nil)), ('step', [stmt(r)], stmt(cons(x, r)))):
        res.append((tag, check_retry(list(lemmas) + list(hyps) + [z3.Not(goal)], RLIMIT_PROOF)))
    ok = all(r == z3.unsat for _, r in res)
    return ok, res


# ---- ground instantiation of quantified axioms (refutation pass, DESIGN 3.6 step 2) -----------------

def _subterms(terms):
    seen, out, todo = set(), [], list(terms)
    while todo:
        t = todo.pop()
        i = t.get_id()
        if i in seen:
            continue
        seen.add(i)
        if z3.is_quantifier(t):
            continue
        out.append(t)
        if z3.is_app(t):
            todo.extend(t.children())
    return out


def _match(pat, term, sub):
    """first-order matching of pattern (with de Bruijn vars) against a ground term"""
    if z3.is_var(pat):
        i = z3.get_var_index(pat)
        if i in sub:
            return sub if sub[i].eq(term) else None
        if pat.sort() != term.sort():
            return None
        s2 = dict(sub)
        s2[i] = term
        return s2
    if not z3.is_app(pat) or not z3.is_app(term):
        return None
    if not pat.decl().eq(term.decl()) or pat.num_args() != term.num_args():
        return None
    for a, b in zip(pat.children(), term.children()):
        sub = _match(a, b, sub)
        if sub is None:
            return None
    return sub


def ground_instances(axioms, terms, rounds=2, limit=400):
    """instantiate each ForAll axiom on the terms of the query that match its (single-term) patterns"""
    out, seen = [], set()
    pool = list(terms)
    for _ in range(rounds):
        subs = _subterms(pool)
        new = []
        for ax in axioms:
            if not z3.is_quantifier(ax) or not ax.is_forall():
                if ax.get_id() not in seen:
                    seen.add(ax.get_id())
                    out.append(ax)
                continue
            nv = ax.num_vars()
            for pi in range(ax.num_patterns()):
                p = ax.pattern(pi)
                if p.num_args() != 1:
                    continue
                pt = p.arg(0)
                for t in subs:
                    m = _match(pt, t, {})
                    if m is None or len(m) != nv:
                        continue
                    args = [m[nv - 1 - j] for j in range(nv)]
                    # substitute_vars: Var(i) is replaced by args[i]; ForAll([x0..xn-1]) binds x_j to index n-1-j
                    inst = z3.substitute_vars(ax.body(), *[m[j] for j in range(nv)])
                    k = inst.get_id()
                    if k in seen:
                        continue
                    seen.add(k)
                    new.append(inst)
                    if len(out) + len(new) > limit:
                        return out + new
        if not new:
            break
        out.extend(new)
        pool = pool + new
    return out


def prove_tree_induction(T, P, Q, lemmas=(), rlimit=RLIMIT_PROOF):
    """Mutual structural induction over the universal sort V and its cons-lists VL.

    P(v: V term) -> Bool, Q(l: VL term) -> Bool.  Proves  forall v. P(v)  and  forall l. Q(l):
    one case per constructor of V (hypotheses: P of every V-sorted field, Q of every VL-sorted field),
    Q(nil), and P(x) & Q(r) => Q(cons(x, r)).  Returns list of (case, verdict-string)."""
    out = []

    def run(tag, hyps, goal):
        out.append((tag, str(check_retry(list(lemmas) + list(hyps) + [z3.Not(goal)], rlimit))))

    V, VL = T.V, T.VL
    for i in range(V.num_constructors()):
        k = V.constructor(i)
        fs, hyps = [], []
        for j in range(k.arity()):
            srt = k.domain(j)
            f = z3.Const('ind!%s!%d' % (k.name(), j), srt)
            fs.append(f)
            if srt == V:
                hyps.append(P(f))
            elif srt == VL:
                hyps.append(Q(f))
        v = k(*fs) if fs else k()
        run('P/' + k.name(), hyps, P(v))
    run('Q/nil', [], Q(VL.nil))
    x, r = z3.Const('ind!x', V), z3.Const('ind!r', VL)
    run('Q/cons', [P(x), Q(r)], Q(VL.cons(x, r)))
    return out
