"""pyvc inline helpers: small real functions loaded from source by the same pipeline and executed
(rather than specified) when the code under verification calls them (DESIGN 3.2, `inline`)."""
from . import rewrite, vcrt

INLINED = {}        # label -> info (file, qualname, sha)
_CACHE = {}


def inline(relpath, qualname, glob, cut_loops=()):
    key = (relpath, qualname, id(glob))
    if key in _CACHE:
        return _CACHE[key]
    g = dict(vcrt.MODEL_BUILTINS)
    g.update(glob)
    g['__vc'] = vcrt.CurrentVC()
    g['__builtins__'] = {'__import__': __import__}
    info = {}
    fn, info = rewrite.load_function(relpath, qualname, LazyGlobals(g, glob), cut_loops=cut_loops, report=info)
    INLINED['%s::%s' % (relpath, qualname)] = {'file': relpath, 'qualname': qualname, 'sha': info['sha']}
    _CACHE[key] = fn
    return fn


class LazyGlobals(dict):
    """globals of an inlined helper: model builtins overlaid with the *live* sidecar namespace, so that
    helpers may refer to names bound later (mutual recursion between helpers)"""

    def __init__(self, base, live):
        super().__init__(base)
        self._live = live

    def __missing__(self, k):
        return self._live[k]

    def copy_lazy(self):
        return LazyGlobals(dict(self), self._live)
