"""pyvc extraction: re-read a function's real source from /repo on every run, apply the fixed
mechanical rewriting of DESIGN 3.2, compile it against model globals."""
import ast
import hashlib
import os
import textwrap

from .core import OutOfSubset, CheckerError

REPO = os.environ.get('LOKI_REPO', '/repo')

STR_METHODS = {'join', 'format', 'lower', 'upper', 'split', 'rsplit', 'partition', 'rpartition', 'replace',
               'strip', 'rstrip', 'lstrip', 'startswith', 'endswith', 'find', 'rfind', 'index', 'count',
               'splitlines', 'isdigit', 'isalpha', 'isidentifier', 'capitalize', 'title', 'ljust', 'rjust',
               'zfill', 'encode', 'casefold'}


def read_source(relpath):
    path = relpath if os.path.isabs(relpath) else os.path.join(REPO, relpath)
    with open(path, 'r', encoding='utf-8') as f:
        return f.read()


def find_def(tree, qualname):
    """locate a (possibly nested) FunctionDef/ClassDef by dotted name; returns (node, enclosing class or None)"""
    parts = qualname.split('.')
    node, cls = tree, None
    for i, p in enumerate(parts):
        found = None
        nth = 1
        if '#' in p:            # 'type#2': the second definition of that name in the class body (property setter)
            p, k = p.split('#')
            nth = int(k)
        for ch in ast.iter_child_nodes(node) if not isinstance(node, ast.Module) else node.body:
            if isinstance(ch, (ast.FunctionDef, ast.ClassDef, ast.AsyncFunctionDef)) and ch.name == p:
                nth -= 1
                if nth == 0:
                    found = ch
                    break
            # look into if/try blocks at module/class level
        if found is None:
            for ch in ast.walk(node):
                if ch is not node and isinstance(ch, (ast.FunctionDef, ast.ClassDef)) and ch.name == p:
                    found = ch
                    break
        if found is None:
            raise CheckerError('cannot find %s in source (looking for %s)' % (qualname, p))
        if isinstance(found, ast.ClassDef):
            cls = found
        node = found
    return node, cls


def func_text(src, node):
    lines = src.splitlines()
    return '\n'.join(lines[node.lineno - 1 - len(node.decorator_list):node.end_lineno])


def sha(text):
    return hashlib.sha256(text.encode()).hexdigest()[:16]


def _call(name, *args, keywords=()):
    return ast.Call(func=ast.Attribute(value=ast.Name(id='__vc', ctx=ast.Load()), attr=name, ctx=ast.Load()),
                    args=list(args), keywords=list(keywords))


def _locals_call():
    return ast.Call(func=ast.Name(id='__vc_locals', ctx=ast.Load()), args=[], keywords=[])


def _stmt(expr):
    return ast.Expr(value=expr)


def _const(v):
    return ast.Constant(value=v)


def stored_names(nodes):
    out = []
    for n in nodes:
        for ch in ast.walk(n):
            if isinstance(ch, ast.Name) and isinstance(ch.ctx, (ast.Store, ast.Del)):
                if ch.id not in out:
                    out.append(ch.id)
            elif isinstance(ch, (ast.FunctionDef, ast.ClassDef)):
                if ch.name not in out:
                    out.append(ch.name)
    return out


def loaded_names(nodes):
    """names read in `nodes`, free occurrences only: a name bound by an enclosing lambda (rewritten comprehension
    variables) or comprehension target is not a local of the function"""
    out = []

    def walk(n, bound):
        if isinstance(n, ast.Lambda):
            b = bound | {a.arg for a in n.args.args + n.args.kwonlyargs + n.args.posonlyargs}
            walk(n.body, b)
            return
        if isinstance(n, (ast.ListComp, ast.SetComp, ast.GeneratorExp, ast.DictComp)):
            b = set(bound)
            for g in n.generators:
                walk(g.iter, b)
                b |= {t.id for t in ast.walk(g.target) if isinstance(t, ast.Name)}
                for c in g.ifs:
                    walk(c, b)
            for part in ([n.key, n.value] if isinstance(n, ast.DictComp) else [n.elt]):
                walk(part, b)
            return
        if isinstance(n, ast.Name) and isinstance(n.ctx, ast.Load) and n.id not in out and n.id not in bound:
            out.append(n.id)
        for ch in ast.iter_child_nodes(n):
            walk(ch, bound)
    for n in nodes:
        walk(n, set())
    return out


class _LoopJump(ast.NodeTransformer):
    """inside a cut loop body: `continue` -> assert invariant and end the path.  Does not descend
    into nested loops / functions (their continue/break belong to them)."""

    def __init__(self, n):
        self.n = n

    def visit_For(self, node):
        return node

    visit_While = visit_For
    visit_FunctionDef = visit_For
    visit_Lambda = visit_For

    def visit_Continue(self, node):
        return _stmt(_call('loop_preserved', _const(self.n), _locals_call()))


class Rewriter(ast.NodeTransformer):
    def __init__(self, cut_loops=(), local_stubs=(), class_name=None, report=None):
        self.cut_loops = set(cut_loops)
        self.local_stubs = set(local_stubs)
        self.class_name = class_name
        self.loop_ordinal = 0
        self.comp_ordinal = 0
        self.depth = 0
        self.report = report if report is not None else {}
        self.report.setdefault('dropped', [])
        self.report.setdefault('loops', {})
        self.local_names = [set()]

    # ---- definitions ---------------------------------------------------------------------
    def visit_FunctionDef(self, node):
        self.depth += 1
        try:
            if self.depth > 1 and node.name in self.local_stubs:
                # nested helper with its own contract: replaced by the contract stub
                self.report['dropped'].append('nested def %s -> contract stub' % node.name)
                return ast.Assign(
                    targets=[ast.Name(id=node.name, ctx=ast.Store())],
                    value=_call('local_stub', _const(node.name), _locals_call()), lineno=node.lineno)
            node.decorator_list = []
            node.returns = None
            params = [a.arg for a in node.args.posonlyargs + node.args.args + node.args.kwonlyargs]
            if node.args.vararg:
                params.append(node.args.vararg.arg)
            if node.args.kwarg:
                params.append(node.args.kwarg.arg)
            self.local_names.append(set(params) | set(stored_names(node.body)) | self.local_names[-1])
            for a in node.args.posonlyargs + node.args.args + node.args.kwonlyargs:
                a.annotation = None
            if node.args.vararg:
                node.args.vararg.annotation = None
            if node.args.kwarg:
                node.args.kwarg.annotation = None
            if (node.body and isinstance(node.body[0], ast.Expr) and isinstance(node.body[0].value, ast.Constant)
                    and isinstance(node.body[0].value.value, str)):
                node.body = node.body[1:] or [ast.Pass()]
            self.generic_visit(node)
            self.local_names.pop()
            return node
        finally:
            self.depth -= 1

    def visit_AnnAssign(self, node):
        self.generic_visit(node)
        if node.value is None:
            return ast.Pass()
        return ast.Assign(targets=[node.target], value=node.value, lineno=node.lineno)

    # ---- expressions ---------------------------------------------------------------------
    def visit_Compare(self, node):
        self.generic_visit(node)
        if len(node.ops) == 1:
            op = node.ops[0]
            l, r = node.left, node.comparators[0]
            if isinstance(op, ast.Is):
                return _call('is_', l, r)
            if isinstance(op, ast.IsNot):
                return ast.UnaryOp(op=ast.Not(), operand=_call('is_', l, r))
            if isinstance(op, ast.In):
                return _call('contains', r, l)
            if isinstance(op, ast.NotIn):
                return ast.UnaryOp(op=ast.Not(), operand=_call('contains', r, l))
        elif any(isinstance(o, (ast.Is, ast.IsNot, ast.In, ast.NotIn)) for o in node.ops):
            raise OutOfSubset('chained is/in comparison')
        return node

    def visit_JoinedStr(self, node):
        self.generic_visit(node)
        parts = []
        for v in node.values:
            if isinstance(v, ast.FormattedValue):
                if v.format_spec is not None or v.conversion not in (-1, 115):
                    if v.conversion == 114:
                        parts.append(_call('repr_', v.value))
                        continue
                    raise OutOfSubset('f-string format spec')
                parts.append(_call('str_', v.value))
            else:
                parts.append(v)
        return _call('fstr', ast.List(elts=parts, ctx=ast.Load()))

    def visit_BinOp(self, node):
        self.generic_visit(node)
        if isinstance(node.op, ast.Mod) and isinstance(node.left, ast.Constant) and isinstance(node.left.value, str):
            return _call('fmt', node.left, node.right)
        return node

    def visit_Call(self, node):
        self.generic_visit(node)
        f = node.func
        if isinstance(f, ast.Attribute) and f.attr in STR_METHODS:
            return _call('meth', _const(f.attr), f.value, *node.args, keywords=node.keywords)
        if isinstance(f, ast.Name) and f.id == 'super' and not node.args:
            if self.class_name is None:
                raise OutOfSubset('super() outside a class')
            return _call('super_', _const(self.class_name), ast.Name(id='self', ctx=ast.Load()))
        if isinstance(f, ast.Name) and f.id == 'locals' and not node.args:
            return _locals_call()
        return node

    def visit_Subscript(self, node):
        self.generic_visit(node)
        if isinstance(node.ctx, ast.Load):
            sl = node.slice
            if isinstance(sl, ast.Slice):
                none = _const(None)
                sl = ast.Call(func=ast.Name(id='slice', ctx=ast.Load()),
                              args=[sl.lower or none, sl.upper or none, sl.step or none], keywords=[])
            return _call('getitem', node.value, sl)
        return node

    def _has_star(self, elts):
        return any(isinstance(e, ast.Starred) for e in elts)

    def _seq_display(self, node, kind):
        self.generic_visit(node)
        if isinstance(node.ctx, ast.Load) and self._has_star(node.elts):
            items = [ast.Tuple(elts=[_const(isinstance(e, ast.Starred)), e.value if isinstance(e, ast.Starred) else e],
                               ctx=ast.Load()) for e in node.elts]
            return _call('mkseq', _const(kind), ast.List(elts=items, ctx=ast.Load()))
        return node

    def visit_List(self, node):
        return self._seq_display(node, 'list')

    def visit_Tuple(self, node):
        return self._seq_display(node, 'tuple')

    def visit_Dict(self, node):
        self.generic_visit(node)
        items = []
        for k, v in zip(node.keys, node.values):
            if k is None:
                items.append(ast.Tuple(elts=[_const(True), v, _const(None)], ctx=ast.Load()))
            else:
                items.append(ast.Tuple(elts=[_const(False), k, v], ctx=ast.Load()))
        return _call('mkdict', ast.List(elts=items, ctx=ast.Load()))

    def visit_Set(self, node):
        self.generic_visit(node)
        return _call('mkset', ast.List(elts=node.elts, ctx=ast.Load()))

    # comprehensions
    def _comp(self, node, kind, elt):
        self.comp_ordinal += 1
        ordinal = self.comp_ordinal
        self.generic_visit(node)
        gens = node.generators
        if any(g.is_async for g in gens):
            raise OutOfSubset('async comprehension')
        # innermost first (node.elt / key / value are the *rewritten* sub-expressions after generic_visit)
        body = node.elt if kind != 'dict' else ast.Tuple(elts=[node.key, node.value], ctx=ast.Load())
        expr = None
        for gi in range(len(gens) - 1, -1, -1):
            g = gens[gi]
            cond = _const(True)
            if g.ifs:
                cond = g.ifs[0] if len(g.ifs) == 1 else ast.BoolOp(op=ast.And(), values=g.ifs)
            tgt = g.target
            if isinstance(tgt, ast.Name):
                args = ast.arguments(posonlyargs=[], args=[ast.arg(arg=tgt.id)], kwonlyargs=[], kw_defaults=[],
                                     defaults=[])
                mk = lambda b, args=args: ast.Lambda(args=args, body=b)
            else:
                names = [n.id for n in ast.walk(tgt) if isinstance(n, ast.Name)]
                if not (isinstance(tgt, ast.Tuple) and all(isinstance(e, ast.Name) for e in tgt.elts)):
                    raise OutOfSubset('nested tuple target in comprehension')
                inner_args = ast.arguments(posonlyargs=[], args=[ast.arg(arg=n) for n in names], kwonlyargs=[],
                                           kw_defaults=[], defaults=[])
                outer_args = ast.arguments(posonlyargs=[], args=[ast.arg(arg='__t')], kwonlyargs=[],
                                           kw_defaults=[], defaults=[])
                mk = lambda b, ia=inner_args, oa=outer_args: ast.Lambda(
                    args=oa, body=ast.Call(func=ast.Lambda(args=ia, body=b),
                                           args=[ast.Starred(value=_call('unpack', ast.Name(id='__t', ctx=ast.Load()),
                                                                         _const(len(ia.args))), ctx=ast.Load())],
                                           keywords=[]))
            innermost = gi == len(gens) - 1
            k = (kind if kind != 'gen' else 'list') if (gi == 0 and innermost) else 'list'
            if innermost:
                expr = _call('comp', _const(kind if gi == 0 else 'list'), _const(ordinal), mk(body), mk(cond), g.iter)
            else:
                # outer generator: each element yields a list; flatten
                expr = _call('comp_flat', _const(kind if gi == 0 else 'list'), _const(ordinal), mk(expr), mk(cond),
                             g.iter)
            body = expr
        return expr

    def visit_ListComp(self, node):
        return self._comp(node, 'list', node.elt)

    def visit_GeneratorExp(self, node):
        return self._comp(node, 'gen', node.elt)

    def visit_SetComp(self, node):
        return self._comp(node, 'set', node.elt)

    def visit_DictComp(self, node):
        return self._comp(node, 'dict', None)

    # ---- statements ----------------------------------------------------------------------
    def visit_AugAssign(self, node):
        self.generic_visit(node)
        if isinstance(node.target, ast.Name):
            opname = type(node.op).__name__
            return ast.Assign(
                targets=[ast.Name(id=node.target.id, ctx=ast.Store())],
                value=_call('iop', _const(opname), ast.Name(id=node.target.id, ctx=ast.Load()), node.value),
                lineno=node.lineno)
        return node

    def _cut(self, node, n, is_for):
        """loop cut: assert Inv; havoc; assume Inv; one symbolic iteration; assert Inv; end path"""
        inner = _LoopJump(n)
        body = [inner.visit(s) for s in node.body]
        body = [s for s in body if s is not None]
        body.append(_stmt(_call('loop_preserved', _const(n), _locals_call())))
        hav = stored_names(node.body) + ([] if not is_for else stored_names([node.target]))
        if not is_for:
            hav += [x for x in stored_names([node.test]) if x not in hav]      # walrus targets in the loop test
        mentioned = [x for x in loaded_names(node.body + ([] if is_for else [node.test])) if x not in hav and x in self.local_names[-1]
                     and not x.startswith('__')]
        self.report['loops'][n] = {'kind': 'for' if is_for else 'while', 'line': node.lineno,
                                   'havoc': hav, 'havoc_if_mutable': mentioned}
        pre = []
        itname = '__it%d' % n
        if is_for:
            pre.append(ast.Assign(targets=[ast.Name(id=itname, ctx=ast.Store())],
                                  value=_call('for_begin', _const(n), node.iter), lineno=node.lineno))
        pre.append(_stmt(_call('loop_entry', _const(n), _locals_call())))
        for x in hav:
            pre.append(ast.Assign(
                targets=[ast.Name(id=x, ctx=ast.Store())],
                value=_call('havoc', _const(n), _const(x), _locals_call(), _const(True)), lineno=node.lineno))
        for x in mentioned:
            pre.append(ast.Assign(
                targets=[ast.Name(id=x, ctx=ast.Store())],
                value=_call('havoc', _const(n), _const(x), _locals_call(), _const(False)), lineno=node.lineno))
        if is_for:
            pre.append(_stmt(_call('for_havoc', _const(n), ast.Name(id=itname, ctx=ast.Load()))))
        pre.append(_stmt(_call('loop_assume', _const(n), _locals_call())))
        if is_for:
            test = _call('for_has_next', ast.Name(id=itname, ctx=ast.Load()))
            step = ast.Assign(targets=[node.target], value=_call('for_next', ast.Name(id=itname, ctx=ast.Load())),
                              lineno=node.lineno)
            body = [step] + body
        else:
            test = node.test
        once = ast.For(target=ast.Name(id='__once%d' % n, ctx=ast.Store()),
                       iter=ast.Tuple(elts=[_const(0)], ctx=ast.Load()),
                       body=[ast.If(test=test, body=body, orelse=[])],
                       orelse=node.orelse or [], lineno=node.lineno)
        post = [_stmt(_call('loop_exit', _const(n), _locals_call()))]
        return pre + [once] + post

    def visit_For(self, node):
        self.loop_ordinal += 1
        n = self.loop_ordinal
        self.generic_visit(node)
        if n in self.cut_loops:
            return self._cut(node, n, True)
        self.report['loops'][n] = {'kind': 'for', 'line': node.lineno, 'cut': False}
        # un-cut loop: iterate through the model (concrete containers only)
        node.iter = _call('iter_concrete', _const(n), node.iter)
        return node

    def visit_While(self, node):
        self.loop_ordinal += 1
        n = self.loop_ordinal
        self.generic_visit(node)
        if n in self.cut_loops:
            return self._cut(node, n, False)
        self.report['loops'][n] = {'kind': 'while', 'line': node.lineno, 'cut': False}
        node.body = [_stmt(_call('while_tick', _const(n)))] + node.body
        return node


def load_function(relpath, qualname, glob, cut_loops=(), local_stubs=(), report=None):
    """Extract `qualname` from `relpath` (real source, current working tree), rewrite, compile in `glob`.
    Returns (python function object, info dict)."""
    src = read_source(relpath)
    tree = ast.parse(src)
    node, cls = find_def(tree, qualname)
    if not isinstance(node, ast.FunctionDef):
        raise CheckerError('%s::%s is not a function' % (relpath, qualname))
    text = func_text(src, node)
    info = report if report is not None else {}
    info.update({'file': relpath, 'qualname': qualname, 'sha': sha(text), 'lines': [node.lineno, node.end_lineno]})
    deco = [ast.unparse(d) for d in node.decorator_list]
    info['decorators'] = deco
    rw = Rewriter(cut_loops=cut_loops, local_stubs=local_stubs, class_name=cls.name if cls is not None else None,
                  report=info)
    new = rw.visit(node)
    missing = set(cut_loops) - set(info['loops'])
    if missing:
        raise CheckerError('%s::%s: sidecar has invariants for loops %s but the function has %d loops'
                           % (relpath, qualname, sorted(missing), rw.loop_ordinal))
    mod = ast.Module(body=[new], type_ignores=[])
    ast.fix_missing_locations(mod)
    code = compile(mod, '<pyvc:%s::%s>' % (relpath, qualname), 'exec')
    ns = {}
    g = glob.copy_lazy() if hasattr(glob, 'copy_lazy') else dict(glob)     # keep late binding of inline helpers
    g['__vc_locals'] = None      # patched below: locals() of the *caller* frame
    import sys

    def __vc_locals():
        return sys._getframe(1).f_locals
    g['__vc_locals'] = __vc_locals
    exec(code, g, ns)
    fn = ns[node.name]
    info['rewritten'] = ast.unparse(mod) if os.environ.get('PYVC_DEBUG') else None
    return fn, info


def class_info(relpath, clsname):
    """bases / method names of a class statement in the real source (for model cross-checks)"""
    tree = ast.parse(read_source(relpath))
    node, _ = find_def(tree, clsname)
    return {
        'bases': [ast.unparse(b) for b in node.bases],
        'methods': [n.name for n in node.body if isinstance(n, ast.FunctionDef)],
        'assigns': [t.id for n in node.body if isinstance(n, ast.Assign) for t in n.targets
                    if isinstance(t, ast.Name)],
    }


def module_classes(relpath):
    tree = ast.parse(read_source(relpath))
    return {n.name: [ast.unparse(b) for b in n.bases] for n in tree.body if isinstance(n, ast.ClassDef)}
