"""pyvc runner: function specs (sidecar contracts), verification of one function, result records."""
import os
import time
import traceback
import z3

from . import core, values, vcrt, rewrite
from .core import Ctx, ctx, PathEnd, OutOfSubset, CheckerError, discharge
from .values import as_bool_term


class FunctionSpec:
    """Sidecar contract of one real function (or one variant of it).

    file, qualname : where the real source is read from on every run
    glob           : dict bound as the function's globals (models / contract stubs / inline helpers)
    setup(spec)    : builds the symbolic arguments, assumes the precondition; returns (args, kwargs, env)
    post(env, res) : list of (tag, z3 Bool) - postcondition clauses on normal return
    raises(env, e) : list of (tag, z3 Bool) for a path ending in exception e; None => any exception is a
                     failed obligation 'no-exception'
    invariants     : {loop ordinal: callable(env_locals) -> {tag: Bool}}
    decode(env, model) : concrete counterexample (JSON-able) for the replay driver
    """

    def __init__(self, prop, file, qualname, glob, setup, post, raises=None, invariants=None, comp_hooks=None,
                 local_stubs=None, loop_keep=None, variant=None, lemmas=None, decode=None, theory=None,
                 super_=None, local_stub=None, ground=None, source_root=None, notes=None, fn_hook=None,
                 interp=None, hints=None, budgets=None, ext=True):
        self.prop, self.file, self.qualname = prop, file, qualname
        self.glob = glob
        self.setup, self.post, self.raises = setup, post, raises
        self.invariants = invariants or {}
        self.comp_hooks = comp_hooks or {}
        self.local_stubs = local_stubs or {}
        self.loop_keep = loop_keep or {}
        self.variant = variant
        self.lemmas = lemmas
        self.decode = decode
        self.theory = theory
        self._super = super_
        self._local_stub = local_stub
        self.ground = ground
        self.notes = notes or []
        self.fn_hook = fn_hook
        self.interp = interp
        self.hints = hints
        self.budgets = budgets
        self.ext = ext        # fresh-process proof pass (off for string theories: cvc5 is the second back end there)
        self.reached = set()
        self.loops_entered = set()

    @property
    def label(self):
        l = '%s::%s' % (self.file, self.qualname)
        return l + ('[%s]' % self.variant if self.variant else '')

    def super_(self, clsname, obj):
        if self._super is None:
            raise OutOfSubset('super() in %s needs a super_ hook in the sidecar' % self.label)
        return self._super(clsname, obj)

    def local_stub(self, name, loc):
        f = self.local_stubs.get(name)
        if f is None:
            raise OutOfSubset('no contract for nested function %s' % name)
        return lambda *a, **kw: f(loc, *a, **kw)


class ObRecord:
    """picklable summary of one obligation instance"""

    def __init__(self, ob, smt2=None, cex=None):
        self.name = ob.name
        self.path = ob.path
        self.status = ob.status
        self.time = ob.time
        self.backend = ob.backend
        self.note = ob.note
        self.size = len(ob.hyps)
        self.goal = str(ob.goal)[:300]
        self.smt2 = smt2
        self.cex = cex
        self.model = None


class FunctionResult:
    def __init__(self, spec):
        self.label = spec.label
        self.prop = spec.prop
        self.file, self.qualname, self.variant = spec.file, spec.qualname, spec.variant
        self.info = {}
        self.paths = 0
        self.obligations = []
        self.error = None           # ('out-of-subset'|'checker-error'|'crash', message)
        self.wall = 0.0
        self.reached = []
        self.notes = list(spec.notes)
        self.outcomes = {}
        self.pruned = False


def _exc_outcome(spec, env, e, c):
    if spec.raises is None:
        c.check(z3.BoolVal(False), 'no-exception/%s' % type(e).__name__)
        return
    clauses = spec.raises(env, e)
    if clauses is None:
        c.check(z3.BoolVal(False), 'no-exception/%s' % type(e).__name__)
        return
    for tag, g in clauses:
        c.check(as_bool_term(g), 'raises:%s/%s' % (type(e).__name__, tag))


def _names_model_class(msg):
    """does an interpreter error message quote the name of a class defined under /verif (a proxy or model class)?"""
    import re
    import sys
    quoted = set(re.findall(r"'([A-Za-z_][A-Za-z0-9_]*)'", msg))
    if not quoted:
        return False
    root = os.path.dirname(os.path.dirname(os.path.abspath(__file__)))
    for m in list(sys.modules.values()):
        f = getattr(m, '__file__', None) or ''
        if not f.startswith(root):
            continue
        for n in quoted:
            if isinstance(getattr(m, n, None), type):
                return True
    return False


def verify(spec):
    """Run the symbolic exploration of one function against its contract and discharge all obligations."""
    res = FunctionResult(spec)
    t0 = time.time()
    T = spec.theory
    try:
        if T is not None:
            values.set_theory(T)
        lemmas = list(spec.lemmas if spec.lemmas is not None else (T.lemmas if T is not None else []))
        ground = spec.ground if spec.ground is not None else (T.ground_axioms if T is not None else None)
        c = Ctx(spec.label, lemmas, ground)
        rt = vcrt.VC(spec)
        glob = dict(vcrt.MODEL_BUILTINS)
        glob.update(spec.glob)
        glob["__vc"] = rt
        vcrt.CURRENT = rt
        glob['__builtins__'] = {'__build_class__': __builtins__['__build_class__'] if isinstance(__builtins__, dict)
                                else __builtins__.__build_class__, '__import__': __import__}
        glob['__name__'] = 'pyvc_extracted'
        info = {}
        if getattr(spec, 'fn_override', None) is not None:
            # the spec drives (possibly several) real functions itself, loaded through pyvc.inline
            fn, info = spec.fn_override, dict(getattr(spec, 'fn_info', {}))
        else:
            fn, info = rewrite.load_function(spec.file, spec.qualname, glob, cut_loops=spec.invariants.keys(),
                                             local_stubs=spec.local_stubs.keys(), report=info)
        if spec.fn_hook is not None:
            fn = spec.fn_hook(fn, glob)
        res.info = info
        outcomes = {}

        def run():
            rt.loop_counts = {}
            args, kwargs, env = spec.setup(spec)
            if not c.feasible(z3.BoolVal(True)):
                raise CheckerError('%s: precondition is unsatisfiable (vacuous contract)' % spec.label)
            spec.reached.add('pre')
            try:
                r = fn(*args, **kwargs)
            except PathEnd:
                raise
            except (OutOfSubset, CheckerError):
                raise
            except RecursionError:
                raise OutOfSubset('unbounded recursion while executing %s (a callee needs a contract)' % spec.label)
            except Exception as e:        # pylint: disable=broad-except
                if isinstance(e, (NameError, UnboundLocalError, ImportError, SyntaxError)):
                    raise OutOfSubset('%s: %s: %s' % (spec.label, type(e).__name__, e))
                if getattr(e, '_pyvc_internal', False):
                    raise
                if getattr(e, '_pyvc_model_attr', False):
                    # a member of a *model* class that the sidecar does not define: never reported as a violation
                    raise OutOfSubset('%s: %s (the code uses a member the sidecar model does not know)'
                                      % (spec.label, e))
                if isinstance(e, (TypeError, AttributeError)) and _names_model_class(str(e)):
                    # the interpreter rejected an operation on a *model* object (the sidecar model lacks a protocol
                    # method the code now uses): undecided, never a violation
                    raise OutOfSubset('%s: %s: %s (an operation the sidecar model does not support)'
                                      % (spec.label, type(e).__name__, e))
                outcomes['raise:' + type(e).__name__] = outcomes.get('raise:' + type(e).__name__, 0) + 1
                env['__traceback'] = traceback.format_exc(limit=6)
                if os.environ.get('PYVC_TB'):
                    print(traceback.format_exc(limit=8), flush=True)
                _exc_outcome(spec, env, e, c)
                return ('raise', type(e).__name__)
            outcomes['return'] = outcomes.get('return', 0) + 1
            for tag, g in spec.post(env, r):
                if spec.decode and getattr(spec.decode, 'wants_tag', False):
                    dec = (lambda m, env=env, r=r, tag=tag: spec.decode(env, m, r, tag))
                else:
                    dec = (lambda m, env=env, r=r: spec.decode(env, m, r)) if spec.decode else None
                c.check(as_bool_term(g), 'post/%s' % tag, decode=dec)
            return ('return', None)

        c.explore(run)
        if os.environ.get('PYVC_TRACE'):
            print('   explored %s: %d paths, %d obligations, %.1fs' % (spec.label, c.paths, len(c.obligations),
                                                                      time.time() - t0), flush=True)
        res.paths = c.paths
        res.outcomes = outcomes
        res.reached = sorted(spec.reached)
        for n in sorted(spec.loops_entered):
            if 'inv#%d' % n not in spec.reached:
                raise CheckerError('%s: invariant of loop #%d is satisfiable on no path that reaches the loop '
                                   '(vacuous invariant)' % (spec.label, n))
        for ob in c.obligations:
            discharge(ob, lemmas, ground, interp=spec.interp, hints=spec.hints, budgets=spec.budgets,
                      ext=getattr(spec, 'ext', True))
            if os.environ.get('PYVC_TRACE'):
                print('   [%s] %-8s %6.2fs path=%d %s %s' % (time.strftime('%H:%M:%S'), ob.status, ob.time, ob.path,
                                                           ob.name.split('::')[-1], ob.note), flush=True)
            smt2 = None
            cex = None
            if ob.status != 'proved':
                try:
                    s = z3.Solver()
                    for h in ob.hyps:
                        s.add(h)
                    s.add(z3.Not(ob.goal))
                    smt2 = s.to_smt2()
                except Exception:       # pylint: disable=broad-except
                    smt2 = None
            if ob.status == 'refuted' and ob.decode is not None and ob.model is not None:
                try:
                    cex = ob.decode(ob.model)
                except Exception as e:    # pylint: disable=broad-except
                    cex = {'decode_error': '%s: %s' % (type(e).__name__, e)}
            rec = ObRecord(ob, smt2, cex)
            if ob.status == 'refuted' and ob.model is not None:
                rec.model = model_summary(ob.model)
            res.obligations.append(rec)
        res.pruned = bool(getattr(c, 'pruned', False))
        if res.pruned and not any(o.status == 'refuted' for o in res.obligations):
            res.error = ('out-of-subset', '%s: a recursive helper without contract was unrolled to depth %d and the '
                         'deeper paths were abandoned; nothing is proved by this run (the helper needs a contract)'
                         % (spec.label, values.AUTO_DEPTH_LIMIT))
        if not c.obligations:
            res.error = ('checker-error', '%s generated zero obligations' % spec.label)
    except OutOfSubset as e:
        if os.environ.get('PYVC_TB'):
            traceback.print_exc()
        res.error = ('out-of-subset', str(e))
    except CheckerError as e:
        if os.environ.get('PYVC_TB'):
            traceback.print_exc()
        res.error = ('checker-error', str(e))
    except BaseException as e:          # pylint: disable=broad-except
        res.error = ('crash', '%s: %s\n%s' % (type(e).__name__, e, traceback.format_exc(limit=12)))
    res.wall = time.time() - t0
    return res


def model_summary(m, limit=60):
    """the solver's counter-model restricted to constants (function graphs omitted)"""
    out = []
    for d in m.decls():
        if d.arity() == 0:
            v = str(m[d]).replace('\n', ' ')
            out.append('%s = %s' % (d.name(), v[:160]))
    return '; '.join(sorted(out)[:limit])


def call_contract(name, pre=(), result=None, post=None):
    """helper for contract stubs: check pre clauses, make a fresh result, assume post clauses"""
    c = ctx()
    for tag, g in pre:
        c.check(as_bool_term(g), 'call:%s/pre/%s' % (name, tag))
    r = result() if callable(result) else result
    if post is not None:
        for g in post(r):
            c.assume(as_bool_term(g))
    return r
