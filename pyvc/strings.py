"""pyvc string method models over z3 strings (ASCII assumption for lower/upper)."""
import z3
from .core import ctx, OutOfSubset
from .values import (Sym, SStr, SInt, SSeq, SV, mk_str, mk_bool, mk_int, as_str_term, as_int_term, truth,
                     _LOWER, _UPPER, theory)


def _s(x):
    return as_str_term(x)


def str_method(name, recv, *args, **kw):
    r = _s(recv)
    if name == 'lower' or name == 'casefold':
        return mk_str(lower_nf(r))
    if name == 'upper':
        return mk_str(_UPPER(r))
    if name == 'split' and len(args) == 1 and isinstance(args[0], str) and len(args[0]) == 1:
        return structural_split(r, args[0])
    if name == 'join':
        (items,) = args
        if isinstance(items, SV):
            items = items.as_seq()
        if isinstance(items, SSeq):
            ci = items.concrete_items()
            if ci is None:
                hook = getattr(theory(), 'sym_join', None)
                if hook is None:
                    raise OutOfSubset('join over a sequence of symbolic length')
                return hook(recv, items)
            items = ci
        items = list(items)
        if not items:
            return ''
        t = _s(items[0])
        for it in items[1:]:
            t = z3.Concat(t, r, _s(it))
        return mk_str(t)
    if name == 'startswith':
        p = args[0]
        if isinstance(p, tuple):
            return mk_bool(z3.Or([z3.PrefixOf(_s(q), r) for q in p]))
        return mk_bool(z3.PrefixOf(_s(p), r))
    if name == 'endswith':
        p = args[0]
        if isinstance(p, tuple):
            return mk_bool(z3.Or([z3.SuffixOf(_s(q), r) for q in p]))
        return mk_bool(z3.SuffixOf(_s(p), r))
    if name == 'replace':
        hook = getattr(theory(), 'sym_replace', None)
        if hook is not None:
            return hook(recv, *args)
        raise OutOfSubset('str.replace on a symbolic string needs theory.sym_replace')
    if name == 'partition':
        sep = _s(args[0])
        idx = z3.IndexOf(r, sep, 0)
        found = idx >= 0
        n = z3.Length(r)
        head = z3.If(found, z3.SubString(r, 0, idx), r)
        mid = z3.If(found, sep, z3.StringVal(''))
        tail = z3.If(found, z3.SubString(r, idx + z3.Length(sep), n), z3.StringVal(''))
        return (mk_str(head), mk_str(mid), mk_str(tail))
    if name == 'find':
        return mk_int(z3.IndexOf(r, _s(args[0]), 0))
    if name == 'index':
        i = z3.IndexOf(r, _s(args[0]), 0)
        if not ctx().branch(i >= 0, 'str-index-found'):
            raise ValueError('substring not found')
        return mk_int(i)
    if name == 'format':
        if not isinstance(recv, str):
            raise OutOfSubset('symbolic format string')
        import re
        pieces = re.split(r'(\{[^{}]*\})', recv)
        out, pos = [], 0
        for p in pieces:
            if p.startswith('{') and p.endswith('}'):
                key = p[1:-1]
                if ':' in key or '!' in key:
                    raise OutOfSubset('format spec in %r' % recv)
                if key == '':
                    v = args[pos]
                    pos += 1
                elif key.isdigit():
                    v = args[int(key)]
                else:
                    v = kw[key]
                from .vcrt import m_str
                out.append(m_str(v))
            else:
                out.append(p.replace('{{', '{').replace('}}', '}'))
        t = None
        for p in out:
            t = _s(p) if t is None else z3.Concat(t, _s(p))
        return mk_str(t) if t is not None else ''
    hook = getattr(theory(), 'sym_strmeth', None)
    if hook is not None:
        return hook(name, recv, *args, **kw)
    raise OutOfSubset('str.%s on a symbolic string' % name)


def lower_nf(t):
    """lower() pushed to the leaves of a concatenation (ASCII: lower is a character-wise homomorphism) and
    evaluated on literals"""
    t = z3.simplify(t)
    if z3.is_string_value(t):
        return z3.StringVal(t.as_string().lower())
    if z3.is_app(t) and t.decl().kind() == z3.Z3_OP_SEQ_CONCAT:
        return z3.Concat(*[lower_nf(a) for a in t.children()])
    if z3.is_app(t) and t.decl().eq(_LOWER):
        return t                    # idempotent
    return _LOWER(t)


def structural_split(t, sep):
    """s.split(sep) for a string term that is an explicit concatenation: literal pieces are split concretely,
    symbolic pieces must be known (under the path condition) not to contain the separator"""
    t = z3.simplify(t)

    def flat(x):
        if z3.is_app(x) and x.decl().kind() == z3.Z3_OP_SEQ_CONCAT:
            r = []
            for y in x.children():
                r.extend(flat(y))
            return r
        return [x]
    parts = flat(t)
    out, cur = [], []
    c = ctx()
    for p in parts:
        if z3.is_string_value(p):
            pieces = p.as_string().split(sep)
            cur.append(z3.StringVal(pieces[0]))
            for more in pieces[1:]:
                out.append(cur)
                cur = [z3.StringVal(more)]
        else:
            has = z3.Contains(p, z3.StringVal(sep))
            if c.known(has) is not False and c.feasible(has):
                raise OutOfSubset('split(%r) of a symbolic piece that may contain the separator' % sep)
            cur.append(p)
    out.append(cur)
    res = []
    for piece in out:
        piece = [x for x in piece if not (z3.is_string_value(x) and x.as_string() == '')] or [z3.StringVal('')]
        res.append(mk_str(piece[0] if len(piece) == 1 else z3.Concat(*piece)))
    return res


# ---- interpreted lower() for counterexample search (bounded length; ASCII) ----------------------------------
LOWER_BOUND = 2


def _lc(c):
    """lower-case of a one-character string term"""
    code = z3.StrToCode(c)
    return z3.If(z3.And(code >= 65, code <= 90), z3.StrFromCode(code + 32), c)


def _uc(c):
    code = z3.StrToCode(c)
    return z3.If(z3.And(code >= 97, code <= 122), z3.StrFromCode(code - 32), c)


def interp_strings(t, cache=None, side=None):
    """substitute a character-wise definition for the uninterpreted lower()/upper(), valid for strings of length
    <= LOWER_BOUND; the length bounds are collected in `side` (list) and must be asserted with the formula.
    Used only in refutation passes (a candidate counterexample is then replayed on the real code)."""
    if cache is None:
        cache = {}
    if side is None:
        side = []
    i = t.get_id()
    r = cache.get(i)
    if r is not None:
        return r[1]
    if z3.is_quantifier(t) or not z3.is_app(t) or t.num_args() == 0:
        r = t
    else:
        args = [interp_strings(a, cache, side) for a in t.children()]
        d = t.decl()
        if d.eq(_LOWER) or d.eq(_UPPER):
            f = _lc if d.eq(_LOWER) else _uc
            x = args[0]
            side.append(z3.Length(x) <= LOWER_BOUND)
            r = z3.Concat(*[z3.If(z3.Length(x) > k, f(z3.SubString(x, k, 1)), z3.StringVal(''))
                            for k in range(LOWER_BOUND)])
        else:
            try:
                r = d(*args)
            except z3.Z3Exception:
                r = t
    cache[i] = (t, r)
    return r
