"""pyvc string method models over z3 strings (ASCII assumption for lower/upper)."""
import z3
from .core import ctx, OutOfSubset
from .values import (Sym, SStr, SInt, SSeq, SV, mk_str, mk_bool, mk_int, as_str_term, as_int_term, truth,
                     _LOWER, _UPPER, theory)


def _s(x):
    return as_str_term(x)


def str_method(name, recv, *args, **kw):
    r = _s(recv)
    if name == 'lower' or name == 'casefold':
        return mk_str(_LOWER(r))
    if name == 'upper':
        return mk_str(_UPPER(r))
    if name == 'join':
        (items,) = args
        if isinstance(items, SV):
            items = items.as_seq()
        if isinstance(items, SSeq):
            ci = items.concrete_items()
            if ci is None:
                hook = getattr(theory(), 'sym_join', None)
                if hook is None:
                    raise OutOfSubset('join over a sequence of symbolic length')
                return hook(recv, items)
            items = ci
        items = list(items)
        if not items:
            return ''
        t = _s(items[0])
        for it in items[1:]:
            t = z3.Concat(t, r, _s(it))
        return mk_str(t)
    if name == 'startswith':
        p = args[0]
        if isinstance(p, tuple):
            return mk_bool(z3.Or([z3.PrefixOf(_s(q), r) for q in p]))
        return mk_bool(z3.PrefixOf(_s(p), r))
    if name == 'endswith':
        p = args[0]
        if isinstance(p, tuple):
            return mk_bool(z3.Or([z3.SuffixOf(_s(q), r) for q in p]))
        return mk_bool(z3.SuffixOf(_s(p), r))
    if name == 'replace':
        hook = getattr(theory(), 'sym_replace', None)
        if hook is not None:
            return hook(recv, *args)
        raise OutOfSubset('str.replace on a symbolic string needs theory.sym_replace')
    if name == 'find':
        return mk_int(z3.IndexOf(r, _s(args[0]), 0))
    if name == 'format':
        if not isinstance(recv, str):
            raise OutOfSubset('symbolic format string')
        import re
        pieces = re.split(r'(\{[^{}]*\})', recv)
        out, pos = [], 0
        for p in pieces:
            if p.startswith('{') and p.endswith('}'):
                key = p[1:-1]
                if ':' in key or '!' in key:
                    raise OutOfSubset('format spec in %r' % recv)
                if key == '':
                    v = args[pos]
                    pos += 1
                elif key.isdigit():
                    v = args[int(key)]
                else:
                    v = kw[key]
                from .vcrt import m_str
                out.append(m_str(v))
            else:
                out.append(p.replace('{{', '{').replace('}}', '}'))
        t = None
        for p in out:
            t = _s(p) if t is None else z3.Concat(t, _s(p))
        return mk_str(t) if t is not None else ''
    hook = getattr(theory(), 'sym_strmeth', None)
    if hook is not None:
        return hook(name, recv, *args, **kw)
    raise OutOfSubset('str.%s on a symbolic string' % name)
