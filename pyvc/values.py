"""pyvc symbolic values: a universal z3 value sort V (+ cons-lists VL) built per theory from a
class model, and the CPython proxy classes that carry terms of it (DESIGN 3.3)."""
import z3
from . import core
from .core import define_rec, ctx, OutOfSubset, PathEnd


class ModelAttributeError(AttributeError):
    """a *model* class has no such attribute: python semantics for hasattr/getattr-default, but when it escapes the
    function under verification it means the sidecar does not know a member the code uses (out of subset), not
    that the real code raises AttributeError"""
    _pyvc_model_attr = True


def _auto_member(T, clsname, name):
    """A member the model class does not define: if the model class names its real source
    (ClassModel.source = (file, real class name, globals)), the member is loaded from the real class statement by
    the same extraction pipeline and executed (DESIGN 3.2 `inline`) - so a helper method added to the real class
    is verified as part of its callers instead of stopping the run."""
    for a in T.ancestors(clsname):
        cm = T.classes.get(a)
        src = getattr(cm, 'source', None) if cm is not None else None
        if not src:
            continue
        file, real, glob = src
        from . import inline as _inl, rewrite as _rw
        import ast as _ast
        try:
            node, _ = _rw.find_def(_ast.parse(_rw.read_source(file)), '%s.%s' % (real, name))
        except Exception:       # pylint: disable=broad-except
            node = None
        if not isinstance(node, _ast.FunctionDef):
            continue
        decos = [_ast.unparse(d) for d in node.decorator_list]
        fn = _depth_guarded(_inl.inline(file, '%s.%s' % (real, name), glob), '%s.%s' % (real, name))
        kind = 'method'
        for d in decos:
            if d in ('property', 'cached_property', 'functools.cached_property'):
                kind = 'property'
            elif d in ('staticmethod', 'classmethod'):
                kind = d
        return kind, fn
    return None


_AUTO_DEPTH = {}
AUTO_DEPTH_LIMIT = 3


def _depth_guarded(fn, label):
    """auto-inlined members have no contract, so their recursion cannot be cut by an induction hypothesis: beyond
    a small depth the path is abandoned and the run is marked *pruned* - a pruned run can refute (with a replayed
    input) but never prove"""
    def wrapper(*a, **kw):
        d = _AUTO_DEPTH.get(label, 0)
        if d >= AUTO_DEPTH_LIMIT:
            ctx().pruned = True
            raise PathEnd()
        _AUTO_DEPTH[label] = d + 1
        try:
            return fn(*a, **kw)
        finally:
            _AUTO_DEPTH[label] = d
    return wrapper


class ClassModel:
    """Model of one real class: constructor fields (None => abstract, no instances), bases
    (names, for isinstance), python-level methods/properties used when the code under
    verification touches an instance."""

    def __init__(self, name, bases=(), fields=None, methods=None, props=None, real=None):
        self.name = name
        self.bases = tuple(bases)
        self.fields = fields            # list of (fieldname, sortname) ; sortname in V VL Int Str Bool Real
        self.methods = dict(methods or {})
        self.props = dict(props or {})
        self.real = real                # 'module:qualname' of the real class (cross-check / replay)
        self.theory = None

    def __repr__(self):
        return '<model class %s>' % self.name

    def __getattr__(self, name):
        # class-level access to a member the model does not define (e.g. LoopRange._helper(x)): real source
        if name.startswith('__') or name in ('source', 'instancecheck', 'pyclass', 'theory'):
            raise AttributeError(name)
        th = self.__dict__.get('theory')
        if th is not None:
            auto = _auto_member(th, self.name, name)
            if auto is not None:
                kind, fn = auto
                if kind == 'staticmethod':
                    return fn
                if kind == 'classmethod':
                    return lambda *a, **kw: fn(self, *a, **kw)
                return fn
        raise ModelAttributeError("model class %s has no attribute '%s'" % (self.name, name))

    def __call__(self, *args, **kwargs):
        ctor = self.methods.get('__new__')
        if ctor is not None:
            return ctor(self, *args, **kwargs)
        return self.theory.construct(self, *args, **kwargs)


class Theory:
    BUILTIN = ('VNone', 'VInt', 'VBool', 'VStr', 'VReal', 'VList', 'VTuple', 'VRef')

    def __init__(self, name, classes=()):
        self.name = name
        self.classes = {}
        V = z3.Datatype('V')
        VL = z3.Datatype('VL')
        V.declare('VNone')
        V.declare('VInt', ('ival', z3.IntSort()))
        V.declare('VBool', ('bval', z3.BoolSort()))
        V.declare('VStr', ('sval', z3.StringSort()))
        V.declare('VReal', ('rval', z3.RealSort()))
        V.declare('VList', ('litems', VL))
        V.declare('VTuple', ('titems', VL))
        V.declare('VRef', ('rid', z3.IntSort()))
        sorts = {'V': V, 'VL': VL, 'Int': z3.IntSort(), 'Str': z3.StringSort(), 'Bool': z3.BoolSort(),
                 'Real': z3.RealSort()}
        for c in classes:
            self.classes[c.name] = c
            c.theory = self
            if c.fields is not None:
                V.declare('C_' + c.name, *[('%s__%s' % (c.name, f), sorts[s]) for f, s in c.fields])
        VL.declare('nil')
        VL.declare('cons', ('hd', V), ('tl', VL))
        self.V, self.VL = z3.CreateDatatypes(V, VL)
        V, VL = self.V, self.VL
        self.nil, self.cons, self.hd, self.tl = VL.nil, VL.cons, VL.hd, VL.tl
        self.is_nil, self.is_cons = VL.is_nil, VL.is_cons
        self.ctor = {}
        self.recog = {}
        self.acc = {}
        for i in range(V.num_constructors()):
            k = V.constructor(i)
            self.ctor[k.name()] = k
            self.recog['is_' + k.name()] = V.recognizer(i)
            for j in range(k.arity()):
                a = V.accessor(i, j)
                self.acc[a.name()] = a
        self.subclasses = {}
        for c in self.classes.values():
            for a in self.ancestors(c.name):
                self.subclasses.setdefault(a, []).append(c.name)
        # list spec functions
        s, t = z3.Consts('s t', VL)
        n = z3.Int('n')
        x = z3.Const('x', V)
        self.app = z3.RecFunction('app', VL, VL, VL)
        define_rec(self.app, [s, t], z3.If(VL.is_nil(s), t, VL.cons(VL.hd(s), self.app(VL.tl(s), t))))
        self.length = z3.RecFunction('length', VL, z3.IntSort())
        define_rec(self.length, [s], z3.If(VL.is_nil(s), 0, 1 + self.length(VL.tl(s))))
        self.nth = z3.RecFunction('nth', VL, z3.IntSort(), V)
        define_rec(self.nth, [s, n], z3.If(VL.is_nil(s), V.VNone,
                                                      z3.If(n <= 0, VL.hd(s), self.nth(VL.tl(s), n - 1))))
        self.drop = z3.RecFunction('drop', VL, z3.IntSort(), VL)
        define_rec(self.drop, [s, n], z3.If(z3.Or(VL.is_nil(s), n <= 0), s, self.drop(VL.tl(s), n - 1)))
        self.take = z3.RecFunction('take', VL, z3.IntSort(), VL)
        define_rec(self.take, [s, n], z3.If(z3.Or(VL.is_nil(s), n <= 0), VL.nil,
                                                       VL.cons(VL.hd(s), self.take(VL.tl(s), n - 1))))
        self.mem = z3.RecFunction('mem', V, VL, z3.BoolSort())
        define_rec(self.mem, [x, s], z3.If(VL.is_nil(s), False,
                                                      z3.Or(self.veq(VL.hd(s), x), self.mem(x, VL.tl(s)))))
        self.rev = z3.RecFunction('rev', VL, VL)
        define_rec(self.rev, [s], z3.If(VL.is_nil(s), VL.nil,
                                                   self.app(self.rev(VL.tl(s)), VL.cons(VL.hd(s), VL.nil))))
        self.base_lemmas = [
            z3.ForAll([s], self.length(s) >= 0, patterns=[self.length(s)]),
            z3.ForAll([s], self.app(s, VL.nil) == s, patterns=[self.app(s, VL.nil)]),
            z3.ForAll([s, t], self.length(self.app(s, t)) == self.length(s) + self.length(t),
                      patterns=[self.length(self.app(s, t))]),
        ]
        u = z3.Const('u', VL)
        self.base_lemmas.append(z3.ForAll([s, t, u], self.app(self.app(s, t), u) == self.app(s, self.app(t, u)),
                                          patterns=[self.app(self.app(s, t), u)]))
        self.lemmas = list(self.base_lemmas)
        self.ground_axioms = None

    def base_lemma_proofs(self):
        """structural induction proofs of the list lemmas every theory uses"""
        from .core import check_retry, P_BIG
        VL = self.VL
        b, c = z3.Consts('ind!b ind!c', VL)
        x, r = z3.Const('ind!x', self.V), z3.Const('ind!r', VL)
        stmts = {
            'length(s) >= 0': lambda a: self.length(a) >= 0,
            'app(s, nil) == s': lambda a: self.app(a, VL.nil) == a,
            'length(app(s,t)) == length(s)+length(t)': lambda a: self.length(self.app(a, b)) == self.length(a) + self.length(b),
            'app(app(s,t),u) == app(s,app(t,u))': lambda a: self.app(self.app(a, b), c) == self.app(a, self.app(b, c)),
        }
        out = []
        for name, stmt in stmts.items():
            def thunk(stmt=stmt):
                res = []
                for tag, hyps, goal in (('base', [], stmt(VL.nil)), ('step', [stmt(r)], stmt(VL.cons(x, r)))):
                    res.append((tag, str(check_retry(list(hyps) + [z3.Not(goal)], P_BIG))))
                return res
            out.append(('list lemma: ' + name, thunk))
        return out

    # element equality used by `in`, index, count; a theory may override (default: structural)
    def veq(self, a, b):
        return a == b

    def ancestors(self, name):
        out, todo = [], [name]
        while todo:
            n = todo.pop(0)
            if n in out:
                continue
            out.append(n)
            c = self.classes.get(n)
            if c is not None:
                todo.extend(c.bases)
        return out

    def concrete_subclasses(self, name):
        return [n for n in self.subclasses.get(name, []) if self.classes[n].fields is not None]

    def find_method(self, clsname, meth):
        """C3-free approximation: depth-first left-to-right over the declared bases (the model's
        class graphs are linearised by the sidecar in MRO order)."""
        for a in self.ancestors(clsname):
            c = self.classes.get(a)
            if c is not None and meth in c.methods:
                return c.methods[meth]
        return None

    def find_prop(self, clsname, name):
        for a in self.ancestors(clsname):
            c = self.classes.get(a)
            if c is not None and name in c.props:
                return c.props[name]
        return None

    def list_term(self, items):
        t = self.nil
        for it in reversed(list(items)):
            t = self.cons(self.lift(it), t)
        return t

    # ---- python value -> V term ------------------------------------------------------------
    def lift(self, x):
        V = self.V
        if isinstance(x, SV):
            return x.t
        if isinstance(x, SBool):
            return V.VBool(x.t)
        if isinstance(x, SInt):
            return V.VInt(x.t)
        if isinstance(x, SReal):
            return V.VReal(x.t)
        if isinstance(x, SStr):
            return V.VStr(x.t)
        if isinstance(x, SSeq):
            return V.VList(x.t) if x.kind == 'list' else V.VTuple(x.t)
        if x is None:
            return V.VNone
        if isinstance(x, bool):
            return V.VBool(z3.BoolVal(x))
        if isinstance(x, int):
            return V.VInt(z3.IntVal(x))
        if isinstance(x, float):
            return V.VReal(z3.RealVal(repr(x)))
        if isinstance(x, str):
            return V.VStr(z3.StringVal(x))
        if isinstance(x, list):
            return V.VList(self.list_term(x))
        if isinstance(x, tuple):
            return V.VTuple(self.list_term(x))
        if z3.is_expr(x) and x.sort() == V:
            return x
        if isinstance(x, HRef):
            return V.VRef(z3.IntVal(x.rid))
        raise OutOfSubset('cannot lift %r (%s) into the value sort' % (x, type(x).__name__))

    def lift_seq(self, x):
        """python/proxy sequence -> VL term"""
        if isinstance(x, SSeq):
            return x.t
        if isinstance(x, (list, tuple)):
            return self.list_term(x)
        if isinstance(x, SV):
            return x.as_seq().t
        if z3.is_expr(x) and x.sort() == self.VL:
            return x
        raise OutOfSubset('cannot lift %r into a sequence' % (x,))

    # ---- V term -> proxy -------------------------------------------------------------------
    def lower(self, t):
        t = z3.simplify(t)
        if z3.is_app(t) and t.sort() == self.V:
            k = t.decl().name()
            if k == 'VNone':
                return None
            if k == 'VInt':
                return mk_int(t.arg(0))
            if k == 'VBool':
                return mk_bool(t.arg(0))
            if k == 'VStr':
                return mk_str(t.arg(0))
            if k == 'VReal':
                return SReal(t.arg(0))
            if k == 'VList':
                return SSeq(self, t.arg(0), 'list')
            if k == 'VTuple':
                return SSeq(self, t.arg(0), 'tuple')
            if k.startswith('C_') and k in self.ctor:
                return SV(self, t, cls=k[2:])
        return SV(self, t)

    def lower_field(self, term, sortname):
        if sortname == 'V':
            return self.lower(term)
        if sortname == 'VL':
            return SSeq(self, z3.simplify(term), 'tuple')
        if sortname == 'Int':
            return mk_int(term)
        if sortname == 'Str':
            return mk_str(term)
        if sortname == 'Bool':
            return mk_bool(term)
        if sortname == 'Real':
            return SReal(term)
        raise OutOfSubset(sortname)

    def lift_field(self, x, sortname):
        if sortname == 'V':
            return self.lift(x)
        if sortname == 'VL':
            return self.lift_seq(x)
        if sortname == 'Int':
            return as_int_term(x)
        if sortname == 'Str':
            return as_str_term(x)
        if sortname == 'Bool':
            return as_bool_term(x)
        if sortname == 'Real':
            return as_real_term(x)
        raise OutOfSubset(sortname)

    def construct(self, cls, *args, **kwargs):
        """Default model constructor: positional/keyword args in field order."""
        if cls.fields is None:
            raise OutOfSubset('abstract model class %s instantiated' % cls.name)
        vals = {}
        names = [f for f, _ in cls.fields]
        for n, a in zip(names, args):
            vals[n] = a
        for k, a in kwargs.items():
            if k not in names:
                raise OutOfSubset('%s(): unknown field %s' % (cls.name, k))
            vals[k] = a
        terms = []
        for f, s in cls.fields:
            terms.append(self.lift_field(vals.get(f), s) if (f in vals or s == 'V') else self.default_field(s))
        return SV(self, self.ctor['C_' + cls.name](*terms), cls=cls.name)

    def default_field(self, s):
        return {'VL': self.nil, 'Int': z3.IntVal(0), 'Str': z3.StringVal(''), 'Bool': z3.BoolVal(False),
                'Real': z3.RealVal(0)}[s]

    def fresh_obj(self, prefix='o', cls=None):
        t = ctx().fresh(self.V, prefix)
        if cls is not None:
            names = self.concrete_subclasses(cls if isinstance(cls, str) else cls.name)
            ctx().assume(z3.Or([self.recog['is_C_' + n](t) for n in names]))
            if len(names) == 1:
                return SV(self, t, cls=names[0])
        return SV(self, t)

    def fresh_seq(self, prefix='s', kind='tuple'):
        return SSeq(self, ctx().fresh(self.VL, prefix), kind)

    def is_instance_term(self, t, clsname):
        names = self.concrete_subclasses(clsname)
        if not names:
            return z3.BoolVal(False)
        return z3.Or([self.recog['is_C_' + n](t) for n in names])


THEORY = None


def theory():
    return THEORY


def set_theory(t):
    global THEORY
    THEORY = t


# ---- proxies -------------------------------------------------------------------------------

class Sym:
    __slots__ = ()
    __hash__ = None


def mk_int(t):
    t = z3.simplify(t)
    if z3.is_int_value(t):
        return t.as_long()
    return SInt(t)


def mk_bool(t):
    t = z3.simplify(t)
    if z3.is_true(t):
        return True
    if z3.is_false(t):
        return False
    return SBool(t)


def mk_str(t):
    t = z3.simplify(t)
    if z3.is_string_value(t):
        return t.as_string()
    return SStr(t)


def as_int_term(x):
    if isinstance(x, SInt):
        return x.t
    if isinstance(x, bool):
        return z3.IntVal(int(x))
    if isinstance(x, int):
        return z3.IntVal(x)
    if isinstance(x, SBool):
        return z3.If(x.t, 1, 0)
    if isinstance(x, SV):
        return x.as_int().t if isinstance(x.as_int(), SInt) else z3.IntVal(x.as_int())
    if isinstance(x, float) and x == int(x):
        return z3.IntVal(int(x))
    if z3.is_expr(x):
        return x
    raise OutOfSubset('not an int: %r' % (x,))


def as_real_term(x):
    if isinstance(x, SReal):
        return x.t
    if isinstance(x, (SInt, int)) and not isinstance(x, bool):
        return z3.ToReal(as_int_term(x))
    if isinstance(x, float):
        return z3.RealVal(repr(x))
    if z3.is_expr(x):
        return x
    raise OutOfSubset('not a real: %r' % (x,))


def as_bool_term(x):
    if isinstance(x, SBool):
        return x.t
    if isinstance(x, bool):
        return z3.BoolVal(x)
    if z3.is_expr(x):
        return x
    return z3.BoolVal(truth(x))


def as_str_term(x):
    if isinstance(x, SStr):
        return x.t
    if isinstance(x, str):
        return z3.StringVal(x)
    if isinstance(x, SV):
        r = x.resolve_builtin()
        if isinstance(r, (SStr, str)):
            return as_str_term(r)
    if z3.is_expr(x):
        return x
    raise OutOfSubset('not a str: %r' % (x,))


def truth(x):
    """python truthiness of any value -> concrete bool (branching when symbolic)"""
    if isinstance(x, Sym):
        return x.__bool__()
    return bool(x)


def is_numeric(x):
    return isinstance(x, (SInt, SReal, int, float)) and not isinstance(x, SBool)


def _num2(a, b):
    """coerce two numeric python/proxy values to (kind, ta, tb)"""
    if isinstance(a, (SReal, float)) or isinstance(b, (SReal, float)):
        return 'real', as_real_term(a), as_real_term(b)
    return 'int', as_int_term(a), as_int_term(b)


def _mk_num(kind, t):
    return mk_int(t) if kind == 'int' else SReal(z3.simplify(t))


def _floordiv(a, b):
    # floor(a/b).  z3 `/` on Int is Euclidean division (a = b*q + r, 0 <= r < |b|).
    # b > 0: Euclidean q == floor.  b < 0: floor(a/b) = floor((-a)/(-b)) = euclid(-a, -b).
    return z3.If(b > 0, a / b, (-a) / (-b))


def _pymod(a, b):
    return a - b * _floordiv(a, b)


class SInt(Sym):
    __slots__ = ('t',)

    def __init__(self, t):
        self.t = t

    def __repr__(self):
        return 'SInt(%s)' % self.t

    def __bool__(self):
        return ctx().branch(self.t != 0, 'int-truth')

    def _bin(self, other, f, rev=False):
        if isinstance(other, SV):
            other = other.resolve_builtin()
            if isinstance(other, SV):
                return NotImplemented
        if not is_numeric(other) and not isinstance(other, (bool, SBool)):
            return NotImplemented
        a, b = (other, self) if rev else (self, other)
        kind, ta, tb = _num2(a, b)
        return _mk_num(kind, f(ta, tb))

    def __add__(self, o): return self._bin(o, lambda a, b: a + b)
    def __radd__(self, o): return self._bin(o, lambda a, b: a + b, True)
    def __sub__(self, o): return self._bin(o, lambda a, b: a - b)
    def __rsub__(self, o): return self._bin(o, lambda a, b: a - b, True)
    def __mul__(self, o): return self._bin(o, lambda a, b: a * b)
    def __rmul__(self, o): return self._bin(o, lambda a, b: a * b, True)
    def __neg__(self): return mk_int(-self.t)
    def __pos__(self): return self
    def __abs__(self): return mk_int(z3.If(self.t >= 0, self.t, -self.t))
    def __index__(self): raise OutOfSubset('symbolic int used as a concrete index')
    def __int__(self): raise OutOfSubset('int() on a symbolic int must go through the model builtin')

    def __floordiv__(self, o):
        return _divlike(self, o, 'floordiv')

    def __rfloordiv__(self, o):
        return _divlike(o, self, 'floordiv')

    def __mod__(self, o):
        return _divlike(self, o, 'mod')

    def __rmod__(self, o):
        return _divlike(o, self, 'mod')

    def __truediv__(self, o):
        return _divlike(self, o, 'truediv')

    def __rtruediv__(self, o):
        return _divlike(o, self, 'truediv')

    def __pow__(self, o):
        if isinstance(o, int) and 0 <= o <= 4:
            r = z3.IntVal(1)
            for _ in range(o):
                r = r * self.t
            return mk_int(r)
        h = getattr(theory(), 'sym_pow', None)
        if h is not None:
            return h(self, o)
        raise OutOfSubset('symbolic power')

    def __rpow__(self, o):
        h = getattr(theory(), 'sym_pow', None)
        if h is not None:
            return h(o, self)
        raise OutOfSubset('symbolic power')

    def _cmp(self, o, f):
        if isinstance(o, SV):
            o = o.resolve_builtin()
        if not is_numeric(o) and not isinstance(o, (bool, SBool)):
            return NotImplemented
        _, a, b = _num2(self, o)
        return mk_bool(f(a, b))

    def __eq__(self, o):
        r = self._cmp(o, lambda a, b: a == b)
        return False if r is NotImplemented and not isinstance(o, Sym) else r

    def __ne__(self, o):
        r = self._cmp(o, lambda a, b: a != b)
        return True if r is NotImplemented and not isinstance(o, Sym) else r

    def __lt__(self, o): return self._cmp(o, lambda a, b: a < b)
    def __le__(self, o): return self._cmp(o, lambda a, b: a <= b)
    def __gt__(self, o): return self._cmp(o, lambda a, b: a > b)
    def __ge__(self, o): return self._cmp(o, lambda a, b: a >= b)


def _divlike(a, b, op):
    if isinstance(a, SV):
        a = a.resolve_builtin()
    if isinstance(b, SV):
        b = b.resolve_builtin()
    if not (is_numeric(a) or isinstance(a, bool)) or not (is_numeric(b) or isinstance(b, bool)):
        return NotImplemented
    kind, ta, tb = _num2(a, b)
    if not ctx().branch(tb != 0, 'div-nonzero'):
        raise ZeroDivisionError('division by zero')
    if op == 'truediv':
        return SReal(z3.simplify(as_real_term(a) / as_real_term(b)))
    if kind == 'real':
        raise OutOfSubset('floor division / modulo on reals')
    return mk_int(_floordiv(ta, tb) if op == 'floordiv' else _pymod(ta, tb))


class SReal(Sym):
    """Python float treated as a mathematical real (stated assumption)."""
    __slots__ = ('t',)

    def __init__(self, t):
        self.t = t

    def __repr__(self):
        return 'SReal(%s)' % self.t

    def __bool__(self):
        return ctx().branch(self.t != 0, 'real-truth')

    def _bin(self, other, f, rev=False):
        if isinstance(other, SV):
            other = other.resolve_builtin()
            if isinstance(other, SV):
                return NotImplemented
        if not is_numeric(other) and not isinstance(other, (bool, SBool)):
            return NotImplemented
        a, b = (other, self) if rev else (self, other)
        return SReal(z3.simplify(f(as_real_term(a), as_real_term(b))))

    def __add__(self, o): return self._bin(o, lambda a, b: a + b)
    def __radd__(self, o): return self._bin(o, lambda a, b: a + b, True)
    def __sub__(self, o): return self._bin(o, lambda a, b: a - b)
    def __rsub__(self, o): return self._bin(o, lambda a, b: a - b, True)
    def __mul__(self, o): return self._bin(o, lambda a, b: a * b)
    def __rmul__(self, o): return self._bin(o, lambda a, b: a * b, True)
    def __neg__(self): return SReal(-self.t)
    def __abs__(self): return SReal(z3.If(self.t >= 0, self.t, -self.t))
    def __truediv__(self, o): return _divlike(self, o, 'truediv')
    def __rtruediv__(self, o): return _divlike(o, self, 'truediv')

    def __pow__(self, o):
        h = getattr(theory(), 'sym_pow', None)
        if h is not None:
            return h(self, o)
        raise OutOfSubset('symbolic power')

    def __rpow__(self, o):
        h = getattr(theory(), 'sym_pow', None)
        if h is not None:
            return h(o, self)
        raise OutOfSubset('symbolic power')

    def _cmp(self, o, f):
        if isinstance(o, SV):
            o = o.resolve_builtin()
        if not is_numeric(o) and not isinstance(o, (bool, SBool)):
            return NotImplemented
        return mk_bool(f(self.t, as_real_term(o)))

    def __eq__(self, o):
        r = self._cmp(o, lambda a, b: a == b)
        return False if r is NotImplemented and not isinstance(o, Sym) else r

    def __ne__(self, o):
        r = self._cmp(o, lambda a, b: a != b)
        return True if r is NotImplemented and not isinstance(o, Sym) else r

    def __lt__(self, o): return self._cmp(o, lambda a, b: a < b)
    def __le__(self, o): return self._cmp(o, lambda a, b: a <= b)
    def __gt__(self, o): return self._cmp(o, lambda a, b: a > b)
    def __ge__(self, o): return self._cmp(o, lambda a, b: a >= b)

    def is_integer(self):
        return mk_bool(z3.IsInt(self.t))


class SBool(Sym):
    __slots__ = ('t',)

    def __init__(self, t):
        self.t = t

    def __repr__(self):
        return 'SBool(%s)' % self.t

    def __bool__(self):
        return ctx().branch(self.t, 'bool')

    def __and__(self, o): return mk_bool(z3.And(self.t, as_bool_term(o)))
    __rand__ = __and__
    def __or__(self, o): return mk_bool(z3.Or(self.t, as_bool_term(o)))
    __ror__ = __or__
    def __invert__(self): return mk_bool(z3.Not(self.t))

    def __eq__(self, o):
        if isinstance(o, (SBool, bool)):
            return mk_bool(self.t == as_bool_term(o))
        if isinstance(o, (SInt, int)):
            return mk_bool(z3.If(self.t, 1, 0) == as_int_term(o))
        return False if not isinstance(o, Sym) else NotImplemented

    def __ne__(self, o):
        r = self.__eq__(o)
        if r is NotImplemented:
            return r
        return mk_bool(z3.Not(as_bool_term(r)))

    def __add__(self, o): return mk_int(z3.If(self.t, 1, 0)) + o
    __radd__ = __add__


class SStr(Sym):
    __slots__ = ('t',)

    def __init__(self, t):
        self.t = t

    def __repr__(self):
        return 'SStr(%s)' % self.t

    def __bool__(self):
        return ctx().branch(z3.Length(self.t) > 0, 'str-truth')

    def __add__(self, o):
        if isinstance(o, (SStr, str)):
            return mk_str(z3.Concat(self.t, as_str_term(o)))
        return NotImplemented

    def __radd__(self, o):
        if isinstance(o, (SStr, str)):
            return mk_str(z3.Concat(as_str_term(o), self.t))
        return NotImplemented

    def __eq__(self, o):
        if isinstance(o, SV):
            o = o.resolve_builtin()
        if isinstance(o, (SStr, str)):
            return mk_bool(self.t == as_str_term(o))
        if isinstance(o, SV):
            return o.__eq__(self)
        if o is None or isinstance(o, (int, float, bool, tuple, list, dict, set, frozenset, bytes)):
            return False
        # like str.__eq__: not a string => NotImplemented, so that the other operand's (reflected) __eq__ is tried
        return NotImplemented

    def __ne__(self, o):
        r = self.__eq__(o)
        if r is NotImplemented:
            return r
        return mk_bool(z3.Not(as_bool_term(r)))

    def __contains__(self, o):
        return truth(mk_bool(z3.Contains(self.t, as_str_term(o))))

    def __iter__(self):
        raise OutOfSubset('iteration over a symbolic string')

    def __getitem__(self, i):
        n = z3.Length(self.t)
        if isinstance(i, slice):
            if i.step is not None:
                raise OutOfSubset('extended slice of a symbolic string')

            def norm(x, default):
                if x is None:
                    return default
                xt = as_int_term(x)
                xt = z3.If(xt < 0, xt + n, xt)
                return z3.If(xt < 0, 0, z3.If(xt > n, n, xt))
            lo, hi = norm(i.start, z3.IntVal(0)), norm(i.stop, n)
            return mk_str(z3.If(hi > lo, z3.SubString(self.t, lo, hi - lo), z3.StringVal('')))
        it = as_int_term(i)
        if not ctx().branch(z3.And(it < n, it >= -n), 'str-index-in-range'):
            raise IndexError('string index out of range')
        return mk_str(z3.SubString(self.t, z3.If(it >= 0, it, n + it), 1))


# string spec symbols shared by all theories (ASCII assumption, DESIGN 3.3)
_LOWER = z3.Function('lower', z3.StringSort(), z3.StringSort())
_UPPER = z3.Function('upper', z3.StringSort(), z3.StringSort())


def str_lower(x):
    if isinstance(x, str):
        return x.lower()
    return mk_str(_LOWER(as_str_term(x)))


def lower_axioms():
    a, b = z3.Strings('a!ax b!ax')
    return [
        z3.ForAll([a], _LOWER(_LOWER(a)) == _LOWER(a), patterns=[_LOWER(_LOWER(a))]),
        z3.ForAll([a], z3.Length(_LOWER(a)) == z3.Length(a), patterns=[_LOWER(a)]),
        z3.ForAll([a, b], _LOWER(z3.Concat(a, b)) == z3.Concat(_LOWER(a), _LOWER(b)),
                  patterns=[_LOWER(z3.Concat(a, b))]),
    ]


class SSeq(Sym):
    """list / tuple of symbolic shape: a mutable wrapper around a VL term."""
    __slots__ = ('T', 't', 'kind')

    def __init__(self, T, t, kind='list'):
        self.T, self.t, self.kind = T, t, kind

    def __repr__(self):
        return 'SSeq[%s](%s)' % (self.kind, self.t)

    def concrete_items(self):
        """python list of element proxies if the spine is explicit, else None"""
        out, t = [], z3.simplify(self.t)
        while True:
            if z3.is_app(t) and t.decl().name() == 'cons':
                out.append(self.T.lower(t.arg(0)))
                t = t.arg(1)
            elif z3.is_app(t) and t.decl().name() == 'nil':
                return out
            else:
                return None

    def __bool__(self):
        return ctx().branch(self.T.is_cons(self.t), 'seq-nonempty')

    def __len__(self):
        raise OutOfSubset('len() must be the model builtin')

    def length(self):
        items = self.concrete_items()
        if items is not None:
            return len(items)
        return mk_int(self.T.length(self.t))

    def __iter__(self):
        items = self.concrete_items()
        if items is None:
            raise OutOfSubset('iteration over a sequence of symbolic length outside a cut loop '
                              '(needs a loop invariant in the sidecar)')
        return iter(items)

    def _same(self, t):
        return SSeq(self.T, z3.simplify(t), self.kind)

    def __getitem__(self, i):
        T = self.T
        if isinstance(i, slice):
            if i.step is not None:
                raise OutOfSubset('extended slice')
            t = self.t
            if i.stop is not None:
                if isinstance(i.stop, int) and i.stop < 0:
                    t = T.take(t, T.length(t) + i.stop)
                else:
                    t = T.take(t, as_int_term(i.stop))
            if i.start is not None:
                if isinstance(i.start, int) and i.start < 0:
                    raise OutOfSubset('negative slice start')
                if isinstance(i.start, int) and i.start <= 3:
                    for _ in range(i.start):
                        t = z3.If(T.is_cons(t), T.tl(t), T.nil)
                else:
                    t = T.drop(t, as_int_term(i.start))
            return self._same(t)
        if isinstance(i, int) and not isinstance(i, bool):
            if i >= 0:
                t = self.t
                for _ in range(i):
                    if not ctx().branch(T.is_cons(t), 'index-in-range'):
                        raise IndexError('index out of range')
                    t = T.tl(t)
                if not ctx().branch(T.is_cons(t), 'index-in-range'):
                    raise IndexError('index out of range')
                return T.lower(T.hd(t))
            if i == -1:
                last = _syntactic_last(z3.simplify(self.t))
                if last is not None:        # x = app(prefix, [v]) or an explicit spine: no case split needed
                    return T.lower(last)
            n = T.length(self.t)
            if not ctx().branch(n >= -i, 'index-in-range'):
                raise IndexError('index out of range')
            return T.lower(T.nth(self.t, n + i))
        it = as_int_term(i)
        n = T.length(self.t)
        if not ctx().branch(z3.And(it < n, it >= -n), 'index-in-range'):
            raise IndexError('index out of range')
        return T.lower(T.nth(self.t, z3.If(it >= 0, it, n + it)))

    def __add__(self, o):
        if isinstance(o, SSeq) or isinstance(o, (list, tuple)):
            return self._same(self.T.app(self.t, self.T.lift_seq(o)))
        return NotImplemented

    def __radd__(self, o):
        if isinstance(o, (list, tuple)):
            return self._same(self.T.app(self.T.lift_seq(o), self.t))
        return NotImplemented

    def __iadd__(self, o):
        if self.kind == 'list':
            self.t = z3.simplify(self.T.app(self.t, self.T.lift_seq(o)))
            return self
        return self.__add__(o)

    def __contains__(self, x):
        return truth(mk_bool(self.T.mem(self.T.lift(x), self.t)))

    def __eq__(self, o):
        if isinstance(o, SSeq) or isinstance(o, (list, tuple)):
            if (self.kind == 'list') != (o.kind == 'list' if isinstance(o, SSeq) else isinstance(o, list)):
                return False
            return mk_bool(self.t == self.T.lift_seq(o))
        return False if not isinstance(o, Sym) else NotImplemented

    def __ne__(self, o):
        r = self.__eq__(o)
        if r is NotImplemented:
            return r
        return mk_bool(z3.Not(as_bool_term(r)))

    # list mutators
    def append(self, x):
        self.t = z3.simplify(self.T.app(self.t, self.T.cons(self.T.lift(x), self.T.nil)))

    def extend(self, o):
        self.t = z3.simplify(self.T.app(self.t, self.T.lift_seq(o)))

    def insert(self, i, x):
        if i != 0:
            raise OutOfSubset('insert at non-zero position')
        self.t = self.T.cons(self.T.lift(x), self.t)

    def pop(self, i=-1):
        T = self.T
        if not ctx().branch(T.is_cons(self.t), 'pop-nonempty'):
            raise IndexError('pop from empty list')
        if i == 0:
            h = T.lower(T.hd(self.t))
            self.t = z3.simplify(T.tl(self.t))
            return h
        if i == -1:
            n = T.length(self.t)
            h = T.lower(T.nth(self.t, n - 1))
            self.t = z3.simplify(T.take(self.t, n - 1))
            return h
        raise OutOfSubset('pop(%r)' % (i,))

    def copy(self):
        return SSeq(self.T, self.t, self.kind)

    def index(self, x):
        raise OutOfSubset('list.index on symbolic list')

    def count(self, x):
        raise OutOfSubset('list.count on symbolic list')


def _syntactic_last(t):
    """last element of a VL term whose tail end is explicit (app(_, cons(v, nil)) / cons(.., cons(v, nil)))"""
    while z3.is_app(t):
        k = t.decl().name()
        if k == 'app':
            t = t.arg(1)
        elif k == 'cons':
            if z3.is_app(t.arg(1)) and t.arg(1).decl().name() == 'nil':
                return t.arg(0)
            t = t.arg(1)
        else:
            return None
    return None


class HRef:
    """concrete heap reference (identity) for model objects with mutable fields"""
    _n = 0

    def __init__(self):
        HRef._n += 1
        self.rid = HRef._n


class SV(Sym):
    """A value of the universal sort V whose Python type may not be known statically."""
    __slots__ = ('T', 't', 'cls', '_inst', '_attrs', '_poss')

    def __init__(self, T, t, cls=None):
        self.T, self.t, self.cls = T, t, cls
        self._inst = False          # already established on this path: value is an instance of a model class
        self._attrs = None          # attribute groups already established on this path
        self._poss = None           # model classes still possible on this path (narrowed by isinstance tests)

    def narrow(self, names, positive):
        """record the outcome of an isinstance-like test (keeps attribute ite-chains small)"""
        allc = [cn for cn, cm in self.T.classes.items() if cm.fields is not None]
        cur = self._poss if self._poss is not None else allc
        names = set(names)
        cur = [c for c in cur if (c in names) == positive]
        self._poss = cur
        if positive:
            self._inst = True
        if len(cur) == 1 and self._inst:
            self.cls = cur[0]

    def possible(self):
        if self._poss is not None:
            return self._poss
        return [cn for cn, cm in self.T.classes.items() if cm.fields is not None]

    def __repr__(self):
        return 'SV<%s>(%s)' % (self.cls or '?', str(self.t)[:60])

    # -- tag resolution -------------------------------------------------------------------
    def known_class(self):
        if self.cls is not None:
            return self.cls
        t = z3.simplify(self.t)
        if z3.is_app(t) and t.num_args() >= 0 and t.decl().name().startswith('C_') and t.decl().name() in self.T.ctor:
            self.cls = t.decl().name()[2:]
        return self.cls

    def _typed(self, k):
        T, t = self.T, self.t
        if k == 'VNone':
            return None
        if k == 'VInt':
            return mk_int(T.V.ival(t))
        if k == 'VBool':
            return mk_bool(T.V.bval(t))
        if k == 'VStr':
            return mk_str(T.V.sval(t))
        if k == 'VReal':
            return SReal(T.V.rval(t))
        if k == 'VList':
            return SSeq(T, z3.simplify(T.V.litems(t)), 'list')
        if k == 'VTuple':
            return SSeq(T, z3.simplify(T.V.titems(t)), 'tuple')
        if k == 'VRef':
            raise OutOfSubset('symbolic heap reference')
        return self

    def resolve(self, candidates=None):
        """Return a typed proxy (None, int/SInt, bool/SBool, str/SStr, SReal, SSeq) or self with
        .cls set.  Forks over the feasible constructors (candidates first; if candidates is given and
        none applies, returns self unchanged with cls None)."""
        if self.known_class() is not None:
            return self
        T, t, c = self.T, self.t, ctx()
        names = list(candidates) if candidates is not None else list(T.ctor)
        for k in names:
            if c.branch(T.recog['is_' + k](t), 'tag:' + k):
                if k.startswith('C_'):
                    self.cls = k[2:]
                    return self
                return self._typed(k)
        if candidates is not None:
            return self
        raise PathEnd()

    def resolve_builtin(self):
        """typed proxy if the value is a builtin (None/int/bool/str/float/list/tuple); self (class possibly
        unknown) if it is an instance of a model class.  One fork per builtin tag, one for 'instance'."""
        if self.known_class() is not None or self._inst:
            return self
        T, t, c = self.T, self.t, ctx()
        inst = z3.Or([T.recog['is_' + k](t) for k in T.ctor if k.startswith('C_')])
        if c.branch(inst, 'tag:instance'):
            self._inst = True
            return self
        c.assume(z3.Not(T.recog['is_VRef'](t)))      # heap references are never symbolic (only concrete HRefs)
        for k in Theory.BUILTIN:
            if k != 'VRef' and c.branch(T.recog['is_' + k](t), 'tag:' + k):
                return self._typed(k)
        raise PathEnd()

    def _impl_groups(self, finder):
        """group the concrete model classes by the implementation `finder(clsname)` returns"""
        groups = {}
        poss = set(self.possible())
        for cn, cm in self.T.classes.items():
            if cm.fields is None or cn not in poss:
                continue
            impl = finder(cn)
            groups.setdefault(id(impl), (impl, []))[1].append(cn)
        return list(groups.values())

    def dispatch(self, finder, tag):
        """For an instance of unknown class: fork once per distinct implementation (not per class).
        Returns the implementation (or None)."""
        k = self.known_class()
        if k is not None:
            return finder(k)
        T, t, c = self.T, self.t, ctx()
        groups = self._impl_groups(finder)
        if len(groups) == 1:
            return groups[0][0]
        for impl, names in groups:
            if c.branch(z3.Or([T.recog['is_C_' + n](t) for n in names]), 'impl:' + tag):
                if len(names) == 1:
                    self.cls = names[0]
                return impl
        raise PathEnd()

    def is_a(self, clsname):
        """z3 Bool: value is an instance of model class clsname (or subclass)"""
        k = self.known_class()
        if k is not None:
            return z3.BoolVal(clsname in self.T.ancestors(k))
        return self.T.is_instance_term(self.t, clsname)

    def as_seq(self):
        r = self.resolve(['VTuple', 'VList'])
        if isinstance(r, SSeq):
            return r
        raise TypeError('not a sequence')

    def as_int(self):
        r = self.resolve(['VInt', 'VBool'])
        if isinstance(r, (SInt, int)):
            return r
        raise TypeError('not an int')

    # -- attribute access -------------------------------------------------------------------
    def __getattr__(self, name):
        if name.startswith('__') and name.endswith('__'):
            raise AttributeError(name)
        T = self.T
        k = self.known_class()
        if k is None:
            r = self.resolve_builtin()
            if r is not self:
                return getattr(r, name)
            k = self.known_class()
        if k is None:
            # instance of unknown class: field via ite-chain over the classes that have it
            have = {}
            poss = set(self.possible())
            for cn, cm in T.classes.items():
                if cm.fields is None or cn not in poss:
                    continue
                kind = None
                for f, s in cm.fields:
                    if f == name:
                        kind = ('field', s)
                if kind is None:
                    p = T.find_prop(cn, name)
                    if p is not None:
                        kind = ('prop', id(p), p)
                    else:
                        m = T.find_method(cn, name)
                        if m is not None:
                            kind = ('meth', id(m), m)
                have.setdefault(kind[:2] if kind else None, []).append((cn, kind))
            c = ctx()
            if self._attrs is None:
                self._attrs = {}
            for key, lst in have.items():
                names = [cn for cn, _ in lst]
                if len(have) > 1:
                    done = self._attrs.get(name)
                    if done is not None:
                        if done != key:
                            continue
                    elif not c.branch(z3.Or([T.recog['is_C_' + n](self.t) for n in names]), 'attr:' + name):
                        self.narrow(names, False)
                        continue
                    self._attrs[name] = key
                    self.narrow(names, True)
                if len(names) == 1:
                    self.cls = names[0]
                if key is None:
                    raise AttributeError("'%s' object has no attribute '%s'" % ('|'.join(names[:3]), name))
                kind = lst[0][1]
                if kind[0] == 'field':
                    term = None
                    for cn in reversed(names):
                        a = T.acc['%s__%s' % (cn, name)](self.t)
                        term = a if term is None else z3.If(T.recog['is_C_' + cn](self.t), a, term)
                    return T.lower_field(term, kind[1])
                if kind[0] == 'prop':
                    return kind[2](self)
                return lambda *a, _m=kind[2], **kw: _m(self, *a, **kw)
            raise PathEnd()
        cm = T.classes[k]
        for f, s in cm.fields:
            if f == name:
                return T.lower_field(T.acc['%s__%s' % (k, f)](self.t), s)
        p = T.find_prop(k, name)
        if p is not None:
            return p(self)
        m = T.find_method(k, name)
        if m is not None:
            return lambda *a, **kw: m(self, *a, **kw)
        auto = _auto_member(T, k, name)
        if auto is not None:
            kind, fn = auto
            if kind == 'property':
                return fn(self)
            if kind == 'staticmethod':
                return fn
            if kind == 'classmethod':
                return lambda *a, **kw: fn(T.classes[k], *a, **kw)
            return lambda *a, **kw: fn(self, *a, **kw)
        raise ModelAttributeError("'%s' object has no attribute '%s'" % (k, name))

    def _dunder(self, name, *args):
        """call special method `name`; NotImplemented if the value's type does not define it"""
        r = self.resolve_builtin()
        if r is not self:
            if r is None:
                return NotImplemented
            f = getattr(type(r), name, None)
            if f is None:
                return NotImplemented
            return f(r, *args)
        m = self.dispatch(lambda cn: self.T.find_method(cn, name), name)
        if m is None:
            return NotImplemented
        return m(self, *args)

    def __bool__(self):
        h = getattr(self.T, 'truth_hook', None)
        if h is not None:
            return truth(h(self))
        r = self.resolve_builtin()
        if r is not self:
            return truth(r)
        m = self.dispatch(lambda cn: self.T.find_method(cn, '__bool__') or self.T.find_method(cn, '__len__'),
                          '__bool__')
        if m is None:
            return True
        x = m(self)
        if isinstance(x, (SInt, int)) and not isinstance(x, bool):
            return truth(x != 0)
        return truth(x)

    def __eq__(self, o):
        T = self.T
        h = getattr(T, 'dyn_eq', None)
        if h is not None and (self.known_class() is None or (isinstance(o, SV) and o.known_class() is None)):
            return h(self, o)
        r = self.resolve_builtin()
        if r is not self:
            if isinstance(o, SV):
                o2 = o.resolve_builtin()
                if o2 is o:
                    x = o._dunder('__eq__', r)
                    return False if x is NotImplemented else x
                o = o2
            if r is None:
                return o is None
            x = (r == o)
            return False if x is NotImplemented else x
        x = self._dunder('__eq__', o)
        if x is NotImplemented:
            if isinstance(o, SV):
                y = o._dunder('__eq__', self)
                if y is not NotImplemented:
                    return y
                return mk_bool(self.t == o.t)
            return False
        return x

    def __ne__(self, o):
        m = None
        if self.known_class() is not None:
            m = self.T.find_method(self.cls, '__ne__')
        if m is not None:
            return m(self, o)
        r = self.__eq__(o)
        if isinstance(r, SBool):
            return mk_bool(z3.Not(r.t))
        return not r

    def _arith(self, name, rname, o):
        x = self._dunder(name, o)
        if x is NotImplemented and isinstance(o, SV):
            x = o._dunder(rname, self)
        if x is NotImplemented:
            raise TypeError('unsupported operand type(s) for %s' % name)
        return x

    def __add__(self, o): return self._arith('__add__', '__radd__', o)
    def __sub__(self, o): return self._arith('__sub__', '__rsub__', o)
    def __mul__(self, o): return self._arith('__mul__', '__rmul__', o)
    def __truediv__(self, o): return self._arith('__truediv__', '__rtruediv__', o)
    def __floordiv__(self, o): return self._arith('__floordiv__', '__rfloordiv__', o)
    def __mod__(self, o): return self._arith('__mod__', '__rmod__', o)
    def __pow__(self, o): return self._arith('__pow__', '__rpow__', o)

    def _rarith(self, rname, o):
        x = self._dunder(rname, o)
        if x is NotImplemented:
            raise TypeError('unsupported operand type(s) for %s' % rname)
        return x

    def __radd__(self, o): return self._rarith('__radd__', o)
    def __rsub__(self, o): return self._rarith('__rsub__', o)
    def __rmul__(self, o): return self._rarith('__rmul__', o)
    def __rtruediv__(self, o): return self._rarith('__rtruediv__', o)

    def __neg__(self):
        x = self._dunder('__neg__')
        if x is NotImplemented:
            raise TypeError('bad operand type for unary -')
        return x

    def _order(self, name, o):
        x = self._dunder(name, o)
        if x is NotImplemented:
            raise TypeError("'%s' not supported" % name)
        return x

    def __lt__(self, o): return self._order('__lt__', o)
    def __le__(self, o): return self._order('__le__', o)
    def __gt__(self, o): return self._order('__gt__', o)
    def __ge__(self, o): return self._order('__ge__', o)

    def __getitem__(self, i):
        r = self.resolve_builtin()
        if r is not self:
            return r[i]
        m = self.dispatch(lambda cn: self.T.find_method(cn, '__getitem__'), '__getitem__')
        if m is None:
            raise TypeError('object is not subscriptable')
        return m(self, i)

    def __iter__(self):
        r = self.resolve_builtin()
        if r is not self:
            return iter(r)
        m = self.dispatch(lambda cn: self.T.find_method(cn, '__iter__'), '__iter__')
        if m is None:
            raise TypeError('object is not iterable')
        return m(self)

    def __contains__(self, x):
        r = self.resolve_builtin()
        if r is not self:
            return x in r
        m = self.dispatch(lambda cn: self.T.find_method(cn, '__contains__'), '__contains__')
        if m is None:
            raise TypeError('argument of this type is not iterable')
        return truth(m(self, x))
