"""pyvc runtime: the `__vc` object the rewritten code calls, and the model builtins."""
import builtins as _b
import itertools
import z3

from . import core, values
from .core import define_rec, ctx, OutOfSubset, PathEnd, CheckerError
from .values import (Sym, SInt, SBool, SStr, SReal, SSeq, SV, ClassModel, mk_int, mk_bool, mk_str, truth,
                     as_int_term, as_str_term, as_bool_term, as_real_term, theory)

_COMP_COUNTER = itertools.count()
CURRENT = None          # the VC of the function being verified (inline helpers delegate to it)


class CurrentVC:
    """`__vc` of inlined helpers: delegates to the VC of the function under verification"""

    def __getattr__(self, name):
        if CURRENT is None:
            raise CheckerError('inline helper executed outside a verification run')
        return getattr(CURRENT, name)


class ForState:
    def __init__(self, n, seq):
        self.n = n
        self.seq0 = seq          # SSeq snapshot (term) of the iterable
        self.seen = None
        self.rest = None
        self.cur = None


class ContractStub:
    """A callee replaced by its contract: assert pre, (havoc frame,) assume post (DESIGN 3.2)."""

    def __init__(self, name, fn):
        self.name, self.fn = name, fn

    def __call__(self, *a, **kw):
        return self.fn(*a, **kw)


class VC:
    """runtime support object bound to `__vc` in the globals of every rewritten function"""

    def __init__(self, spec):
        self.spec = spec                    # FunctionSpec (runner.py)
        self.loop_counts = {}

    # ---- identity / membership / subscripts -------------------------------------------------
    def is_(self, a, b):
        if isinstance(a, Sym) or isinstance(b, Sym):
            if b is None or a is None:
                x = a if b is None else b
                if isinstance(x, SV):
                    if x.known_class() is not None:
                        return False
                    return ctx().branch(x.T.V.is_VNone(x.t), 'is-none')
                return False
            if isinstance(a, SV) and isinstance(b, SV):
                # identity of immutable model values: equal terms <=> may be identical; we use term equality
                return ctx().branch(a.t == b.t, 'is')
            if isinstance(a, (SBool, bool)) and isinstance(b, (SBool, bool)):
                return ctx().branch(as_bool_term(a) == as_bool_term(b), 'is')
            if isinstance(a, SSeq) and isinstance(b, SSeq):
                return a is b
            return a is b
        return a is b

    def contains(self, container, x):
        if isinstance(container, Sym):
            return container.__contains__(x)
        if isinstance(container, (_b.dict, _b.set, _b.frozenset)):
            if not isinstance(x, Sym):
                try:
                    return x in container
                except TypeError:
                    pass
            for k in list(container):
                if truth(k == x):
                    return True
            return False
        if isinstance(container, (list, tuple)):
            for k in container:
                if k is x or truth(k == x):
                    return True
            return False
        if isinstance(container, str) and isinstance(x, SStr):
            return truth(mk_bool(z3.Contains(z3.StringVal(container), x.t)))
        return x in container

    def getitem(self, o, k):
        if isinstance(o, Sym):
            return o[k]
        if isinstance(k, SV):
            k = k.resolve_builtin()
        if isinstance(o, (list, tuple)) and isinstance(k, SInt):
            n = len(o)
            for i in range(n):
                if ctx().branch(z3.Or(k.t == i, k.t == i - n), 'concrete-index'):
                    return o[i]
            raise IndexError('index out of range')
        if isinstance(o, (list, tuple)) and isinstance(k, slice) and any(isinstance(x, Sym) for x in
                                                                          (k.start, k.stop, k.step)):
            T = theory()
            return SSeq(T, T.lift_seq(o), 'list' if isinstance(o, list) else 'tuple')[k]
        if isinstance(o, _b.dict) and isinstance(k, Sym):
            for kk in list(o):
                if truth(kk == k):
                    return o[kk]
            if hasattr(o, '__missing__'):
                return o.__missing__(k)
            raise KeyError(k)
        if isinstance(o, str) and isinstance(k, (SInt, slice)) and not isinstance(k, slice):
            raise OutOfSubset('symbolic index into concrete string')
        return o[k]

    def unpack(self, t, n):
        """tuple-target unpacking of an element inside a comprehension lambda"""
        if isinstance(t, SV):
            t = t.resolve(['VTuple', 'VList'])
        if isinstance(t, SSeq):
            items = t.concrete_items()
            if items is None:
                T = t.T
                out, term = [], t.t
                for _ in range(n):
                    ctx().assume(T.is_cons(term))
                    out.append(T.lower(T.hd(term)))
                    term = T.tl(term)
                ctx().assume(T.is_nil(term))
                return out
            return items
        return list(t)

    # ---- displays -------------------------------------------------------------------------
    def mkseq(self, kind, items):
        concrete = True
        out = []
        for star, v in items:
            if star:
                if isinstance(v, SV):
                    v = v.resolve(['VTuple', 'VList'])
                if isinstance(v, SSeq):
                    ci = v.concrete_items()
                    if ci is None:
                        concrete = False
                        out.append((True, v))
                    else:
                        out.extend((False, x) for x in ci)
                else:
                    out.extend((False, x) for x in v)
            else:
                out.append((False, v))
        if concrete:
            seq = [v for _, v in out]
            return seq if kind == 'list' else tuple(seq)
        T = theory()
        t = T.nil
        for star, v in reversed(out):
            t = T.app(v.t, t) if star else T.cons(T.lift(v), t)
        return SSeq(T, z3.simplify(t), kind)

    def mkdict(self, items):
        from .containers import CDict
        d = CDict()
        for star, k, v in items:
            if star:
                d.update(k)
            else:
                d[k] = v
        return d

    def mkset(self, items):
        from .containers import make_set
        return make_set(items)

    # ---- strings ---------------------------------------------------------------------------
    def str_(self, x):
        return m_str(x)

    def repr_(self, x):
        return m_repr(x)

    def fstr(self, parts):
        hook = getattr(self.spec, 'str_hook', None)     # a sidecar string abstraction (C04: atoms with symbolic lengths)
        if hook is not None:
            r = hook('__fstr__', None, (parts,), {})
            if r is not NotImplemented:
                return r
        if all(isinstance(p, str) for p in parts):
            return ''.join(parts)
        t = None
        for p in parts:
            pt = as_str_term(p)
            t = pt if t is None else z3.Concat(t, pt)
        return mk_str(t) if t is not None else ''

    def fmt(self, fmt, args):
        if not isinstance(args, tuple):
            args = (args,)
        if not any(isinstance(a, Sym) for a in args):
            return fmt % args
        import re
        pieces = re.split(r'(%[sdr])', fmt)
        out, it = [], iter(args)
        for p in pieces:
            if p in ('%s', '%d'):
                out.append(m_str(next(it)))
            elif p == '%r':
                out.append(m_repr(next(it)))
            elif '%' in p.replace('%%', ''):
                raise OutOfSubset('format spec %r' % p)
            else:
                out.append(p.replace('%%', '%'))
        return self.fstr(out)

    def meth(self, name, recv, *args, **kw):
        from .strings import str_method
        hook = getattr(self.spec, 'str_hook', None)
        if hook is not None:
            r = hook(name, recv, args, kw)
            if r is not NotImplemented:
                return r
        if isinstance(recv, SV):
            r = recv.resolve(['VStr'])
            if r is not recv:
                recv = r
        symbolic = isinstance(recv, SStr) or (isinstance(recv, str) and any(
            isinstance(a, Sym) or (isinstance(a, (list, tuple)) and any(isinstance(x, Sym) for x in a))
            for a in args))
        if symbolic:
            return str_method(name, recv, *args, **kw)
        return getattr(recv, name)(*args, **kw)

    # ---- augmented assignment --------------------------------------------------------------
    def iop(self, opname, a, b):
        import operator
        if opname == 'Add':
            if isinstance(a, list) and isinstance(b, (list, tuple)):
                a += b
                return a
            if isinstance(a, list) and isinstance(b, (SSeq, SV)):
                T = theory()
                if isinstance(b, SV):
                    b = b.as_seq()
                return SSeq(T, z3.simplify(T.app(T.lift_seq(a), b.t)), 'list')
            if isinstance(a, SSeq):
                return a.__iadd__(b)
            return a + b
        f = {'Sub': operator.sub, 'Mult': operator.mul, 'Div': operator.truediv, 'FloorDiv': operator.floordiv,
             'Mod': operator.mod, 'BitOr': operator.or_, 'BitAnd': operator.and_, 'Pow': operator.pow,
             'BitXor': operator.xor}[opname]
        if opname in ('BitOr', 'BitAnd', 'Sub') and hasattr(a, 'i' + f.__name__.strip('_')):
            pass
        return f(a, b)

    # ---- comprehensions --------------------------------------------------------------------
    def comp(self, kind, ordinal, elt, cond, it):
        if getattr(type(it), '__vc_comp__', None) is not None:
            # a model collection summarises comprehensions over itself
            return it.__vc_comp__(self, kind, ordinal, elt, cond)
        if isinstance(it, SV):
            it = it.resolve(['VTuple', 'VList'])
        if isinstance(it, SSeq):
            items = it.concrete_items()
            if items is None:
                return self._comp_symbolic(kind, ordinal, elt, cond, it)
            it = items
        elif isinstance(it, Sym):
            it = iter(it)
        out = []
        for x in it:
            if truth(cond(x)):
                out.append(elt(x))
        return self._finish(kind, out)

    def _finish(self, kind, out):
        if kind in ('list', 'gen'):
            return out
        if kind == 'set':
            return self.mkset(out)
        if kind == 'dict':
            return self.mkdict([(False, k, v) for k, v in out])
        raise OutOfSubset(kind)

    def comp_flat(self, kind, ordinal, elt, cond, it):
        if getattr(type(it), '__vc_comp_flat__', None) is not None:
            return it.__vc_comp_flat__(self, kind, ordinal, elt, cond)
        if isinstance(it, SV):
            it = it.resolve(['VTuple', 'VList'])
        if isinstance(it, SSeq):
            items = it.concrete_items()
            if items is None:
                raise OutOfSubset('nested comprehension over a symbolic outer sequence')
            it = items
        out = []
        symbolic = False
        for x in it:
            if truth(cond(x)):
                r = elt(x)
                if isinstance(r, SSeq):
                    symbolic = True
                out.append(r)
        from .containers import SSet
        if out and all(isinstance(r, SSet) for r in out):
            # union of symbolic sets (the comprehension's result is only ever consumed as a set)
            u = out[0].copy()
            for r in out[1:]:
                u.update(r)
            return u
        if not symbolic:
            flat = [y for r in out for y in r]
            return self._finish(kind, flat)
        T = theory()
        t = T.nil
        for r in reversed(out):
            t = T.app(T.lift_seq(r), t)
        if kind not in ('list', 'gen'):
            raise OutOfSubset('nested symbolic %s comprehension' % kind)
        return SSeq(T, z3.simplify(t), 'list')

    def _comp_symbolic(self, kind, ordinal, elt, cond, seq):
        """[elt(x) for x in seq if cond(x)] over a sequence of symbolic length: summarise elt and cond on a
        fresh element (all paths merged into ite) and define the result by a RecFunction (DESIGN 3.5)."""
        if kind not in ('list', 'gen'):
            raise OutOfSubset('symbolic %s comprehension' % kind)
        T = seq.T
        outer = ctx()
        k = next(_COMP_COUNTER)
        x = z3.Const('compx!%d' % k, T.V)
        # evaluate cond and elt in one sub-run so that they share path conditions
        cases = summarize(lambda: _cond_elt(cond, elt, T.lower(x), T), outer)
        # merge
        cond_t, elt_t = None, None
        for pc, (c, e) in reversed(cases):
            g = z3.And(pc) if pc else z3.BoolVal(True)
            cond_t = c if cond_t is None else z3.If(g, c, cond_t)
            elt_t = e if elt_t is None else z3.If(g, e, elt_t)
        f = z3.RecFunction('comp!%d' % k, T.VL, T.VL)
        s = z3.Const('comps!%d' % k, T.VL)
        h = T.hd(s)
        body_c = z3.substitute(cond_t, (x, h))
        body_e = z3.substitute(elt_t, (x, h))
        define_rec(f, [s], z3.If(T.is_nil(s), T.nil,
                                           z3.If(body_c, T.cons(body_e, f(T.tl(s))), f(T.tl(s)))))
        res = SSeq(T, f(seq.t), 'list')
        hook = self.spec.comp_hooks.get(ordinal) if self.spec is not None else None
        if hook is not None:
            hook(self, f, x, cond_t, elt_t, seq, res)
        return res

    # ---- loops -----------------------------------------------------------------------------
    def iter_concrete(self, n, it):
        if isinstance(it, SV):
            it = it.resolve(['VTuple', 'VList'])
        if isinstance(it, SSeq):
            items = it.concrete_items()
            if items is None:
                raise OutOfSubset('%s: loop #%d iterates over a sequence of symbolic length and has no '
                                  'invariant in the sidecar' % (ctx().label, n))
            return items
        return it

    def while_tick(self, n):
        c = self.loop_counts.get(n, 0) + 1
        self.loop_counts[n] = c
        if c > 64:
            raise OutOfSubset('%s: while loop #%d without invariant exceeded 64 concrete iterations'
                              % (ctx().label, n))

    def _inv(self, n):
        inv = self.spec.invariants.get(n)
        if inv is None:
            raise CheckerError('no invariant for loop %d' % n)
        return inv

    def _env(self, n, loc):
        env = dict(loc)
        fs = env.get('__it%d' % n)
        if isinstance(fs, ForState):
            T = fs.seq0.T
            env['__seen'] = SSeq(T, fs.seen, 'tuple')
            env['__rest'] = SSeq(T, fs.rest, 'tuple')
            env['__seq'] = fs.seq0
        env['__ghost'] = ctx().ghost
        return env

    def _eval_inv(self, n, loc):
        inv = self._inv(n)
        r = inv(self._env(n, loc))
        if isinstance(r, dict):
            return list(r.items())
        if isinstance(r, (list, tuple)):
            return [('c%d' % i, x) for i, x in enumerate(r)]
        return [('inv', r)]

    def for_begin(self, n, it):
        T = theory()
        if isinstance(it, SV):
            it = it.resolve(['VTuple', 'VList'])
        if not isinstance(it, SSeq):
            if isinstance(it, (list, tuple)):
                it = SSeq(T, T.lift_seq(it), 'tuple')
            else:
                conv = getattr(it, '__vc_seq__', None)
                if conv is None:
                    raise OutOfSubset('cut for-loop over %r' % type(it).__name__)
                it = conv()
        fs = ForState(n, SSeq(T, it.t, 'tuple'))
        fs.seen, fs.rest = T.nil, it.t
        return fs

    def loop_entry(self, n, loc):
        for tag, g in self._eval_inv(n, loc):
            ctx().check(as_bool_term(g), 'inv#%d/entry/%s' % (n, tag))

    def havoc(self, n, name, loc, assigned):
        if name not in loc:
            if assigned:
                return None     # not yet bound before the loop: stays unbound-ish (None)
            raise NameError(name)
        v = loc[name]
        keep = self.spec.loop_keep.get(n, ())
        if name in keep:
            return v
        return self._havoc_value(v, name, assigned)

    def _havoc_value(self, v, name, assigned):
        T = theory()
        c = ctx()
        from .containers import SSet, SMap, CDict
        if isinstance(v, bool) or isinstance(v, SBool):
            return SBool(c.fresh(z3.BoolSort(), name)) if assigned else v
        if isinstance(v, (int, SInt)):
            return SInt(c.fresh(z3.IntSort(), name)) if assigned else v
        if isinstance(v, (float, SReal)):
            return SReal(c.fresh(z3.RealSort(), name)) if assigned else v
        if isinstance(v, (str, SStr)):
            return SStr(c.fresh(z3.StringSort(), name)) if assigned else v
        if isinstance(v, list) or (isinstance(v, SSeq) and v.kind == 'list'):
            return SSeq(T, c.fresh(T.VL, name), 'list')
        if isinstance(v, tuple) or isinstance(v, SSeq):
            return SSeq(T, c.fresh(T.VL, name), 'tuple') if assigned else v
        if isinstance(v, SV):
            if not assigned:
                return v
            return SV(T, c.fresh(T.V, name))
        if isinstance(v, SSet):
            return v.havoc(name)
        if isinstance(v, SMap):
            return v.havoc(name)
        if v is None:
            if assigned:
                return SV(T, c.fresh(T.V, name))
            return v
        hv = getattr(v, '__vc_havoc__', None)
        if hv is not None:
            return hv(name, assigned)
        if not assigned:
            return v            # immutable / opaque concrete object merely mentioned
        if isinstance(v, ForState) or callable(v):
            return v
        raise OutOfSubset('cannot havoc local %s of type %s' % (name, type(v).__name__))

    def for_havoc(self, n, fs):
        T = theory()
        c = ctx()
        fs.seen = c.fresh(T.VL, 'seen%d' % n)
        fs.rest = c.fresh(T.VL, 'rest%d' % n)
        c.assume(fs.seq0.t == T.app(fs.seen, fs.rest))

    def loop_assume(self, n, loc):
        c = ctx()
        self.spec.loops_entered.add(n)
        # reachability probe behind the assumed invariant (vacuity guard, DESIGN 3.9).  The guard must not blame
        # the invariant for a path that was infeasible before the invariant was assumed: branch probes answer
        # `unknown` (= explore) when they run out of budget, so such paths do arrive here.
        before = c.probe()
        if before == z3.unsat:
            raise PathEnd()         # infeasible path: nothing is reachable behind it
        npc = len(c.pc)
        for tag, g in self._eval_inv(n, loc):
            c.assume(as_bool_term(g))
        if c.probe() == z3.unsat:
            if before != z3.sat:
                before = c.pc_satisfiable(npc)
            if before == z3.sat:
                raise CheckerError('%s: invariant of loop #%d is unsatisfiable in context' % (c.label, n))
            # the path condition before the invariant is unsatisfiable (or could not be shown satisfiable):
            # pc & Inv is unsat, so every obligation behind this point would hold vacuously; end the path.
            # A loop whose invariant is reachable on no path at all is reported after the exploration.
            self.spec.reached.add('inv#%d/infeasible-path' % n)
            raise PathEnd()
        self.spec.reached.add('inv#%d' % n)

    def for_has_next(self, fs):
        T = theory()
        return ctx().branch(T.is_cons(fs.rest), 'for-has-next')

    def for_next(self, fs):
        T = theory()
        x = T.hd(fs.rest)
        fs.before = fs.seen          # ghost: the prefix consumed before the current element
        self.last_for = fs
        fs.seen = z3.simplify(T.app(fs.seen, T.cons(x, T.nil)))
        fs.rest = z3.simplify(T.tl(fs.rest))
        fs.cur = x
        return T.lower(x)

    def loop_preserved(self, n, loc):
        for tag, g in self._eval_inv(n, loc):
            ctx().check(as_bool_term(g), 'inv#%d/preserved/%s' % (n, tag))
        raise PathEnd()

    def loop_exit(self, n, loc):
        pass

    # ---- misc ------------------------------------------------------------------------------
    def super_(self, clsname, obj):
        return self.spec.super_(clsname, obj)

    def local_stub(self, name, loc):
        return self.spec.local_stub(name, loc)


def _cond_elt(cond, elt, x, T):
    c = truth(cond(x))
    if not c:
        return z3.BoolVal(False), T.V.VNone
    return z3.BoolVal(True), T.lift(elt(x))


def summarize(fn, outer):
    """Explore fn() on all paths under the current path condition of `outer`; returns
    [(extra path condition list, result)].  Obligations raised inside are forwarded."""
    sub = core.Ctx(outer.label, outer.lemmas, outer.axioms_ground)
    base_pc = list(outer.pc)
    results = []
    base_counter = dict(outer.counter)

    def run():
        sub.counter = dict(base_counter)
        for c in base_pc:
            sub.pc.append(c)
            sub._feas.add(core.abstract_nonlinear(c))
        r = fn()
        results.append((sub.pc[len(base_pc):], r))
        for k, v in sub.counter.items():
            outer_counter_max[k] = max(outer_counter_max.get(k, 0), v)
        return r

    outer_counter_max = dict(base_counter)
    saved = core.CTX
    try:
        sub.explore(run)
    finally:
        core.CTX = saved
    for kind, _ in sub.path_outcomes:
        pass
    for ob in sub.obligations:
        outer.obligations.append(ob)
    outer.counter.update(outer_counter_max)
    return results


# ---- model builtins --------------------------------------------------------------------------

def _typename(T):
    return getattr(T, '__name__', str(T))


def m_isinstance(x, T):
    T = _TYPE_ALIAS.get(T, T) if not isinstance(T, (tuple, list, dict)) and _hashable(T) else T
    if isinstance(T, tuple):
        for t in T:
            if m_isinstance(x, t):
                return True
        return False
    if isinstance(T, ClassModel):
        ic = getattr(T, 'instancecheck', None)
        if ic is not None:
            return truth(ic(x))
        if isinstance(x, SV):
            if x.known_class() is not None:
                return T.name in x.T.ancestors(x.cls)
            names = [n for n in x.T.concrete_subclasses(T.name) if n in x.possible()]
            if not names:
                return False
            if x._inst and len(names) == len(x.possible()):
                return True
            r = ctx().branch(z3.Or([x.T.recog['is_C_' + n](x.t) for n in names]), 'isinstance:' + T.name)
            x.narrow(names, r)
            return r
        pyc = getattr(T, 'pyclass', None)
        if pyc is not None:
            return _b.isinstance(x, pyc)
        return False
    if isinstance(x, SV):
        k = x.known_class()
        if k is not None:
            return False
        V = x.T.V
        test = {int: z3.Or(V.is_VInt(x.t), V.is_VBool(x.t)), bool: V.is_VBool(x.t), str: V.is_VStr(x.t),
                float: V.is_VReal(x.t), list: V.is_VList(x.t), tuple: V.is_VTuple(x.t),
                type(None): V.is_VNone(x.t)}.get(T)
        if test is None:
            if T is object:
                return True
            import numbers
            if T is numbers.Number or T is complex:
                test = z3.Or(V.is_VInt(x.t), V.is_VBool(x.t), V.is_VReal(x.t))
            else:
                return False
        return ctx().branch(test, 'isinstance:' + _typename(T))
    if isinstance(x, SBool):
        return T in (bool, int, object)
    if isinstance(x, SInt):
        return T in (int, object) or _typename(T) in ('Number', 'Integral', 'Real', 'Rational', 'Complex')
    if isinstance(x, SReal):
        return T in (float, object) or _typename(T) in ('Number', 'Real', 'Complex')
    if isinstance(x, SStr):
        return T in (str, object)
    if isinstance(x, SSeq):
        return T in ((list, object) if x.kind == 'list' else (tuple, object)) or \
            _typename(T) in ('Iterable', 'Sequence', 'Collection', 'Sized')
    from .containers import CDict, SMap, SSet
    if isinstance(x, (CDict, SMap)):
        return T in (dict, object) or _typename(T) in ('Mapping', 'MutableMapping', 'Iterable')
    if isinstance(x, SSet):
        return T in (set, object)
    return _b.isinstance(x, T)


def m_len(x):
    if isinstance(x, SV):
        r = x.resolve_builtin()
        if r is x:
            m = x.dispatch(lambda cn: x.T.find_method(cn, '__len__'), '__len__')
            if m is None:
                raise TypeError('object has no len()')
            return m(x)
        x = r
    if isinstance(x, SSeq):
        return x.length()
    if isinstance(x, SStr):
        return mk_int(z3.Length(x.t))
    if hasattr(x, '__vc_len__'):
        return x.__vc_len__()
    return _b.len(x)


def m_bool(x=False):
    if isinstance(x, SBool):
        return x
    if isinstance(x, SInt):
        return mk_bool(x.t != 0)
    return truth(x)


def m_str(x=''):
    if isinstance(x, (SStr, str)):
        return x
    if isinstance(x, SV):
        r = x.resolve_builtin()
        if r is x:
            m = x.dispatch(lambda cn: x.T.find_method(cn, '__str__'), '__str__')
            if m is None:
                raise OutOfSubset('str() of model class %s has no model' % x.cls)
            return m(x)
        x = r
        if isinstance(x, (SStr, str)):
            return x
    if isinstance(x, SInt):
        return mk_str(z3.IntToStr(x.t)) if False else _int_to_str(x)
    if isinstance(x, Sym):
        raise OutOfSubset('str() of %s' % type(x).__name__)
    if hasattr(x, '__vc_str__'):
        return x.__vc_str__()
    return _b.str(x)


_ITOS = z3.Function('int2str', z3.IntSort(), z3.StringSort())


def _int_to_str(x):
    # z3's int.to.str is only defined for naturals; Python's str(int) is modelled by an injective UF
    return mk_str(_ITOS(x.t))


def m_repr(x):
    if isinstance(x, Sym):
        raise OutOfSubset('repr() of a symbolic value')
    return _b.repr(x)


def m_int(x=0, *a):
    if isinstance(x, SV):
        x = x.resolve_builtin()
    if isinstance(x, SInt) or (isinstance(x, int) and not isinstance(x, bool)):
        return x
    if isinstance(x, SBool):
        return mk_int(z3.If(x.t, 1, 0))
    if isinstance(x, SReal):
        # int() truncates toward zero
        t = x.t
        return mk_int(z3.If(t >= 0, z3.ToInt(t), -z3.ToInt(-t)))
    if isinstance(x, SStr):
        hook = getattr(theory(), 'str_to_int', None)
        if hook is None:
            raise OutOfSubset('int(str) on a symbolic string')
        return hook(x)
    if isinstance(x, Sym):
        raise TypeError('int() argument must be a string or a number')
    return _b.int(x, *a)


def m_float(x=0.0):
    if isinstance(x, SV):
        x = x.resolve_builtin()
    if isinstance(x, SReal) or isinstance(x, float):
        return x
    if isinstance(x, (SInt, SBool)):
        return SReal(z3.ToReal(as_int_term(x)))
    if isinstance(x, SStr):
        hook = getattr(theory(), 'str_to_real', None)
        if hook is None:
            raise OutOfSubset('float(str) on a symbolic string')
        return hook(x)
    if isinstance(x, Sym):
        raise TypeError('float() argument must be a string or a number')
    return _b.float(x)


def m_abs(x):
    if isinstance(x, SV):
        x = x.resolve_builtin()
    return _b.abs(x)


def m_list(x=()):
    if isinstance(x, SV):
        x = x.as_seq()
    if isinstance(x, SSeq):
        items = x.concrete_items()
        if items is not None:
            return items
        return SSeq(x.T, x.t, 'list')
    if hasattr(x, '__vc_list__'):
        return x.__vc_list__()
    return _b.list(x)


def m_tuple(x=()):
    if isinstance(x, SV):
        x = x.as_seq()
    if isinstance(x, SSeq):
        items = x.concrete_items()
        if items is not None:
            return _b.tuple(items)
        return SSeq(x.T, x.t, 'tuple')
    if hasattr(x, '__vc_list__'):
        r = x.__vc_list__()
        return m_tuple(r)
    return _b.tuple(x)


def m_sum(xs, start=0):
    if isinstance(xs, SV):
        xs = xs.as_seq()
    if isinstance(xs, SSeq):
        items = xs.concrete_items()
        if items is None:
            hook = getattr(xs.T, 'sym_sum', None)
            if hook is None:
                raise OutOfSubset('sum() over a sequence of symbolic length')
            return hook(xs) + start if not (isinstance(start, int) and start == 0) else hook(xs)
        xs = items
    r = start
    for x in xs:
        r = r + x
    return r


def m_any(xs):
    if isinstance(xs, SV):
        xs = xs.as_seq()
    if isinstance(xs, SSeq):
        items = xs.concrete_items()
        if items is None:
            return mk_bool(_anyv(xs.T)(xs.t))
        xs = items
    for x in xs:
        if truth(x):
            return True
    return False


def m_all(xs):
    if isinstance(xs, SV):
        xs = xs.as_seq()
    if isinstance(xs, SSeq):
        items = xs.concrete_items()
        if items is None:
            return mk_bool(_allv(xs.T)(xs.t))
        xs = items
    for x in xs:
        if not truth(x):
            return False
    return True


def truthy_term(T, v):
    V = T.V
    return z3.If(V.is_VBool(v), V.bval(v),
                 z3.If(V.is_VInt(v), V.ival(v) != 0,
                       z3.If(V.is_VNone(v), False,
                             z3.If(V.is_VStr(v), z3.Length(V.sval(v)) > 0,
                                   z3.If(V.is_VList(v), T.is_cons(V.litems(v)),
                                         z3.If(V.is_VTuple(v), T.is_cons(V.titems(v)),
                                               z3.If(V.is_VReal(v), V.rval(v) != 0, True)))))))


def _anyv(T):
    f = getattr(T, '_anyv', None)
    if f is None:
        f = z3.RecFunction('anyv', T.VL, z3.BoolSort())
        s = z3.Const('s!any', T.VL)
        define_rec(f, [s], z3.If(T.is_nil(s), False, z3.Or(truthy_term(T, T.hd(s)), f(T.tl(s)))))
        T._anyv = f
    return f


def _allv(T):
    f = getattr(T, '_allv', None)
    if f is None:
        f = z3.RecFunction('allv', T.VL, z3.BoolSort())
        s = z3.Const('s!all', T.VL)
        define_rec(f, [s], z3.If(T.is_nil(s), True, z3.And(truthy_term(T, T.hd(s)), f(T.tl(s)))))
        T._allv = f
    return f


def m_min(*a, **kw):
    if len(a) == 1:
        a = _b.list(m_list(a[0]))
    if any(isinstance(x, Sym) for x in a):
        r = a[0]
        for x in a[1:]:
            r = x if truth(x < r) else r
        return r
    return _b.min(*a, **kw)


def m_max(*a, **kw):
    if len(a) == 1:
        a = _b.list(m_list(a[0]))
    if any(isinstance(x, Sym) for x in a):
        r = a[0]
        for x in a[1:]:
            r = x if truth(x > r) else r
        return r
    return _b.max(*a, **kw)


def m_zip(*seqs, strict=False):
    conc = []
    for s in seqs:
        if isinstance(s, SV):
            s = s.as_seq()
        if isinstance(s, SSeq):
            items = s.concrete_items()
            if items is None:
                hook = getattr(s.T, 'sym_zip', None)
                if hook is None:
                    raise OutOfSubset('zip() over a sequence of symbolic length')
                return hook(seqs)
            s = items
        conc.append(s)
    return _b.list(_b.zip(*conc))


def m_enumerate(s, start=0):
    s = m_list(s)
    if isinstance(s, SSeq):
        raise OutOfSubset('enumerate() over a sequence of symbolic length')
    return _b.list(_b.enumerate(s, start))


def m_reversed(s):
    if isinstance(s, SV):
        s = s.as_seq()
    if isinstance(s, SSeq):
        items = s.concrete_items()
        if items is None:
            return SSeq(s.T, s.T.rev(s.t), s.kind)
        return _b.list(_b.reversed(items))
    if hasattr(s, '__vc_reversed__'):
        return s.__vc_reversed__()
    return _b.list(_b.reversed(s))


def m_sorted(s, key=None, reverse=False):
    s = m_list(s)
    if isinstance(s, SSeq):
        hook = getattr(s.T, 'sym_sorted', None)
        if hook is None:
            raise OutOfSubset('sorted() over a sequence of symbolic length')
        return hook(s, key, reverse)
    if len(s) <= 1:
        return _b.list(s)
    if any(isinstance(x, Sym) for x in s) or key is not None:
        hook = getattr(theory(), 'sym_sorted', None)
        if hook is not None:
            return hook(s, key, reverse)
        raise OutOfSubset('sorted() of symbolic values')
    return _b.sorted(s, reverse=reverse)


def m_getattr(o, name, *default):
    try:
        return getattr(o, name)
    except AttributeError:
        if default:
            return default[0]
        raise


def m_hasattr(o, name):
    try:
        getattr(o, name)
        return True
    except AttributeError:
        return False


def m_hash(x):
    if isinstance(x, SV):
        r = x.resolve_builtin()
        if r is x:
            m = x.dispatch(lambda cn: x.T.find_method(cn, '__hash__'), '__hash__')
            if m is None:
                raise OutOfSubset('hash() of model class %s has no model' % x.cls)
            return m(x)
        x = r
    hook = getattr(theory(), 'sym_hash', None)
    if hook is not None:
        return hook(x)
    if isinstance(x, Sym):
        raise OutOfSubset('hash() of a symbolic value')
    return _b.hash(x)


def m_type(x, *a):
    if a:
        return _b.type(x, *a)
    if isinstance(x, SV):
        r = x.resolve()
        if r is x:
            return x.T.classes[x.cls]
        x = r
    if isinstance(x, SBool):
        return _TYPE_ALIAS_INV[bool]
    if isinstance(x, SInt):
        return _TYPE_ALIAS_INV[int]
    if isinstance(x, SReal):
        return _TYPE_ALIAS_INV[float]
    if isinstance(x, SStr):
        return _TYPE_ALIAS_INV[str]
    if isinstance(x, SSeq):
        return _TYPE_ALIAS_INV[list if x.kind == 'list' else tuple]
    t = _b.type(x)
    return _TYPE_ALIAS_INV.get(t, t)


def m_range(*a):
    if any(isinstance(x, Sym) for x in a):
        hook = getattr(theory(), 'sym_range', None)
        if hook is None:
            raise OutOfSubset('range() with symbolic bounds')
        return hook(*a)
    return _b.range(*a)


def m_dict(*a, **kw):
    from .containers import CDict
    d = CDict()
    if a:
        d.update(a[0])
    for k, v in kw.items():
        d[k] = v
    return d


def m_set(it=()):
    from .containers import make_set
    return make_set(it)


def m_callable(x):
    return _b.callable(x)


def m_print(*a, **kw):
    return None


def m_id(x):
    if isinstance(x, Sym):
        raise OutOfSubset('id() of a symbolic value')
    return _b.id(x)


def m_round(x, *a):
    raise OutOfSubset('round()')


def m_floor(x):
    if isinstance(x, SV):
        x = x.resolve_builtin()
    if isinstance(x, (SInt, int)):
        return x
    if isinstance(x, SReal):
        return mk_int(z3.ToInt(x.t))
    import math
    return math.floor(x)


def m_gcd(a, b):
    if isinstance(a, Sym) or isinstance(b, Sym):
        hook = getattr(theory(), 'sym_gcd', None)
        if hook is None:
            raise OutOfSubset('gcd of symbolic values')
        return hook(a, b)
    import math
    return math.gcd(a, b)


def _hashable(x):
    try:
        hash(x)
        return True
    except TypeError:
        return False


# inside extracted code the names str/int/... are bound to the model functions; as *types* they mean the builtin
_TYPE_ALIAS = {m_str: str, m_int: int, m_float: float, m_list: list, m_tuple: tuple, m_dict: dict, m_bool: bool,
               m_set: set}
_TYPE_ALIAS_INV = {v: k for k, v in _TYPE_ALIAS.items()}

MODEL_BUILTINS = {
    'isinstance': m_isinstance, 'len': m_len, 'bool': m_bool, 'str': m_str, 'int': m_int, 'float': m_float,
    'abs': m_abs, 'list': m_list, 'tuple': m_tuple, 'sum': m_sum, 'any': m_any, 'all': m_all, 'min': m_min,
    'max': m_max, 'zip': m_zip, 'enumerate': m_enumerate, 'reversed': m_reversed, 'sorted': m_sorted,
    'getattr': m_getattr, 'hasattr': m_hasattr, 'hash': m_hash, 'type': m_type, 'range': m_range,
    'dict': m_dict, 'set': m_set, 'print': m_print, 'id': m_id, 'repr': m_repr, 'callable': m_callable,
    'round': m_round,
}

# names that stay the real builtin (exceptions, constants, harmless helpers)
for _n in ('ValueError', 'TypeError', 'KeyError', 'IndexError', 'AttributeError', 'RuntimeError',
           'NotImplementedError', 'StopIteration', 'AssertionError', 'Exception', 'NotImplemented',
           'ZeroDivisionError', 'OSError', 'FileNotFoundError', 'slice', 'object', 'property', 'staticmethod',
           'classmethod', 'True', 'False', 'None', 'iter', 'next', 'map', 'filter', 'issubclass', 'frozenset',
           'NameError', 'LookupError', 'ArithmeticError', 'OverflowError', 'UnicodeError', 'Warning',
           'DeprecationWarning', 'vars', 'divmod', 'chr', 'ord', 'super', 'bytes', 'complex', 'setattr', 'delattr'):
    if hasattr(_b, _n):
        MODEL_BUILTINS.setdefault(_n, getattr(_b, _n))
