"""Replay driver for C03 (run under /venv/bin/python against the real loki): a routine with unusually formatted statements
of many node kinds is parsed, only the enclosing Section / Subroutine sources are invalidated (children=True, as a local
edit elsewhere would do), and the conservative back end must still emit every untouched node with its original text."""
import json
import sys

SRC = """
subroutine r(n, a, p)
  integer, intent(in) :: n
  real, intent(inout) :: a(n)
  real, pointer :: p(:)
  integer :: i
  i   =   1
  Do   While ( i   <  n )
      a( i ) = 1.0
      i = i+1
  End   Do
  select   case ( n )
    case ( 1 )
      a(1) =  2.0
  end   select
  where ( a  >  0. )  a  =  0.
  associate ( x  =>  a )
    x(1) = 4.0
  end   associate
  nullify ( p )
  if ( n  >  3 )   return
  do   i = 1 , n
    a(i)   = a(i) + 1.
  end do
  call   f ( a ,  n )
  a(1)    =   3.0
end subroutine r
"""
KINDS = {'WhileLoop': 'Do   While ( i   <  n )', 'MultiConditional': 'select   case ( n )', 'MaskedStatement': 'where ( a  >  0. )  a  =  0.',
         'Associate': 'associate ( x  =>  a )', 'Nullify': 'nullify ( p )', 'Loop': 'do   i = 1 , n', 'CallStatement': 'call   f ( a ,  n )',
         'Assignment': 'a(1)    =   3.0', 'Conditional': 'if ( n  >  3 )   return', 'VariableDeclaration': 'real, pointer :: p(:)'}


def main():
    rec = json.load(open(sys.argv[1]))
    inp = rec.get('inputs') or {}
    from loki import Subroutine, fgen
    r = Subroutine.from_source(SRC)
    out = {'reproduced': False}
    if fgen(r, conservative=True).strip() != SRC.strip():
        out.update(reproduced=True, what='unmodified routine is not reproduced verbatim')
        print(json.dumps(out))
        return
    r.body.source.invalidate(children=True)
    r.source.invalidate(children=True)
    text = fgen(r, conservative=True)
    want = inp.get('node_class')
    missing = {k: v for k, v in KINDS.items() if v not in text}
    pick = {want: missing[want]} if want in missing else missing
    if pick:
        out.update(reproduced=True, what='still-valid nodes are regenerated instead of emitted verbatim', original_text_lost=pick)
    print(json.dumps(out))


if __name__ == '__main__':
    main()
