#!/usr/bin/env python
"""C04 native harness (run under /venv/bin/python with PYTHONPATH=<repo>): the real JoinableStringList on concrete texts.
Sweeps widths, continuation markers, separators and item lists (words of 1..7 letters, items of 1..3 blank-separated words,
one nested list) and checks the two clauses of the property on str(JoinableStringList(...)): every physical line is at most
`width` long unless it is the continuation marker plus one unbreakable word, and removing the continuation markers gives back
sep.join(items).  Bounded stand-in and replay of contracts/C04.py (whose counterexamples are lengths); never counted as proved.

usage: replay/C04.py --corpus | replay/C04.py <replay.json>"""
import itertools
import json
import sys


def check(items, sep, width, cont, start=''):
    from loki.tools.strings import JoinableStringList
    jl = JoinableStringList(items, sep=sep, width=width, cont=cont)
    text = start + str(jl) if not start else jl._to_str(line=start)[0]
    c0, c1 = jl.cont            # as normalised by __init__ (indentation dropped when both parts do not fit on a line)
    flat = sep.join(str(JoinableStringList(i.items, sep=i.sep, width=10**6, cont=cont)) if isinstance(i, JoinableStringList) else i
                    for i in items)
    want = (start + flat)
    lines = text.split('\n')
    problems = []
    for k, l in enumerate(lines):
        body = l
        if k > 0 and body.startswith(c1):
            body = body[len(c1):]
        if k + 1 < len(lines) and body.endswith(c0.rstrip('\n')):
            body = body[:len(body) - len(c0.rstrip('\n'))]
        import re as _re
        body = _re.sub(r'''(?:'.*?')|(?:".*?")''', 'Q', body)      # a character literal is one unbreakable piece
        if len(l) > width and (' ' in body.strip() or ')' in body.strip()[:-1]):
            problems.append('line %d is %d long (width %d) and holds more than one unbreakable piece: %r' % (k, len(l), width, l))
    joined = ''
    for k, l in enumerate(lines):
        if k > 0 and l.startswith(c1):
            l = l[len(c1):]
        if k + 1 < len(lines) and l.endswith(c0.rstrip('\n')):
            l = l[:len(l) - len(c0.rstrip('\n'))]
        joined += l
    # a character literal is one token: it must survive intact on one physical line
    import re
    for lit in re.findall(r'''(?:'.*?')|(?:".*?")''', want):
        if not any(lit in l for l in lines):
            problems.append('character literal %s is broken across lines: %r' % (lit, text))
    if joined.replace(' ', '') != want.replace(' ', ''):
        problems.append('content changed: %r -> %r' % (want, joined))
    return problems


def corpus():
    from loki.tools.strings import JoinableStringList
    words = ['a', 'bcd', 'efghi', 'jklmnop', 'f(x)', 'q%r(1)']
    cases, bad = 0, []
    for width in (8, 10, 13, 20):
        for cont in (('&\n', '&'), (' &\n', '   & ')):
            for sep in (', ', ' + '):
                pools = [w for w in words] + ['a bcd', 'efghi jklmnop a', 'f(x) bcd', '"it\'s a b"', "'say \"x y\" z'"]
                for n in (1, 2, 3):
                    for items in itertools.product(pools, repeat=n):
                        for start in ('', 'xy = '):
                            cases += 1
                            try:
                                p = check(list(items), sep, width, cont, start)
                            except Exception as e:      # pylint: disable=broad-except
                                p = ['%s: %s' % (type(e).__name__, e)]
                            if p:
                                bad.append({'items': list(items), 'sep': sep, 'width': width, 'cont': list(cont), 'start': start,
                                            'problems': p[:2]})
                                if len(bad) > 5:
                                    return cases, bad
                # one nested list
                inner = JoinableStringList(['bcd', 'efghi', 'a'], sep=', ', width=width, cont=cont)
                for outer in (['call f(', inner, ')'], ['x', inner]):
                    cases += 1
                    try:
                        p = check(outer, '', width, cont)
                    except Exception as e:      # pylint: disable=broad-except
                        p = ['%s: %s' % (type(e).__name__, e)]
                    if p:
                        bad.append({'items': [str(o) for o in outer], 'nested': True, 'width': width, 'cont': list(cont), 'problems': p[:2]})
    return cases, bad


def main():
    cases, bad = corpus()
    print(json.dumps({'cases': cases, 'violation': bool(bad), 'reproduced': bool(bad), 'n_violations': len(bad),
                      'cex': bad[0] if bad else None, 'observed': bad[:2] or 'both clauses hold on every case'}))


if __name__ == '__main__':
    sys.exit(main())
