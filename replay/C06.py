"""Replay driver for C06 (run under /venv/bin/python against the real loki).

The refuted obligation names a node class and the classes of its two children.  The driver builds real expression
trees of that shape (and a pool of related shapes) over integer variables, prints them with str() (LokiStringifyMapper),
fgen (FCodeMapper) and cgen (CCodeMapper), re-parses the printed text with an independent evaluator of the Fortran
expression grammar (** right-associative, * / left-associative with truncating division, sign at the additive level)
and compares the value with the direct evaluation of the tree for several valuations."""
import itertools
import json
import re
import sys

TOK = re.compile(r'\s*(\*\*|[-+*/()]|[A-Za-z_]\w*|\d+)')


def tdiv(a, b):
    q = abs(a) // abs(b)
    return q if (a >= 0) == (b > 0) else -q


class P:
    def __init__(self, text, env):
        self.t = TOK.findall(text)
        if ''.join(self.t) != text.replace(' ', ''):
            raise ValueError('cannot tokenise %r' % text)
        self.i, self.env = 0, env

    def peek(self):
        return self.t[self.i] if self.i < len(self.t) else None

    def primary(self):
        t = self.peek()
        self.i += 1
        if t == '(':
            v = self.expr(0)
            assert self.peek() == ')'
            self.i += 1
            return v
        if t == '-':
            return -self.expr(12)
        if t == '+':
            return self.expr(12)
        return self.env[t] if t in self.env else int(t)

    def expr(self, m):
        lhs = self.primary()
        prec = {'+': 11, '-': 11, '*': 12, '/': 12, '**': 14}
        while self.peek() in prec and prec[self.peek()] >= m:
            op = self.peek()
            self.i += 1
            if op == '**':
                rhs = self.expr(14)
                lhs = lhs ** rhs if rhs >= 0 else 0
            else:
                rhs = self.expr(prec[op] + 1)
                lhs = {'+': lambda a, b: a + b, '-': lambda a, b: a - b, '*': lambda a, b: a * b, '/': tdiv}[op](lhs, rhs)
        return lhs


def value(e, env):
    from loki.expression import symbols as sym, operations as ops
    import pymbolic.primitives as pmbl
    if isinstance(e, int):
        return e
    if isinstance(e, sym.IntLiteral):
        return e.value
    if isinstance(e, pmbl.Sum):
        return sum(value(c, env) for c in e.children)
    if isinstance(e, pmbl.Product):
        r = 1
        for c in e.children:
            r *= value(c, env)
        return r
    if isinstance(e, pmbl.Quotient):
        return tdiv(value(e.numerator, env), value(e.denominator, env))
    if isinstance(e, pmbl.Power):
        x = value(e.exponent, env)
        return value(e.base, env) ** x if x >= 0 else 0
    return env[str(e.name).lower()]


def build(kind, names, impure=False):
    from loki.expression import symbols as sym, operations as ops
    v = [sym.Variable(name=n) for n in names]
    return {'Leaf': lambda: v[0], 'Sum': lambda: ops.Sum((v[0], v[1])), 'Product': lambda: ops.Product((v[0], ops.Quotient(v[1], v[2]))) if impure else ops.Product((v[0], v[1])),
            'NegProduct': lambda: ops.Product((-1, v[0])), 'Quotient': lambda: ops.Quotient(v[0], v[1]),
            'Power': lambda: ops.Power(v[0], sym.IntLiteral(2)), 'ParenthesisedAdd': lambda: ops.ParenthesisedAdd((v[0], v[1])),
            'ParenthesisedMul': lambda: ops.ParenthesisedMul((v[0], v[1])), 'ParenthesisedDiv': lambda: ops.ParenthesisedDiv(v[0], v[1])}[kind]()


def main():
    rec = json.load(open(sys.argv[1]))
    inp = rec.get('inputs') or {}
    from loki.expression import operations as ops
    from loki import fgen
    from loki.backend import cgen
    node = {'map_sum': lambda a, b: ops.Sum((a, b)), 'map_product': lambda a, b: ops.Product((a, b)),
            'map_quotient': ops.Quotient, 'map_power': ops.Power,
            'map_parenthesised_add': lambda a, b: ops.ParenthesisedAdd((a, b)), 'map_parenthesised_mul': lambda a, b: ops.ParenthesisedMul((a, b)),
            'map_parenthesised_div': ops.ParenthesisedDiv, 'map_parenthesised_pow': ops.ParenthesisedPow}
    kinds = ['Leaf', 'Sum', 'Product', 'NegProduct', 'Quotient', 'Power', 'ParenthesisedAdd', 'ParenthesisedMul', 'ParenthesisedDiv']
    want = [(inp.get('function'), tuple(inp.get('children') or ()))]
    pool = want + [(m, (a, b)) for m in ([inp.get('function')] if inp.get('function') in node else list(node))
                   for a in kinds for b in kinds]
    envs = [dict(zip('abcdef', vals)) for vals in ((7, 3, 2, 5, 4, 9), (-7, 3, 2, -5, 4, 3), (13, -4, 3, 8, -3, 2), (9, 2, 4, 3, 2, 5))]
    printers = {'LokiStringifyMapper': str, 'FCodeMapper': fgen, 'CCodeMapper': cgen}
    only = inp.get('mapper')
    out = {'reproduced': False, 'cases_run': 0}
    for m, ch in pool:
        if m not in node or len(ch) != 2:
            continue
        imp = 'product' in m or 'mul' in m       # a Product factor of a product may itself contain a quotient
        e = node[m](build(ch[0], 'abc', imp), build(ch[1], 'def', imp))
        for pname, pr in printers.items():
            if only and pname != only and (m, ch) == want[0]:
                continue
            if 'pow' in m or 'Power' in ch:
                if pname == 'CCodeMapper':
                    continue
            try:
                text = pr(e)
            except Exception:       # pylint: disable=broad-except
                continue
            for env in envs:
                out['cases_run'] += 1
                try:
                    direct = value(e, env)
                    parsed = P(text, env).expr(0)
                except (ZeroDivisionError, ValueError, KeyError, AssertionError, OverflowError):
                    continue
                if direct != parsed:
                    out.update(reproduced=True, mapper=pname, node=m, children=list(ch), text=text, valuation=env,
                               value_of_tree=direct, value_of_text=parsed)
                    print(json.dumps(out, default=str))
                    return
    print(json.dumps(out, default=str))


if __name__ == '__main__':
    main()
