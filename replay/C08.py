"""Replay driver for C08 counterexamples (run under /venv/bin/python against the real loki)."""
import json
import os
import sys
sys.path.insert(0, os.path.dirname(os.path.abspath(__file__)))
from expr_replay import build, differs, names_of        # noqa: E402


def main():
    rec = json.load(open(sys.argv[1]))
    inp = rec.get('inputs') or {}
    from loki.expression import symbolic as S
    fn, mode = inp.get('function'), inp.get('mode', 'R')
    out = {'reproduced': False}
    try:
        e = build(inp['expr'])
        if fn and fn.startswith('SimplifyMapper.'):
            flags = S.Simplification(0)
            for k in inp.get('flags', []):
                flags |= getattr(S.Simplification, k)
            res = getattr(S.SimplifyMapper(flags), fn.split('.')[1])(e)
        elif fn == 'is_minus_prefix':
            res = S.is_minus_prefix(e)
            ch = getattr(e, 'children', ())
            exp = isinstance(e, S.sym.Product) and len(ch) > 0 and isinstance(ch[0], (int, float)) and \
                not isinstance(ch[0], bool) and ch[0] == -1
            print(json.dumps({'reproduced': bool(res) != bool(exp), 'observed': bool(res), 'expected': bool(exp)}))
            return
        else:
            try:
                res = getattr(S, fn)(e)
            except ValueError as ex:
                print(json.dumps({'reproduced': False, 'observed': 'ValueError: %s' % ex}))
                return
        names = names_of(e) | names_of(res)
        d = differs(e, res, mode, names)
        if fn == 'strip_minus_prefix' and d is None:
            from loki.expression import symbols as sym
            d2 = differs(sym.Product((-1, res)), e, mode, names)
            out = {'reproduced': d2 is not None, 'observed': str(res), 'witness': d2}
        else:
            out = {'reproduced': d is not None if fn != 'strip_minus_prefix' else False, 'observed': str(res),
                   'input': str(e), 'witness': d}
    except Exception as ex:        # pylint: disable=broad-except
        out = {'reproduced': None, 'error': '%s: %s' % (type(ex).__name__, ex)}
    print(json.dumps(out))


if __name__ == '__main__':
    main()
