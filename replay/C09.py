"""Replay driver for C09: runs the real symbolic_op and compares a returned bool with the comparison of the
operand values on a grid of valuations (run under /venv/bin/python)."""
import itertools
import json
import operator
import os
import sys
sys.path.insert(0, os.path.dirname(os.path.abspath(__file__)))
from expr_replay import build, ev, names_of, var, ZeroDiv        # noqa: E402


def check(e1, opname, e2):
    from loki.expression.symbolic import symbolic_op
    op = getattr(operator, opname)
    try:
        b = symbolic_op(e1, op, e2)
    except TypeError as ex:
        return None, 'TypeError: %s' % ex
    if not isinstance(b, bool):
        return None, 'returned %r' % (b,)
    names = sorted(names_of(e1) | names_of(e2))[:3]
    for vals in itertools.product([-3, -1, 0, 2, 5], repeat=len(names)):
        env = dict(zip(names, vals))
        try:
            t = op(ev(e1, dict(env), 'Z'), ev(e2, dict(env), 'Z'))
        except (ZeroDiv, ValueError, OverflowError):
            continue
        if t != b:
            return {'returned': b, 'env': env, 'truth': t}, None
    return None, 'returned %s, consistent on the grid' % b


def main():
    rec = json.load(open(sys.argv[1]))
    inp = rec['inputs']
    out = {'reproduced': False}
    try:
        w, note = check(build(inp['expr1']), inp['op'], build(inp['expr2']))
        if w is None:
            # the solver's candidate relies on the abstract contract of simplify; try the canonical witness
            from loki.expression import symbols as sym
            n, m = var('n'), var('m')
            one = sym.IntLiteral(1)
            pool = [n, m, sym.IntLiteral(0), one, sym.IntLiteral(2), sym.Sum((n, one)), sym.Sum((n, sym.Product((-1, n)), one)),
                    sym.Product((2, n)), sym.Sum((n, sym.Product((-1, one)))), sym.Product((-1, n))]
            w2, note2, wit = None, None, None
            for a in pool:
                for b in pool:
                    w2, note2 = check(a, inp['op'], b)
                    if w2 is not None:
                        wit = 'symbolic_op(%s, %s, %s)' % (a, inp['op'], b)
                        break
                if w2 is not None:
                    break
            out = {'reproduced': w2 is not None, 'observed': w2 or note2, 'candidate': note,
                   'witness_input': wit or 'none in the 10x10 pool'}
        else:
            out = {'reproduced': True, 'observed': w}
    except Exception as ex:        # pylint: disable=broad-except
        out = {'reproduced': None, 'error': '%s: %s' % (type(ex).__name__, ex)}
    print(json.dumps(out))


if __name__ == '__main__':
    main()
