"""Replay driver for C10 counterexamples: runs the real loki helper on the concrete input and compares with
the Fortran DO-loop semantics computed by the reference loop of F2018 11.1.7.4.1 (run under /venv/bin/python)."""
import json
import sys


def do_seq(a, b, s):
    def trunc_div(x, y):
        q = abs(x) // abs(y)
        return q if (x >= 0) == (y > 0) else -q
    n = max(0, trunc_div(b - a + s, s))
    return [a + k * s for k in range(n)]


def main():
    rec = json.load(open(sys.argv[1]))
    inp = rec['inputs']
    from loki.expression import symbols as sym
    from loki.expression.symbolic import get_pyrange
    out = {'reproduced': False}
    if inp['function'] == 'get_pyrange':
        a, b, s = inp['start'], inp['stop'], inp['step']
        ch = (sym.IntLiteral(a), sym.IntLiteral(b)) + ((sym.IntLiteral(s),) if s is not None else ())
        got = list(get_pyrange(sym.LoopRange(ch)))
        exp = do_seq(a, b, 1 if s is None else s)
        out = {'reproduced': got != exp, 'observed': got[:20], 'expected': exp[:20]}
    print(json.dumps(out))


if __name__ == '__main__':
    main()
