"""Replay driver for C11 (run under /venv/bin/python against the real loki).

A refuted pair obligation is abstract (text-equal but hash differs ...), so the concrete witness is searched by a
bounded native enumeration: a pool of real expression nodes (symbols in two spellings, arrays, literals with kinds given
as None / str in two spellings / a variable, operations, calls with string arguments in two spellings, ranges ...) is
built, restricted to the refuted class pair when it has instances of both, and every ordered pair is checked for
symmetry of ==, hash consistency and (for same-class symbols) case-insensitivity.  The documented `1:n == n` shortcut
is skipped."""
import itertools
import json
import sys


def pool():
    import loki.expression as sym
    from loki.expression import operations as ops
    from loki.types import BasicType, SymbolAttributes
    real = SymbolAttributes(BasicType.REAL)
    out = []
    names = ['a', 'A', 'b', 'jprb', 'JPRB']
    scal = {n: sym.Variable(name=n, type=real) for n in names}
    out += list(scal.values())
    out += [sym.Variable(name=n) for n in ('a', 'A')]                                   # DeferredTypeSymbol
    out += [sym.Variable(name=n, type=real, dimensions=(scal['b'],)) for n in ('a', 'A')]  # Array
    out += [sym.ProcedureSymbol(n, scope=None) for n in ('f', 'F')]
    for kind in (None, 'jprb', 'JPRB', scal['jprb'], scal['JPRB']):
        out.append(sym.FloatLiteral('1.0', kind=kind))
        out.append(sym.IntLiteral(1, kind=kind))
    out += [sym.IntLiteral(2), sym.FloatLiteral('2.0'), sym.LogicLiteral(True), sym.LogicLiteral(False),
            sym.StringLiteral('abc'), sym.StringLiteral('ABC'), sym.IntrinsicLiteral('x'), sym.IntrinsicLiteral('X')]
    for x, y in ((scal['a'], scal['b']), (scal['A'], scal['b'])):
        out += [ops.Sum((x, y)), ops.Product((x, y)), ops.Quotient(x, y), ops.Power(x, y), ops.ParenthesisedAdd((x, y)),
                ops.ParenthesisedMul((x, y)), ops.ParenthesisedDiv(x, y), ops.ParenthesisedPow(x, y),
                ops.Comparison(x, '<', y), ops.LogicalAnd((x, y)), ops.LogicalOr((x, y)), ops.LogicalNot(x),
                ops.StringConcat((x, y)), ops.Cast('real', x), ops.Reference(x), ops.Dereference(x),
                sym.Range((x, y)), sym.RangeIndex((x, y)), sym.LoopRange((x, y)), sym.LiteralList((x, y)),
                sym.InlineCall(sym.ProcedureSymbol('f', scope=None), (x,))]
    out += [ops.Sum((ops.ParenthesisedAdd((scal['a'], scal['b'])),)),
            sym.InlineCall(sym.ProcedureSymbol('f', scope=None), (sym.StringLiteral('abc'),)),
            sym.InlineCall(sym.ProcedureSymbol('f', scope=None), (sym.StringLiteral('ABC'),)),
            sym.InlineCall(sym.ProcedureSymbol('F', scope=None), (sym.StringLiteral('abc'),))]
    return out


def is_shortcut(x):
    import loki.expression as sym
    return isinstance(x, sym.Range) and x.children[0] == 1 and x.children[2] is None


def check(nodes, only=None):
    for a, b in itertools.product(nodes, nodes):
        if a is b or is_shortcut(a) or is_shortcut(b):
            continue
        if only and not ({type(a).__name__, type(b).__name__} <= only):
            continue
        ab, ba = bool(a == b), bool(b == a)
        if ab != ba:
            return {'what': 'asymmetric ==', 'a': repr(a), 'b': repr(b), 'a==b': ab, 'b==a': ba}
        if ab and hash(a) != hash(b):
            return {'what': 'equal nodes with different hashes', 'a': repr(a), 'b': repr(b)}
        if type(a) is type(b) and not ab:
            lit = hasattr(a, 'kind')
            if lit:
                ka, kb = a.kind, b.kind
                same = a.value == b.value and (ka is None) == (kb is None) and str(ka).lower() == str(kb).lower()
            else:
                same = not hasattr(a, 'value') and str(a).lower() == str(b).lower()
            if same:
                return {'what': 'differ only in letter case but compare unequal', 'a': repr(a), 'b': repr(b)}
    return None


def main():
    rec = json.load(open(sys.argv[1]))
    inp = rec.get('inputs') or {}
    nodes = pool()
    only = {inp.get('A'), inp.get('B')} - {None}
    have = {type(n).__name__ for n in nodes}
    bad = check(nodes, only if only and only <= have else None)
    out = {'reproduced': bad is not None, 'pool': len(nodes)}
    if bad:
        out['witness'] = bad
    print(json.dumps(out, default=str))


if __name__ == '__main__':
    main()
