"""Replay driver for C12 counterexamples: performs the operation on the real class and on a plain dict keyed by
the folded name; reports whether they disagree (run under /venv/bin/python against the real loki)."""
import json
import sys


def fold(cls, k):
    k = k.lower()
    if cls == 'SymbolTable':
        k = k.partition('(')[0]
    return k


def replay_scope(inp):
    """Scope.update / declare / get_type / get_symbol_scope on a real chain of two or three scopes: the operation must
    consult and change only what a mapping keyed by the folded name would (counterexamples of the deductive specs are
    abstract; the driver tries the concrete situations they stand for)"""
    from loki import Scope, SymbolAttributes, BasicType
    meth = inp['method']
    bad = []
    for here in (True, False):
        for outer_has in (True, False):
            for spelling in ('N', 'n'):
                outer = Scope()
                inner = Scope(parent=outer)
                if outer_has:
                    outer.symbol_attrs['n'] = SymbolAttributes(BasicType.INTEGER, kind='outer', intent='in')
                if here:
                    inner.symbol_attrs['n'] = SymbolAttributes(BasicType.REAL, kind='inner')
                case = {'declared_here': here, 'declared_in_enclosing_scope': outer_has, 'spelling': spelling}
                try:
                    if meth == 'update':
                        for fail in (True, False):
                            i2 = inner.clone(parent=outer) if False else inner
                            before_outer = outer.symbol_attrs.get('n')
                            try:
                                inner.update(spelling, fail=fail, shape=(1,))
                                raised = False
                            except ValueError:
                                raised = True
                            if raised != (fail and not here):
                                bad.append(dict(case, fail=fail, what='ValueError raised: %s' % raised))
                            if not raised:
                                e = inner.symbol_attrs['n']
                                if here and e.kind != 'inner':
                                    bad.append(dict(case, fail=fail, what='local entry replaced by %r' % (e,)))
                                if not here and (getattr(e, 'kind', None) is not None or getattr(e, 'intent', None) is not None):
                                    bad.append(dict(case, fail=fail, what='new entry inherits from the enclosing scope: %r' % (e,)))
                            if outer.symbol_attrs.get('n') != before_outer:
                                bad.append(dict(case, fail=fail, what='enclosing scope written'))
                            if not here and 'n' in inner.symbol_attrs:
                                del inner.symbol_attrs['n']
                    elif meth == 'declare':
                        for fail in (True, False):
                            try:
                                inner.declare(spelling, BasicType.LOGICAL, fail=fail)
                                raised = False
                            except ValueError:
                                raised = True
                            if raised != (fail and here):
                                bad.append(dict(case, fail=fail, what='ValueError raised: %s' % raised))
                            if not raised and inner.symbol_attrs['n'].dtype != BasicType.LOGICAL:
                                bad.append(dict(case, fail=fail, what='entry is not the new declaration'))
                            if not here and 'n' in inner.symbol_attrs:
                                del inner.symbol_attrs['n']
                            elif here:
                                inner.symbol_attrs['n'] = SymbolAttributes(BasicType.REAL, kind='inner')
                    elif meth == 'get_type':
                        for recursive in (True, False):
                            t = inner.get_type(spelling, recursive=recursive, fail=False)
                            exp = 'inner' if here else ('outer' if (recursive and outer_has) else None)
                            if (None if t is None else t.kind) != exp:
                                bad.append(dict(case, recursive=recursive, what='got %r, expected the %s declaration' % (t, exp)))
                    elif meth == 'get_symbol_scope':
                        s = inner.get_symbol_scope(spelling)
                        exp = inner if here else (outer if outer_has else None)
                        if s is not exp:
                            bad.append(dict(case, what='wrong scope'))
                except Exception as e:  # pylint: disable=broad-except
                    bad.append(dict(case, what='%s: %s' % (type(e).__name__, e)))
    print(json.dumps({'reproduced': bool(bad), 'observed': bad[:3], 'expected': 'mapping keyed by the folded name'}))


def main():
    rec = json.load(open(sys.argv[1]))
    inp = rec['inputs']
    from loki.tools.util import CaseInsensitiveDict, CaseInsensitiveDefaultDict
    from loki import SymbolTable, SymbolAttributes, BasicType
    if inp.get('class') == 'Scope':
        return replay_scope(inp)
    cls, meth, key = inp['class'], inp['method'], inp['key']
    if meth in ('lookup', '_lookup_formatted_name'):
        # chain: this table -> parent (possibly empty) -> grand-parent (declares the name or not)
        key = key or 'x'
        kf = fold(cls, key)
        outer = SymbolTable()
        middle = SymbolTable(parent=outer) if inp.get('has_parent') else None
        inner = SymbolTable(parent=middle)
        if inp.get('ancestor_declares') and middle is not None:
            outer[kf] = SymbolAttributes(BasicType.INTEGER, tag=2)
            if not inp.get('parent_empty'):
                middle['zz_other'] = SymbolAttributes(BasicType.REAL, tag=9)
        elif middle is not None and not inp.get('parent_empty'):
            middle['zz_other'] = SymbolAttributes(BasicType.REAL, tag=9)
        if inp.get('here'):
            inner[kf] = SymbolAttributes(BasicType.INTEGER, tag=1)
        rec = bool(inp.get('recursive'))
        got = inner.lookup(key, recursive=rec) if meth == 'lookup' else inner._lookup_formatted_name(kf, rec)
        exp = 1 if inp.get('here') else (2 if (rec and inp.get('ancestor_declares') and middle is not None) else None)
        obs = None if got is None else got.tag
        print(json.dumps({'reproduced': obs != exp, 'observed': obs, 'expected': exp}))
        return
    is_st = cls == 'SymbolTable'
    mk = {'CaseInsensitiveDict': CaseInsensitiveDict, 'CaseInsensitiveDefaultDict': lambda *a: CaseInsensitiveDefaultDict(None, *a),
          'SymbolTable': SymbolTable}[cls]
    val = (lambda i: SymbolAttributes(BasicType.INTEGER, tag=i)) if is_st else (lambda i: i)
    same = (lambda a, b: (a is None) == (b is None) and (a is None or a.tag == b.tag)) if is_st else (lambda a, b: a == b)
    kf = fold(cls, key)
    real, ref = mk(), {}
    if inp.get('member_folded'):
        real[kf] = val(1)
        ref[kf] = val(1)
    other_key = 'zz_other'
    real[other_key] = val(7)
    ref[other_key] = val(7)

    def run(obj, k, is_ref):
        try:
            if meth == '__getitem__':
                return ('ret', obj[k])
            if meth == '__contains__':
                return ('ret', k in obj)
            if meth == '__delitem__':
                del obj[k]
                return ('ret', None)
            if meth == 'get':
                return ('ret', obj.get(k, val(5)) if inp.get('with_default') else obj.get(k))
            if meth == 'pop':
                return ('ret', obj.pop(k, val(5)) if inp.get('with_default') else obj.pop(k))
            if meth == '__setitem__':
                obj[k] = val(3)
                return ('ret', None)
            if meth == 'setdefault':
                r = obj.setdefault(k, val(3))
                return ('ret', None if is_st else r)
            if meth == 'update':
                obj.update({k: val(3)})
                return ('ret', None)
            if meth == '__init__':
                return ('ret', None)
        except KeyError:
            return ('KeyError', None)
    if meth == '__init__':
        real = mk({key: val(3)}) if not is_st else real
        ref = {kf: val(3)}
        a = b = ('ret', None)
    else:
        a = run(real, key, False)
        b = run(ref, kf, True)
    keys_real = sorted(real.keys())
    keys_ref = sorted(ref.keys())
    differ = a[0] != b[0] or keys_real != keys_ref
    if not differ and a[0] == 'ret':
        ra, rb = a[1], b[1]
        if isinstance(ra, bool) or isinstance(rb, bool) or ra is None or rb is None or not is_st:
            differ = (ra != rb) if not is_st or isinstance(ra, bool) or ra is None or rb is None else differ
        else:
            differ = not same(ra, rb)
    if not differ:
        for k in keys_ref:
            if not same(real[k] if not is_st else real.get(k), ref[k]):
                differ = True
    print(json.dumps({'reproduced': bool(differ), 'observed': [a[0], str(a[1]), keys_real],
                      'expected': [b[0], str(b[1]), keys_ref]}))


if __name__ == '__main__':
    main()
