"""Replay driver for C13 (run under /venv/bin/python against the real loki): the decoded case and a small grid around
it are run through the real Variable factory / TypedSymbol and compared with the decision table of the property."""
import json
import sys


def main():
    rec = json.load(open(sys.argv[1]))
    inp = rec.get('inputs') or {}
    from loki import Scope
    from loki.expression import symbols as sym
    from loki.types import BasicType, DerivedType, ProcedureType, SymbolAttributes
    out = {'reproduced': False, 'cases_run': 0}
    fn = inp.get('function', '')
    names = [inp.get('name') or 'x', 'Foo', 'foo', 'FOO']

    def mk(kind, name):
        if kind is None or kind == 'passed-none':
            return None
        if kind == 'proc':
            return SymbolAttributes(ProcedureType(name))
        if kind == 'derived':
            return SymbolAttributes(DerivedType('foo'))
        if kind == 'deferred':
            return SymbolAttributes(BasicType.DEFERRED)
        if kind == 'shaped':
            return SymbolAttributes(BasicType.REAL, shape=(sym.IntLiteral(3),))
        return SymbolAttributes(BasicType.REAL)

    def expected(name, eff, dims):
        if eff is not None and isinstance(eff.dtype, ProcedureType):
            return sym.ProcedureSymbol
        if eff is not None and isinstance(eff.dtype, DerivedType) and name.lower() == eff.dtype.name.lower():
            return sym.DerivedTypeSymbol
        if dims is not None or (eff is not None and eff.shape):
            return sym.Array
        if eff is not None and eff.dtype != BasicType.DEFERRED:
            return sym.Scalar
        return sym.DeferredTypeSymbol
    if fn == 'Variable.__new__':
        kinds = [None, 'proc', 'derived', 'basic', 'deferred', 'shaped']
        for name in names:
            for tk in kinds:
                for sk in ['noscope'] + kinds:
                    for dims in (None, (sym.IntLiteral(1),)):
                        out['cases_run'] += 1
                        scope = None if sk == 'noscope' else Scope()
                        if scope is not None and mk(sk, name) is not None:
                            scope.symbol_attrs[name] = mk(sk, name)
                        t = mk(tk, name)
                        eff = t if t is not None else (scope.symbol_attrs.lookup(name) if scope is not None else None)
                        kw = dict(name=name)
                        if scope is not None:
                            kw['scope'] = scope
                        if t is not None:
                            kw['type'] = t
                        if dims is not None:
                            kw['dimensions'] = dims
                        try:
                            v = sym.Variable(**kw)
                        except Exception as e:      # pylint: disable=broad-except
                            out.update(reproduced=True, case=dict(name=name, type=tk, scope=sk, dims=dims is not None),
                                       observed='%s: %s' % (type(e).__name__, e))
                            print(json.dumps(out, default=str))
                            return
                        want = expected(name, eff, dims)
                        if type(v) is not want:
                            out.update(reproduced=True, case=dict(name=name, type=tk, scope=sk, dims=dims is not None),
                                       observed=type(v).__name__, expected=want.__name__)
                            print(json.dumps(out, default=str))
                            return
    else:
        for stored in (None, 'deferred', 'basic'):
            scope, other = Scope(), Scope()
            if stored:
                scope.symbol_attrs['x'] = mk(stored, 'x')
            a, b = sym.Variable(name='x', scope=scope), sym.Variable(name='X', scope=scope)
            c = sym.Variable(name='x', type=SymbolAttributes(BasicType.INTEGER))
            new = SymbolAttributes(BasicType.LOGICAL)
            a.type = new
            out['cases_run'] += 1
            if not (b.type.dtype == BasicType.LOGICAL and c.type.dtype == BasicType.INTEGER):
                out.update(reproduced=True, case='type update with %s entry' % stored, observed=[str(b.type), str(c.type)])
                break
            before = scope.symbol_attrs.lookup('x')
            d = c.rescope(scope)
            if scope.symbol_attrs.lookup('x').dtype != before.dtype or d.type.dtype != before.dtype:
                out.update(reproduced=True, case='rescope onto existing entry', observed=str(scope.symbol_attrs.lookup('x')))
                break
    print(json.dumps(out, default=str))


if __name__ == '__main__':
    main()
