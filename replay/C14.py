"""Replay driver / bounded check for C14 (run under /venv/bin/python against the real loki).

--bounded : the real Transformer._inject_tuple_mapping on all tuples of length <= 4 over three nodes and all mappers
            from a pool of handles (empty, one, two, containing the key itself, containing another key), compared with
            the splice specification (keys in mapper order; every occurrence replaced; inserted elements of the same
            key are not expanded again).
<file>    : native witnesses on a real IR tree: remove / replace / one-to-many mappings applied with Transformer, the
            result compared by its generated code, the original tree compared with its code before the call."""
import itertools
import json
import sys


def splice_spec(o, mapper):
    o = tuple(o)
    for k, handle in mapper.items():
        if isinstance(handle, (tuple, list)) and k in o:
            out = []
            for x in o:
                out.extend(handle if x == k else (x,))
            o = tuple(out)
    return o


def bounded():
    from loki.ir import Transformer
    nodes = (1, 2, 3)
    handles = {1: [(), (7,), (7, 8), (1, 7), (7, 1), (2, 7)], 2: [(), (9,), (2, 9), (1,)]}
    cases = bad = 0
    first = None
    for n in range(0, 5):
        for o in itertools.product(nodes, repeat=n):
            for h1 in [None] + handles[1]:
                for h2 in [None] + handles[2]:
                    mapper = {}
                    if h1 is not None:
                        mapper[1] = h1
                    if h2 is not None:
                        mapper[2] = h2
                    if not mapper:
                        continue
                    cases += 1
                    t = Transformer(mapper)
                    try:
                        got = tuple(t._inject_tuple_mapping(tuple(o)))
                    except Exception as e:      # pylint: disable=broad-except
                        got = 'exception %s' % type(e).__name__
                    want = splice_spec(o, mapper)
                    if got != want:
                        bad += 1
                        first = first or {'tuple': o, 'mapper': {str(k): v for k, v in mapper.items()},
                                          'observed': got, 'expected': want}
    rule = ('all tuples of length <= 4 over 3 nodes x mappers {1: handle, 2: handle} from a pool of 6 x 4 handles '
            '(empty, one, two, with the key itself, with the other key)')
    return [{'name': 'bounded/Transformer._inject_tuple_mapping', 'cases': cases, 'distinct': cases, 'rule': rule,
             'bound': 'length <= 4', 'violation': bool(bad), 'cex': first, 'n_violations': bad}]


SRC = """
subroutine r(n, a, b)
  integer, intent(in) :: n
  real, intent(inout) :: a(n), b(n)
  integer :: i
  a(1) = 1.0
  do i = 1, n
    b(i) = a(i)
    a(i) = 2.0
  end do
  associate (x => a)
    x(1) = 3.0
    b(1) = x(2)
  end associate
  b(2) = 4.0
end subroutine r
"""


def witnesses():
    from loki import Subroutine, FindNodes, fgen
    from loki.ir import nodes as ir, Transformer
    res = []
    for what in ('remove', 'replace', 'one-to-many', 'one-to-many-with-self'):
        r = Subroutine.from_source(SRC)
        before = fgen(r.body)
        assigns = FindNodes(ir.Assignment).visit(r.body)
        tgt, donor = assigns[3], assigns[0]       # x(1) = 3.0 inside the associate; a(1) = 1.0
        lines = before.splitlines()
        t_line, d_line = fgen(tgt).strip(), fgen(donor).strip()
        if what == 'remove':
            mapper, expect = {tgt: None}, [l for l in lines if l.strip() != t_line]
        elif what == 'replace':
            mapper, expect = {tgt: donor}, [l.replace(t_line, d_line) if l.strip() == t_line else l for l in lines]
        elif what == 'one-to-many':
            mapper = {tgt: (donor, donor)}
            expect = []
            for l in lines:
                expect += [l.replace(t_line, d_line)] * 2 if l.strip() == t_line else [l]
        else:
            mapper = {tgt: (donor, tgt)}
            expect = []
            for l in lines:
                expect += [l.replace(t_line, d_line), l] if l.strip() == t_line else [l]
        new = Transformer(mapper).visit(r.body)
        after_orig = fgen(r.body)
        got = fgen(new).splitlines()
        norm = lambda ls: [x.strip().lower() for x in ls if x.strip()]
        if norm(got) != norm(expect):
            res.append({'what': what, 'problem': 'result differs from the requested mapping', 'observed': got, 'expected': expect})
        if after_orig != before:
            res.append({'what': what, 'problem': 'the ORIGINAL tree was changed although inplace=False',
                        'before': before.splitlines(), 'after': after_orig.splitlines()})
    return res


def main():
    if sys.argv[1] == '--bounded':
        print(json.dumps(bounded(), default=str))
        return
    rec = json.load(open(sys.argv[1]))
    fn = (rec.get('inputs') or {}).get('function', '')
    if 'inject' in fn:
        b = bounded()[0]
        print(json.dumps({'reproduced': b['violation'], 'witness': b['cex']}, default=str))
        return
    w = witnesses()
    want_frame = 'ScopedNode' in fn
    pick = [x for x in w if ('ORIGINAL' in x['problem']) == want_frame] or w
    print(json.dumps({'reproduced': bool(pick), 'witness': pick[:1]}, default=str))


if __name__ == '__main__':
    main()
