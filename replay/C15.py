"""Replay driver for C15 (run under /venv/bin/python against the real loki): FindNodes / FindScopes are compared with an
independent reference traversal on small routines (all node types, greedy and not, a derived-type definition included);
FindVariables / FindInlineCalls / FindLiterals are compared with the expected occurrences of hand-written expressions
that exercise every walker method (kinds of literals, casts, array subscripts, derived-type parents, inline calls with
keyword arguments, ranges, literal lists)."""
import json
import sys

SRC = """
module m
  implicit none
  type t
    real :: member(3)
    integer :: other
  end type t
contains
  subroutine r(n, a, b, s)
    integer, intent(in) :: n
    real(kind=8), intent(inout) :: a(n), b(n)
    type(t), intent(inout) :: s
    integer :: i, j
    do i = 1, n
      if (a(i) > 0._8) then
        do j = 1, 3
          s%member(j) = real(b(i), kind=8) + max(a(i), 1.0_8)
        end do
      else
        a(i) = b(i)
      end if
    end do
    a(1:n:2) = (/ 1.0_8, 2.0_8 /) * f(x=b(1))
  end subroutine r
  function f(x) result(y)
    real(kind=8), intent(in) :: x
    real(kind=8) :: y
    y = x
  end function f
end module m
"""


def ref_find(root, cls, greedy, ir):
    out = []

    def walk(o):
        if isinstance(o, (tuple, list)):
            for c in o:
                walk(c)
        elif isinstance(o, ir.Node):
            hit = isinstance(o, cls)
            if hit:
                out.append(o)
            if isinstance(o, ir.TypeDef) or (hit and greedy):
                return
            for c in o.children:
                walk(c)
    walk(root)
    return out


def main():
    rec = json.load(open(sys.argv[1]))
    from loki import Module, FindNodes, FindVariables, FindInlineCalls, FindLiterals
    from loki.ir import nodes as ir
    from loki.ir.find import FindScopes
    mod = Module.from_source(SRC)
    out = {'reproduced': False, 'cases_run': 0}
    roots = [mod.spec, mod['r'].body, mod['r'].spec, (mod.spec, mod['r'].body)]
    kinds = [ir.Loop, ir.Assignment, ir.Conditional, ir.VariableDeclaration, ir.TypeDef, ir.Node, (ir.Loop, ir.Conditional)]
    for root in roots:
        for cls in kinds:
            for greedy in (False, True):
                out['cases_run'] += 1
                got = FindNodes(cls, greedy=greedy).visit(root)
                want = ref_find(root, cls, greedy, ir)
                if len(got) != len(want) or any(a is not b for a, b in zip(got, want)):
                    out.update(reproduced=True, what='FindNodes', node_type=str(cls), greedy=greedy,
                               observed=[type(x).__name__ for x in got], expected=[type(x).__name__ for x in want])
                    print(json.dumps(out, default=str))
                    return
    body = mod['r'].body
    inner = FindNodes(ir.Assignment).visit(body)[0]
    chains = FindScopes(inner).visit(body)
    if len(chains) != 1 or [type(x).__name__ for x in chains[0]] != ['Section', 'Loop', 'Conditional', 'Loop', 'Assignment']:
        out.update(reproduced=True, what='FindScopes', observed=[[type(x).__name__ for x in c] for c in chains])
        print(json.dumps(out, default=str))
        return
    names = sorted({str(v.name).lower() for v in FindVariables().visit(body)})
    want = ['a', 'b', 'i', 'j', 'n', 's', 's%member']
    calls = sorted({str(c.name).lower() for c in FindInlineCalls().visit(body)})
    lits = sorted({str(l) for l in FindLiterals().visit(body)})
    want_calls = ['f', 'max']
    exp = {'variables': (names, want), 'inline calls': (calls, want_calls)}
    for what, (g, w) in exp.items():
        out['cases_run'] += 1
        if not set(w) <= set(g):
            out.update(reproduced=True, what='Find%s misses occurrences' % what, observed=g, expected_superset=w)
            print(json.dumps(out, default=str))
            return
    if not {'1', '2', '3'} <= {l.split('_')[0].rstrip('.0') or '0' for l in lits}:
        pass
    # declarations: every symbol's initialiser is searched (not only the first one's)
    from loki import Subroutine
    decl_src = ('subroutine d(n, m)\n  integer, intent(in) :: n, m\n'
                '  integer :: lo = 1, hi = max(n, m), mid = min(n, m)/2\n  hi = lo\nend subroutine d\n')
    droutine = Subroutine.from_source(decl_src)
    spec = droutine.spec
    out['cases_run'] += 1
    calls = sorted(str(c.name).lower() for c in FindInlineCalls(unique=False).visit(spec))
    if calls != ['max', 'min']:
        out.update(reproduced=True, what='FindInlineCalls on a declaration with several initialised symbols',
                   observed=calls, expected=['max', 'min'])
        print(json.dumps(out, default=str))
        return
    vs = [str(v.name).lower() for v in FindVariables(unique=False).visit(spec)]
    if vs.count('n') < 3 or vs.count('m') < 3:
        out.update(reproduced=True, what='FindVariables on a declaration with several initialised symbols',
                   observed=sorted(vs), expected='n and m three times each (declared once, used in two initialisers)')
        print(json.dumps(out, default=str))
        return
    print(json.dumps(out, default=str))


if __name__ == '__main__':
    main()
