"""Replay driver for C16 (run under /venv/bin/python against the real loki): attach and detach pragmas / pragma regions /
dataflow information on real routines (pragmas before and after loops, calls and declarations, runs of several pragmas,
nested and unmatched regions), also through the context managers with a raising body; the generated code and the
identities of the nodes must be the same afterwards."""
import json
import sys

SRC = """
subroutine r(n, a, b)
  integer, intent(in) :: n
  !$loki dimension(n)
  real, intent(inout) :: a(n)
  real, intent(inout) :: b(n)
  integer :: i
  !$loki one
  !$loki two
  !$loki three
  do i = 1, n
    a(i) = 1.0
  end do
  !$loki after-loop
  b(1) = 2.0
  !$loki data
  !$acc parallel
  do i = 1, n
    !$loki inner
    call f(a(i))
    !$loki post-call
  end do
  !$loki end data
  !$loki unmatched
  !$loki trailing
end subroutine r
"""


def main():
    json.load(open(sys.argv[1]))
    from loki import Subroutine, FindNodes, fgen
    from loki.ir import nodes as ir, attach_pragmas, detach_pragmas, pragmas_attached, pragma_regions_attached
    from loki.analyse import dataflow_analysis_attached
    out = {'reproduced': False, 'cases_run': 0}
    for node_type in (ir.Loop, ir.CallStatement, ir.VariableDeclaration, (ir.Loop, ir.CallStatement)):
        for post in (True, False):
            r = Subroutine.from_source(SRC)
            before = fgen(r)
            ids = [id(n) for n in FindNodes(ir.Node).visit(r.ir)]
            r.spec, r.body = attach_pragmas(r.spec, node_type, attach_pragma_post=post), attach_pragmas(r.body, node_type, attach_pragma_post=post)
            mid = fgen(r)
            r.spec, r.body = detach_pragmas(r.spec, node_type, detach_pragma_post=post), detach_pragmas(r.body, node_type, detach_pragma_post=post)
            after = fgen(r)
            out['cases_run'] += 1
            if after != before:
                out.update(reproduced=True, what='attach/detach changes the generated code', node_type=str(node_type), post=post,
                           before=before.splitlines(), after=after.splitlines())
                print(json.dumps(out, default=str))
                return
            if [id(n) for n in FindNodes(ir.Node).visit(r.ir)] != ids:
                out.update(reproduced=True, what='node identities changed', node_type=str(node_type), post=post)
                print(json.dumps(out, default=str))
                return
    for cm, args in ((pragmas_attached, (ir.Loop,)), (pragma_regions_attached, ()), (dataflow_analysis_attached, ())):
        for raising in (False, True):
            r = Subroutine.from_source(SRC)
            before = fgen(r)
            try:
                with cm(r, *args):
                    if raising:
                        raise KeyError('body failed')
            except KeyError:
                pass
            out['cases_run'] += 1
            if fgen(r) != before:
                out.update(reproduced=True, what='%s does not restore the unit (%s)' % (cm.__name__, 'body raised' if raising else 'normal exit'),
                           before=before.splitlines(), after=fgen(r).splitlines())
                print(json.dumps(out, default=str))
                return
    print(json.dumps(out, default=str))


if __name__ == '__main__':
    main()
