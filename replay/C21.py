#!/usr/bin/env python
"""C21 native harness (run under /venv/bin/python with PYTHONPATH=<repo>): the REAL SGraph.from_seed / _populate /
_add_children / SchedulerConfig.match_item_keys on stub items, for every dependency relation over three items x expand
flags x one block entry x four seed lists, compared with a reference closure written from the property.  Bounded - a
stand-in and the replay of the deductive obligations of contracts/C21.py, never counted as proved.

usage: replay/C21.py --corpus [--full]     prints one JSON line {cases, failures: [...]}
       replay/C21.py <replay.json>         replays (= runs the corpus; the deductive counterexamples are abstract sets)"""
import itertools
import json
import sys

NAMES = ('#a', 'm#b', 'm#c')


def build_world(deps, expand, block):
    from loki.batch.configure import SchedulerConfig

    class StubItem:
        def __init__(self, name):
            self.name = name
            self.config = {'expand': expand[name], 'block': list(block.get(name, ())), 'ignore': []}

        expand = property(lambda self: self.config['expand'])
        block = property(lambda self: self.config['block'])
        ignore = property(lambda self: self.config['ignore'])
        is_ignored = property(lambda self: self.config.get('is_ignored', False))
        local_name = property(lambda self: self.name.split('#')[-1])

        def create_dependency_items(self, item_factory, config=None, **kw):
            return tuple(item_factory.item_cache[n] for n in deps[self.name])

        def __eq__(self, other):
            return isinstance(other, StubItem) and other.name.lower() == self.name.lower()

        def __hash__(self):
            return hash(self.name.lower())

        def __repr__(self):
            return 'Item<%s>' % self.name

    class Factory:
        def __init__(self):
            self.item_cache = {n: StubItem(n) for n in NAMES}

    return Factory(), SchedulerConfig(default={}, routines={}, transformation_configs={}, pipeline_configs={})


def reference(seeds, deps, expand, block):
    """least set containing the seeds and closed under the pruned dependencies of expanded members; one edge each"""
    def blocked(parent, d):
        local = d.split('#')[-1]
        return any(k.lower() in (d.lower(), local.lower()) for k in block.get(parent, ()))
    nodes, todo = [], [s for s in seeds]
    while todo:
        n = todo.pop(0)
        if n in nodes:
            continue
        nodes.append(n)
        if expand[n]:
            todo += [d for d in deps[n] if not blocked(n, d)]
    edges = {(n, d) for n in nodes if expand[n] for d in deps[n] if not blocked(n, d) and d != n}
    return set(nodes), edges


def run_case(seeds, deps, expand, block):
    from loki.batch.sgraph import SGraph
    factory, config = build_world(deps, expand, block)
    g = SGraph.from_seed(list(seeds), factory, config)
    nodes = {i.name for i in g.items}
    edges = {(a.name, b.name) for a, b in g.dependencies}
    rn, re_ = reference(seeds, deps, expand, block)
    if nodes != rn or edges != re_:
        return {'seeds': list(seeds), 'deps': {k: list(v) for k, v in deps.items()}, 'expand': expand,
                'block': {k: list(v) for k, v in block.items()}, 'nodes': sorted(nodes), 'expected_nodes': sorted(rn),
                'edges': sorted(edges), 'expected_edges': sorted(re_)}
    return None


def corpus(full=False):
    subsets = [tuple(s) for r in range(4) for s in itertools.permutations(NAMES, r)] if full else \
              [tuple(s) for r in range(4) for s in itertools.combinations(NAMES, r)]
    seedlists = [('#a',), ('#a', 'm#b'), ('#a', '#a'), ('m#c', '#a')]
    blocks = [{}, {'#a': ('C',)}, {'#a': ('m#b',), 'm#b': ('a',)}]
    for da in subsets:
        for db in subsets:
            for dc in subsets:
                deps = {'#a': da, 'm#b': db, 'm#c': dc}
                for ex in itertools.product((True, False), repeat=3):
                    expand = dict(zip(NAMES, ex))
                    for block in blocks:
                        for seeds in seedlists:
                            yield seeds, deps, expand, block


def main(argv):
    full = '--full' in argv
    cases, failures = 0, []
    for seeds, deps, expand, block in corpus(full):
        cases += 1
        try:
            f = run_case(seeds, deps, expand, block)
        except Exception as e:  # pylint: disable=broad-except
            f = {'seeds': list(seeds), 'deps': {k: list(v) for k, v in deps.items()}, 'expand': expand,
                 'block': {k: list(v) for k, v in block.items()}, 'exception': '%s: %s' % (type(e).__name__, e)}
        if f is not None:
            failures.append(f)
            if len(failures) >= 5:
                break
    out = {'cases': cases, 'failures': failures, 'reproduced': bool(failures),
           'observed': failures[0] if failures else 'graph equals the reference closure in every case'}
    print(json.dumps(out))
    return 0


if __name__ == '__main__':
    sys.exit(main(sys.argv[1:]))
