"""Replay driver for C22: the Transformation.apply_file obligations are shared with C24 (replay/C24.py)."""
import os
import sys
sys.path.insert(0, os.path.dirname(os.path.abspath(__file__)))
import C24  # noqa: E402  pylint: disable=wrong-import-position

if __name__ == '__main__':
    C24.main()
