"""Replay driver for C23 counterexamples (run under /venv/bin/python against the real loki)."""
import json
import sys


def main():
    rec = json.load(open(sys.argv[1]))
    inp = rec['inputs']
    from loki.batch import ProcedureItem
    out = {'reproduced': False}
    if inp['function'].startswith('Item.__eq__'):
        a, b = ProcedureItem(inp['name_a'], source=None), ProcedureItem(inp['name_b'], source=None)
        eq, eq2 = (a == b), (b == a)
        ha, hb = hash(a), hash(b)
        bad = (eq != eq2) or (eq != (inp['name_a'].lower() == inp['name_b'].lower())) or (eq and ha != hb)
        out = {'reproduced': bool(bad), 'observed': {'a==b': eq, 'b==a': eq2, 'hash_equal': ha == hb,
                                                     'len({a,b})': len({a, b})}}
    if inp['function'] == 'match_item_keys':
        from loki.batch import SchedulerConfig
        a = SchedulerConfig.match_item_keys(inp['name_a'], [inp['key_a']], False, inp.get('match_item_parents', False))
        b = SchedulerConfig.match_item_keys(inp['name_b'], [inp['key_b']], False, inp.get('match_item_parents', False))
        same_case_class = inp['name_a'].lower() == inp['name_b'].lower() and inp['key_a'].lower() == inp['key_b'].lower()
        out = {'reproduced': bool(same_case_class and a != b), 'observed': {'run_a': list(a), 'run_b': list(b)}}
    if inp['function'] == 'candidates':
        from types import SimpleNamespace
        from loki.batch import ItemFactory
        local = inp.get('local') or 'kernel'
        out = {'reproduced': False}
        for loc in (local, 'kernel', 'k'):
            for spell in (inp.get('name_a') or loc, inp.get('name_b') or loc.upper(), loc, loc.upper(), loc.capitalize()):
                if spell.lower() != loc.lower():
                    continue
                fac = ItemFactory()
                item = SimpleNamespace(name='mod#' + loc, local_name=loc, scope_name='mod')
                fac.item_cache['mod'] = SimpleNamespace(name='mod', create_definition_items=lambda **kw: [item])
                got = fac.get_or_create_module_definitions_from_candidates(spell, None, module_names=['mod'])
                if len(got) != 1:
                    out = {'reproduced': True, 'definition': 'mod#' + loc, 'lookup_name': spell, 'selected': len(got)}
                    break
            if out['reproduced']:
                break
    print(json.dumps(out))


if __name__ == '__main__':
    main()
