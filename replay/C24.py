"""Replay driver for C24 (and the apply_file obligations of C22); run under /venv/bin/python against the real loki.

FileWriteTransformation: plan_file and transform_file are run on the decoded (mode, suffix, output_dir) and on a
small grid around it; the planned path must equal the written path.
CMakePlanTransformation.plan_file: run for the decoded combination of (source exists, replicate, original exists,
rootpath) with real files in a scratch directory and compared with the decision table of the property.
Transformation.apply_file: a probe transformation records plan_* / transform_* calls for real Sourcefile and
(subclassed) item objects; the plan-mode log must equal the transform-mode log."""
import json
import shutil
import sys
import tempfile
from pathlib import Path
from types import SimpleNamespace


def replay_filewrite(inp):
    from loki.transformations.build_system import FileWriteTransformation
    modes = [inp.get('mode'), None, 'idem', 'scc-stack', '']
    suffixes = [inp.get('suffix'), None, '.F90', '.c']
    outs = [inp.get('output_dir'), None, 'out/dir']
    hows = [inp.get('how', 'item'), 'item', 'items']
    for mode in modes:
        for suf in suffixes:
            for od in outs:
                for how in hows:
                    item = SimpleNamespace(mode=mode, path=Path('src/kernel.F90'), trafo_data={})
                    other = SimpleNamespace(mode='x', path=Path('src/other.F90'), trafo_data={})
                    written = []
                    sf = SimpleNamespace(write=lambda **kw: written.append(kw))
                    kw = {}
                    if inp.get('build_args') != 'absent' or od is not None:
                        kw['build_args'] = {} if od is None else {'output_dir': od}
                    kw.update(dict(item=item, items=(other,)) if how == 'item' else dict(item=None, items=(item, other)))
                    try:
                        t1, t2 = FileWriteTransformation(suffix=suf), FileWriteTransformation(suffix=suf)
                        t1.plan_file(sf, **kw)
                        planned = item.trafo_data.get('FileWriteTransformation', {}).get('path')
                        t2.transform_file(sf, **kw)
                    except Exception as e:      # pylint: disable=broad-except
                        return {'reproduced': True, 'observed': 'exception %s: %s' % (type(e).__name__, e),
                                'input': dict(mode=mode, suffix=suf, output_dir=od, how=how)}
                    if len(written) != 1 or planned != written[0].get('path'):
                        return {'reproduced': True, 'planned': str(planned), 'written': [str(w.get('path')) for w in written],
                                'input': dict(mode=mode, suffix=suf, output_dir=od, how=how)}
    return {'reproduced': False}


def replay_cmake(inp):
    from loki.transformations.build_system import CMakePlanTransformation
    tmp = Path(tempfile.mkdtemp(prefix='c24_', dir='/var/tmp'))
    try:
        for ex in (inp.get('source_exists'), True, False):
            for rep in (inp.get('replicate'), True, False):
                for oex in (inp.get('orig_exists'), True, False):
                    for rooted in (inp.get('rooted'), True, False):
                        src, orig = tmp / 'src' / 'k.F90', tmp / 'src' / 'orig.F90'
                        src.parent.mkdir(parents=True, exist_ok=True)
                        for p, e in ((src, ex), (orig, oex)):
                            if e:
                                p.write_text('x')
                            elif p.exists():
                                p.unlink()
                        new = tmp / 'build' / 'k.idem.F90'
                        item = SimpleNamespace(path=src, orig_path=orig, replicate=bool(rep), lib='L', name='k', role='kernel',
                                               mode='idem', trafo_data={'FileWriteTransformation': {'path': new}})
                        t = CMakePlanTransformation(rootpath=tmp if rooted else None)
                        t.plan_file(None, item=item)
                        rel = (lambda p: p.resolve().relative_to(tmp.resolve())) if rooted else (lambda p: p)
                        want_t = [rel(src)] if ex else ([rel(orig)] if (rep and oex) else [])
                        want_r = [rel(src)] if (not rep and ex) else []
                        got = (t.sources_to_append.get('L', []), t.sources_to_transform.get('L', []),
                               t.sources_to_remove.get('L', []))
                        if got != ([new], want_t, want_r):
                            return {'reproduced': True, 'input': dict(source_exists=ex, replicate=rep, orig_exists=oex, rooted=rooted),
                                    'observed': [[str(x) for x in g] for g in got],
                                    'expected': [[str(new)], [str(x) for x in want_t], [str(x) for x in want_r]]}
        return {'reproduced': False}
    finally:
        shutil.rmtree(tmp, ignore_errors=True)


def replay_apply_file(inp):
    from loki import Sourcefile
    from loki.batch import Transformation, ProcedureItem, ModuleItem
    sf = Sourcefile.from_source("module m_mod\ncontains\nsubroutine r1\nend subroutine\nend module\n"
                                "subroutine r2\nend subroutine\n")

    def fake(base, tag, ir):
        class Fake(base):
            def __init__(self):         # pylint: disable=super-init-not-called
                self._tag = tag
            role = property(lambda self: 'role_' + tag)
            targets = property(lambda self: ('target_' + tag,))
            name = property(lambda self: 'm_mod' if base is ModuleItem else 'm_mod#' + tag)
            scope_name = property(lambda self: None if base is ModuleItem else 'm_mod')
            scope = property(lambda self: None)
        Fake.ir = property(lambda self: ir)
        return Fake()

    class Probe(Transformation):
        def __init__(self, rm, rp):
            self.recurse_to_modules, self.recurse_to_procedures, self.log = rm, rp, []

        def _rec(kind):             # pylint: disable=no-self-argument
            def m(self, unit, **kw):
                self.log.append((kind, getattr(unit, 'name', str(unit)), kw.get('role'), kw.get('targets'),
                                 getattr(kw.get('item'), '_tag', None),
                                 tuple(getattr(i, '_tag', None) for i in (kw.get('items') or ()))))
            return m
        transform_file = plan_file = _rec('file')
        transform_module = plan_module = _rec('module')
        transform_subroutine = plan_subroutine = _rec('subroutine')
    shapes = [inp.get('items'), None, '', 'P', 'M', 'MP', 'PP', 'PM']
    for kinds in shapes:
        items = None if kinds is None else tuple(
            fake(ModuleItem, 'M%d' % i, sf['m_mod']) if k == 'M' else fake(ProcedureItem, 'P%d' % i, sf['r2'])
            for i, k in enumerate(kinds) if k in 'MP')
        for rm in (False, True):
            for rp in (False, True):
                logs = {}
                for mode in (False, True):
                    p = Probe(rm, rp)
                    p.apply_file(sf, plan_mode=mode, item=None, items=items, role='file_role', targets=('file_target',))
                    logs[mode] = p.log
                if logs[False] != logs[True]:
                    return {'reproduced': True, 'input': dict(items=kinds, recurse_to_modules=rm, recurse_to_procedures=rp),
                            'transform_mode_calls': [list(map(str, x)) for x in logs[False]],
                            'plan_mode_calls': [list(map(str, x)) for x in logs[True]]}
                for call in logs[False]:
                    if call[0] == 'subroutine' and items and call[4] and (call[2] != 'role_' + call[4] or
                                                                         call[3] != ('target_' + call[4],)):
                        return {'reproduced': True, 'input': dict(items=kinds), 'call': list(map(str, call)),
                                'expected': 'role and targets of the item itself'}
    return {'reproduced': False}


def main():
    rec = json.load(open(sys.argv[1]))
    inp = rec.get('inputs') or {}
    fn = inp.get('function', '')
    if fn == 'FileWriteTransformation':
        out = replay_filewrite(inp)
    elif fn.startswith('CMakePlanTransformation'):
        out = replay_cmake(inp)
    elif fn == 'Transformation.apply_file':
        out = replay_apply_file(inp)
    else:
        out = {'reproduced': False, 'error': 'no replay for %r' % fn}
    print(json.dumps(out, default=str))


if __name__ == '__main__':
    main()
