"""Replay driver for C24 (and the apply_file obligations of C22); run under /venv/bin/python against the real loki.

FileWriteTransformation: plan_file and transform_file are run on the decoded (mode, suffix, output_dir) and on a
small grid around it; the planned path must equal the written path.
CMakePlanTransformation.plan_file: run for the decoded combination of (source exists, replicate, original exists,
rootpath) with real files in a scratch directory and compared with the decision table of the property.
Transformation.apply_file: a probe transformation records plan_* / transform_* calls for real Sourcefile and
(subclassed) item objects; the plan-mode log must equal the transform-mode log."""
import json
import shutil
import sys
import tempfile
from pathlib import Path
from types import SimpleNamespace


def replay_filewrite(inp):
    from loki.transformations.build_system import FileWriteTransformation
    modes = [inp.get('mode'), None, 'idem', 'scc-stack', '']
    suffixes = [inp.get('suffix'), None, '.F90', '.c']
    outs = [inp.get('output_dir'), None, 'out/dir']
    hows = [inp.get('how', 'item'), 'item', 'items']
    for mode in modes:
        for suf in suffixes:
            for od in outs:
                for how in hows:
                    item = SimpleNamespace(mode=mode, path=Path('src/kernel.F90'), trafo_data={})
                    other = SimpleNamespace(mode='x', path=Path('src/other.F90'), trafo_data={})
                    written = []
                    sf = SimpleNamespace(write=lambda **kw: written.append(kw))
                    kw = {}
                    if inp.get('build_args') != 'absent' or od is not None:
                        kw['build_args'] = {} if od is None else {'output_dir': od}
                    kw.update(dict(item=item, items=(other,)) if how == 'item' else dict(item=None, items=(item, other)))
                    try:
                        t1, t2 = FileWriteTransformation(suffix=suf), FileWriteTransformation(suffix=suf)
                        t1.plan_file(sf, **kw)
                        planned = item.trafo_data.get('FileWriteTransformation', {}).get('path')
                        t2.transform_file(sf, **kw)
                    except Exception as e:      # pylint: disable=broad-except
                        return {'reproduced': True, 'observed': 'exception %s: %s' % (type(e).__name__, e),
                                'input': dict(mode=mode, suffix=suf, output_dir=od, how=how)}
                    if len(written) != 1 or planned != written[0].get('path'):
                        return {'reproduced': True, 'planned': str(planned), 'written': [str(w.get('path')) for w in written],
                                'input': dict(mode=mode, suffix=suf, output_dir=od, how=how)}
    return {'reproduced': False}


def replay_cmake(inp):
    from loki.transformations.build_system import CMakePlanTransformation
    tmp = Path(tempfile.mkdtemp(prefix='c24_', dir='/var/tmp'))
    try:
        for ex in (inp.get('source_exists'), True, False):
            for rep in (inp.get('replicate'), True, False):
                for oex in (inp.get('orig_exists'), True, False):
                    for rooted in (inp.get('rooted'), True, False):
                        src, orig = tmp / 'src' / 'k.F90', tmp / 'src' / 'orig.F90'
                        src.parent.mkdir(parents=True, exist_ok=True)
                        for p, e in ((src, ex), (orig, oex)):
                            if e:
                                p.write_text('x')
                            elif p.exists():
                                p.unlink()
                        new = tmp / 'build' / 'k.idem.F90'
                        item = SimpleNamespace(path=src, orig_path=orig, replicate=bool(rep), lib='L', name='k', role='kernel',
                                               mode='idem', trafo_data={'FileWriteTransformation': {'path': new}})
                        t = CMakePlanTransformation(rootpath=tmp if rooted else None)
                        t.plan_file(None, item=item)
                        rel = (lambda p: p.resolve().relative_to(tmp.resolve())) if rooted else (lambda p: p)
                        want_t = [rel(src)] if ex else ([rel(orig)] if (rep and oex) else [])
                        want_r = [rel(src)] if (not rep and ex) else []
                        got = (t.sources_to_append.get('L', []), t.sources_to_transform.get('L', []),
                               t.sources_to_remove.get('L', []))
                        if got != ([new], want_t, want_r):
                            return {'reproduced': True, 'input': dict(source_exists=ex, replicate=rep, orig_exists=oex, rooted=rooted),
                                    'observed': [[str(x) for x in g] for g in got],
                                    'expected': [[str(new)], [str(x) for x in want_t], [str(x) for x in want_r]]}
        return {'reproduced': False}
    finally:
        shutil.rmtree(tmp, ignore_errors=True)


def replay_apply_file(inp):
    from loki import Sourcefile
    from loki.batch import Transformation, ProcedureItem, ModuleItem
    sf = Sourcefile.from_source("module m_mod\ncontains\nsubroutine r1\nend subroutine\nend module\n"
                                "subroutine r2\nend subroutine\n")

    def fake(base, tag, ir):
        class Fake(base):
            def __init__(self):         # pylint: disable=super-init-not-called
                self._tag = tag
            role = property(lambda self: 'role_' + tag)
            targets = property(lambda self: ('target_' + tag,))
            name = property(lambda self: 'm_mod' if base is ModuleItem else 'm_mod#' + tag)
            scope_name = property(lambda self: None if base is ModuleItem else 'm_mod')
            scope = property(lambda self: None)
        Fake.ir = property(lambda self: ir)
        return Fake()

    class Probe(Transformation):
        def __init__(self, rm, rp):
            self.recurse_to_modules, self.recurse_to_procedures, self.log = rm, rp, []

        def _rec(kind):             # pylint: disable=no-self-argument
            def m(self, unit, **kw):
                self.log.append((kind, getattr(unit, 'name', str(unit)), kw.get('role'), kw.get('targets'),
                                 getattr(kw.get('item'), '_tag', None),
                                 tuple(getattr(i, '_tag', None) for i in (kw.get('items') or ()))))
            return m
        transform_file = plan_file = _rec('file')
        transform_module = plan_module = _rec('module')
        transform_subroutine = plan_subroutine = _rec('subroutine')
    shapes = [inp.get('items'), None, '', 'P', 'M', 'MP', 'PP', 'PM']
    for kinds in shapes:
        items = None if kinds is None else tuple(
            fake(ModuleItem, 'M%d' % i, sf['m_mod']) if k == 'M' else fake(ProcedureItem, 'P%d' % i, sf['r2'])
            for i, k in enumerate(kinds) if k in 'MP')
        for rm in (False, True):
            for rp in (False, True):
                logs = {}
                for mode in (False, True):
                    p = Probe(rm, rp)
                    p.apply_file(sf, plan_mode=mode, item=None, items=items, role='file_role', targets=('file_target',))
                    logs[mode] = p.log
                if logs[False] != logs[True]:
                    return {'reproduced': True, 'input': dict(items=kinds, recurse_to_modules=rm, recurse_to_procedures=rp),
                            'transform_mode_calls': [list(map(str, x)) for x in logs[False]],
                            'plan_mode_calls': [list(map(str, x)) for x in logs[True]]}
                for call in logs[False]:
                    if call[0] == 'subroutine' and items and call[4] and (call[2] != 'role_' + call[4] or
                                                                         call[3] != ('target_' + call[4],)):
                        return {'reproduced': True, 'input': dict(items=kinds), 'call': list(map(str, call)),
                                'expected': 'role and targets of the item itself'}
    return {'reproduced': False}



SCHED_SRC = {
    'driver.F90': "subroutine driver\n  use pq_mod, only: p\n  use r_mod, only: r\n  use s_mod, only: s\n  implicit none\n"
                  "  call p\n  call r\n  call s\nend subroutine driver\n",
    'pq_mod.F90': "module pq_mod\n  implicit none\ncontains\n  subroutine p\n  end subroutine p\n  subroutine q\n"
                  "  end subroutine q\nend module pq_mod\n",
    'r_mod.F90': "module r_mod\n  implicit none\ncontains\n  subroutine r\n    use pq_mod, only: q\n    call q\n"
                 "  end subroutine r\nend module r_mod\n",
    's_mod.F90': "module s_mod\n  implicit none\ncontains\n  subroutine s\n    use pq_mod, only: p\n    call p\n"
                 "  end subroutine s\nend module s_mod\n",
}

# a file that holds only intermediate items (a type definition and the binding chain through it) and no procedure
SCHED_SRC2 = {
    'driver.F90': "subroutine driver\n  use types_mod, only: t\n  implicit none\n  type(t) :: obj\n"
                  "  call obj%inner%run()\nend subroutine driver\n",
    'types_mod.F90': "module types_mod\n  use impl_mod, only: inner_t\n  implicit none\n  type :: t\n"
                     "    type(inner_t) :: inner\n  end type t\nend module types_mod\n",
    'impl_mod.F90': "module impl_mod\n  implicit none\n  type :: inner_t\n    integer :: val\n  contains\n"
                    "    procedure, nopass :: run => impl\n  end type inner_t\ncontains\n  subroutine impl()\n"
                    "  end subroutine impl\nend module impl_mod\n",
}


def replay_scheduler(inp):
    for sources, cfg, imports in ((SCHED_SRC, {'driver': {'role': 'driver'}, 'r': {'ignore': ['q']}}, False),
                                  (SCHED_SRC2, {'driver': {'role': 'driver'}}, True)):
        r = _replay_scheduler_project(sources, cfg, imports)
        if r.get('reproduced'):
            r['project'] = sorted(sources)
            return r
    return {'reproduced': False}


def _replay_scheduler_project(sources, routines_cfg, enable_imports):
    """a small project (an ignored routine sharing a file with an active one; a diamond of callers) processed by probe
    transformations for every manifest combination; checked against the scheduler graph's own item flags and edges"""
    from loki import Scheduler, SchedulerConfig, Transformation, ProcedureItem
    from loki.batch import ProcessingStrategy
    from loki.frontend import FP
    tmp = Path(tempfile.mkdtemp(prefix='c22_', dir='/var/tmp'))
    try:
        for name, src in sources.items():
            (tmp / name).write_text(src)
        config = SchedulerConfig.from_dict({
            'default': {'mode': 'idem', 'role': 'kernel', 'expand': True, 'strict': True, 'enable_imports': enable_imports},
            'routines': routines_cfg})
        for file_graph in (False, True):
            for proc_ignored in (False, True):
                for reverse in (False, True):
                    for plan in (False, True):
                        sched = Scheduler(paths=[tmp], config=config, seed_routines=['driver'], frontend=FP, xmods=[tmp])
                        ignored = {it.name for it in sched.items if it.is_ignored}
                        procs = [it for it in sched.items if isinstance(it, ProcedureItem)]
                        want = sorted(it.name for it in procs if proc_ignored or it.name not in ignored)
                        edges = [(a.name, b.name) for a, b in sched.sgraph._graph.edges
                                 if isinstance(a, ProcedureItem) and isinstance(b, ProcedureItem)]

                        class Probe(Transformation):
                            traverse_file_graph = file_graph
                            recurse_to_modules = file_graph
                            recurse_to_procedures = file_graph
                            process_ignored_items = proc_ignored
                            reverse_traversal = reverse
                            item_filter = (ProcedureItem,)

                            def __init__(self):
                                self.calls, self.file_items, self.files = [], {}, []

                            def transform_file(self, sourcefile, **kw):
                                self.files.append(sourcefile.path.name)
                                self.file_items[sourcefile.path.name] = tuple(i.name for i in kw.get('items') or ())
                            plan_file = transform_file

                            def transform_subroutine(self, routine, **kw):
                                it = kw['item']
                                self.calls.append((it.name, kw.get('role') == it.role, tuple(kw.get('targets') or ()) == tuple(it.targets)))
                            plan_subroutine = transform_subroutine
                        probe = Probe()
                        sched.process(probe, proc_strategy=ProcessingStrategy.PLAN if plan else ProcessingStrategy.DEFAULT)
                        setting = dict(traverse_file_graph=file_graph, process_ignored_items=proc_ignored,
                                       reverse_traversal=reverse, plan=plan)
                        got = [c[0] for c in probe.calls]
                        if sorted(got) != want:
                            return {'reproduced': True, 'setting': setting, 'applied_to': sorted(got), 'expected': want}
                        bad = [c for c in probe.calls if not (c[1] and c[2])]
                        if bad:
                            return {'reproduced': True, 'setting': setting, 'wrong_role_or_targets': bad}
                        if not proc_ignored:
                            leak = {f: [n for n in names if n in ignored] for f, names in probe.file_items.items()}
                            if any(leak.values()):
                                return {'reproduced': True, 'setting': setting, 'ignored_items_passed_to_transform_file': leak}
                        if file_graph:
                            # file-graph processing visits each file containing a selected item once, and no other
                            want_files = sorted({Path(it.source.path).name for it in procs
                                                 if proc_ignored or it.name not in ignored})
                            if sorted(probe.files) != want_files:
                                return {'reproduced': True, 'setting': setting, 'files_visited': sorted(probe.files),
                                        'files_containing_a_selected_item': want_files}
                        if not file_graph:
                            pos = {n: k for k, n in enumerate(got)}
                            for a, b in edges:
                                if a in pos and b in pos and (pos[a] > pos[b]) != reverse:
                                    return {'reproduced': True, 'setting': setting, 'order': got, 'edge': [a, b]}
        return {'reproduced': False}
    finally:
        shutil.rmtree(tmp, ignore_errors=True)


CLI_SRC = {
    'src/driver_mod.F90': "module driver_mod\n  implicit none\ncontains\n  subroutine driver(n, a)\n    use header_mod, only: jprb\n"
                          "    use kernel_mod, only: kernel\n    integer, intent(in) :: n\n    real(kind=jprb), intent(inout) :: a(n)\n"
                          "    call kernel(n, a)\n  end subroutine driver\nend module driver_mod\n",
    'src/kernel_mod.F90': "module kernel_mod\n  implicit none\ncontains\n  subroutine kernel(n, a)\n    use header_mod, only: jprb\n"
                          "    use util_mod, only: util\n    integer, intent(in) :: n\n    real(kind=jprb), intent(inout) :: a(n)\n"
                          "    integer :: i\n    do i=1,n\n      call util(a(i))\n    end do\n  end subroutine kernel\nend module kernel_mod\n",
    'HDR/header_mod.F90': "module header_mod\n  implicit none\n  integer, parameter :: jprb = selected_real_kind(13,300)\nend module header_mod\n",
    'HDR/util_mod.F90': "module util_mod\n  implicit none\ncontains\n  subroutine util(x)\n    use header_mod, only: jprb\n"
                        "    real(kind=jprb), intent(inout) :: x\n    x = 2.0_jprb * x\n  end subroutine util\nend module util_mod\n",
}


def replay_cli(inp):
    """`loki-transform plan` and `loki-transform convert` (the real click commands) with identical arguments on a project
    whose header lives inside / outside the --source tree: the plan's three lists against the files the conversion wrote"""
    import re
    import tomli_w
    from click.testing import CliRunner
    from loki.cli.loki_transform import cli
    config = {'default': {'mode': 'idem', 'role': 'kernel', 'expand': True, 'strict': False, 'enable_imports': False},
              'routines': {'driver': {'role': 'driver'}},
              'transformations': {'Idem': {'classname': 'IdemTransformation', 'module': 'loki.transformations'}},
              'pipelines': {'idem': {'transformations': ['Idem']}}}
    for hdr_dir in ('src', 'common'):
        tmp = Path(tempfile.mkdtemp(prefix='c24cli_', dir='/var/tmp')).resolve()
        try:
            for name, src in CLI_SRC.items():
                f = tmp / name.replace('HDR', hdr_dir)
                f.parent.mkdir(exist_ok=True)
                f.write_text(src)
            (tmp / 'build').mkdir()
            (tmp / 'my.config').write_text(tomli_w.dumps(config))
            plan = tmp / 'plan.cmake'
            args = ['--mode=idem', '--config=%s/my.config' % tmp, '--frontend=fp', '--source=%s/src' % tmp,
                    '--header=%s/%s/header_mod.F90' % (tmp, hdr_dir), '--build=%s/build' % tmp, '--root=%s' % tmp,
                    '--log-level=error']
            r1 = CliRunner().invoke(cli, ['plan'] + args + ['--plan-file=%s' % plan])
            r2 = CliRunner().invoke(cli, ['convert'] + args)
            setting = {'header_directory': hdr_dir, 'below_source_path': hdr_dir == 'src'}
            if (r1.exit_code != 0) != (r2.exit_code != 0):
                return {'reproduced': True, 'setting': setting, 'plan_exit': r1.exit_code, 'convert_exit': r2.exit_code,
                        'plan_error': repr(r1.exception), 'convert_error': repr(r2.exception)}
            if r1.exit_code != 0:
                return {'reproduced': False, 'error': 'both commands fail: %r' % (r1.exception,)}
            lists = {k: v.split() for k, v in re.findall(r'set\(\s*(\w+)\s*(.*?)\s*\)', plan.read_text(), re.S)}
            written = sorted(p.name for p in (tmp / 'build').iterdir() if p.is_file())
            planned = sorted(Path(p).name for p in lists.get('LOKI_SOURCES_TO_APPEND', []))
            originals = sorted(n.replace('.idem.', '.') for n in written)
            if written != planned:
                return {'reproduced': True, 'setting': setting, 'written': written, 'LOKI_SOURCES_TO_APPEND': planned}
            for key in ('LOKI_SOURCES_TO_TRANSFORM', 'LOKI_SOURCES_TO_REMOVE'):
                got = sorted(Path(p).name for p in lists.get(key, []))
                if got != originals:
                    return {'reproduced': True, 'setting': setting, key: got, 'originals_of_written_files': originals}
        finally:
            shutil.rmtree(tmp, ignore_errors=True)
    return {'reproduced': False, 'cases': 2}


def main():
    if sys.argv[1] == '--cli':
        print(json.dumps(replay_cli({}), default=str))
        return
    if sys.argv[1] == '--scheduler':
        print(json.dumps(replay_scheduler({}), default=str))
        return
    rec = json.load(open(sys.argv[1]))
    inp = rec.get('inputs') or {}
    fn = inp.get('function', '')
    if fn == 'FileWriteTransformation':
        out = replay_filewrite(inp)
    elif fn.startswith('CMakePlanTransformation'):
        out = replay_cmake(inp)
    elif fn == 'Transformation.apply_file':
        out = replay_apply_file(inp)
    elif fn in ('_get_definition_items', 'SFilter', 'process_transformation'):
        out = replay_scheduler(inp)
    else:
        out = {'reproduced': False, 'error': 'no replay for %r' % fn}
    print(json.dumps(out, default=str))


if __name__ == '__main__':
    main()
