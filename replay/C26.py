"""Replay driver for C26/C27 refutations (run under /venv/bin/python against the real loki).

A refuted obligation of a dataflow transfer rule is abstract (sets of symbols), so the replay searches a fixed
corpus of small Fortran routines for a concrete witness: each case names the rule it exercises, a node selector and
the symbols that Fortran execution semantics REQUIRE in the node's used / defined sets (a variable read before it is
certainly written inside the node; a variable the node may write).  `reproduced` is true when some case of the
rule named by the obligation is violated by the real analysis; the failing case is reported."""
import json
import sys

HEAD = """
subroutine t(n, m, i, j, x, y, z, a, b, c, m1, m2, flag)
  integer, intent(in) :: n, m
  integer, intent(inout) :: i, j
  real, intent(inout) :: x, y, z
  real, intent(inout) :: a(n), b(n), c(n)
  logical, intent(in) :: m1(n), m2(n), flag
"""
TAIL = """
contains
  subroutine f_none(p, q)
    real :: p, q
    q = p
  end subroutine
  subroutine f_intent(p, q)
    real, intent(in) :: p
    real, intent(out) :: q
    q = p
  end subroutine
  subroutine f_blank(p)
    real, intent(in out) :: p
    p = p + 1.0
  end subroutine
  subroutine f_out2(k, q)
    integer, intent(out) :: k
    real, intent(out) :: q
    k = 1
    q = 1.0
  end subroutine
end subroutine
"""

# (rule(s), body source, node class to inspect (first of its kind) or 'BODY', must-be-used, must-be-defined)
CASES = [
    (('_visit_body',), "if (n > 0) x = 1.0\n  y = x", 'BODY', {'x', 'n'}, {'x', 'y'}),
    (('_visit_body',), "x = 1.0\n  y = x + z", 'BODY', {'z'}, {'x', 'y'}),
    (('_visit_body', 'visit_Assignment'), "y = x\n  x = 2.0", 'BODY', {'x'}, {'x', 'y'}),
    (('visit_Assignment',), "a(i) = b(j) + x", 'Assignment', {'b', 'j', 'x', 'i'}, {'a'}),
    (('expression-model/memory-query-arguments',), "b = size(a) + a", 'Assignment', {'a'}, {'b'}),
    (('visit_Assignment',), "x = size(a) + y", 'Assignment', {'y'}, {'x'}),
    (('visit_Conditional',), "if (x > y) then\n z = 1.0\n else\n z = a(i)\n end if", 'Conditional',
     {'x', 'y', 'a', 'i'}, {'z'}),
    (('visit_Conditional',), "if (flag) then\n x = 1.0\n else\n y = x\n end if", 'Conditional', {'flag', 'x'},
     {'x', 'y'}),
    (('visit_Loop',), "do i = 1, n\n a(i) = x\n end do", 'Loop', {'n', 'x'}, {'a', 'i'}),
    (('visit_Loop',), "do i = i, n\n a(i) = 1.0\n end do", 'Loop', {'n', 'i'}, {'a'}),
    (('visit_Loop',), "do i = 1, n\n x = a(i)\n y = x\n end do", 'Loop', {'n', 'a'}, {'x', 'y'}),
    (('visit_WhileLoop',), "do while (x < y)\n x = x + z\n end do", 'WhileLoop', {'x', 'y', 'z'}, {'x'}),
    (('visit_MaskedStatement',), "where (m1)\n a = 1.0\n elsewhere (m2)\n b = a\n end where", 'MaskedStatement',
     {'m1', 'm2', 'a'}, {'a', 'b'}),
    (('visit_MaskedStatement',), "where (m1)\n a = c\n elsewhere\n b = a\n end where", 'MaskedStatement',
     {'m1', 'a', 'c'}, {'a', 'b'}),
    (('visit_MultiConditional',), "select case (i)\n case (1)\n x = y\n case (2)\n y = 1.0\n z = y\n case default\n"
     " z = x\n end select", 'MultiConditional', {'i', 'x', 'y'}, {'x', 'y', 'z'}),
    (('visit_CallStatement',), "call f_none(x, y)", 'CallStatement', {'x', 'y'}, {'x', 'y'}),
    (('visit_CallStatement',), "call f_intent(x, y)", 'CallStatement', {'x'}, {'y'}),
    (('visit_CallStatement',), "call f_intent(a(i), b(j))", 'CallStatement', {'a', 'i', 'j'}, {'b'}),
    (('visit_CallStatement',), "call f_out2(i, a(i))", 'CallStatement', {'i'}, {'i', 'a'}),
    (('visit_CallStatement',), "call f_blank(x)", 'CallStatement', {'x'}, {'x'}),
    (('visit_CallStatement',), "call unknown_routine(x, a(i))", 'CallStatement', {'x', 'a', 'i'}, {'x', 'a'}),
    (('visit_InternalNode',), "x = y\n  z = x", 'BODY', {'y'}, {'x', 'z'}),
    (('visit_Associate',), "associate (PFLD => a, psrc => b)\n pfld(1) = PSRC(n)\n end associate", 'Associate',
     {'b', 'n'}, {'a'}),
    (('visit_Associate',), "associate (q => x)\n y = q\n end associate", 'Associate', {'x'}, {'y'}),
    (('visit_ConditionalAssignment',), "x = y", 'BODY', {'y'}, {'x'}),
    (('loop_carried_dependencies',), "do i = 1, n\n y = x\n x = a(i)\n end do", 'LCD', {'x'}, set()),
    (('loop_carried_dependencies',), "do i = 1, n\n x = x + a(i)\n end do", 'LCD', {'x'}, set()),
    (('read_after_write_vars', 'FindReads', 'FindWrites'), "x = 1.0\n  y = 2.0\n  z = x", 'RAW:2', {'x'}, set()),
    (('read_after_write_vars', 'FindReads', 'FindWrites'), "x = 1.0\n  if (flag) then\n x = 2.0\n end if\n  z = x",
     'RAW:2', {'x'}, set()),
    (('read_after_write_vars', 'FindReads', 'FindWrites'), "x = 1.0\n  do i = 1, n\n a(i) = x\n end do", 'RAW:1',
     {'x'}, set()),
    (('read_after_write_vars', 'FindReads.visit_Loop'), "x = 1.0\n  do i = 1, n\n x = 2.0\n end do\n  z = x", 'RAW:1',
     {'x'}, set()),
    (('read_after_write_vars', 'FindReads.visit_WhileLoop'),
     "x = 1.0\n  do while (y < 0.)\n x = 2.0\n y = y + 1.\n end do\n  z = x", 'RAW:1', {'x'}, set()),
    (('read_after_write_vars', 'FindReads.visit_LeafNode'),
     "x = 1.0\n  select case (i)\n case (1)\n x = 2.0\n end select\n  z = x", 'RAW:1', {'x'}, set()),
    (('read_after_write_vars', 'FindReads.visit_LeafNode'),
     "a = 1.0\n  where (m1)\n a = 2.0\n end where\n  z = a(1)", 'RAW:1', {'a'}, set()),
    (('read_after_write_vars', 'FindReads.visit_Loop'), "x = 1.0\n  do i = 1, 3, -1\n x = 2.0\n end do\n  z = x", 'RAW:1',
     {'x'}, set()),
    (('read_after_write_vars', 'FindReads.visit_Loop'), "x = 1.0\n  do i = 5, 1\n x = 2.0\n end do\n  z = x", 'RAW:1',
     {'x'}, set()),
    (('read_after_write_vars', 'FindReads.visit_Loop'), "i = 5\n  x = real(i)\n  do i = 1, n\n a(i) = 0.\n end do", 'RAW:1',
     {'i'}, set()),
    (('loop_carried_dependencies',), "do i = 1, n\n if (flag) then\n x = a(i)\n else\n y = x\n end if\n end do", 'LCD',
     {'x'}, set()),
    (('loop_carried_dependencies',), "do i = 1, n\n where (m1)\n a = 1.0\n elsewhere (m2)\n b = a\n end where\n end do",
     'LCD', {'a'}, set()),
    (('read_after_write_vars', 'FindReads.visit_Conditional'),
     "x = 1.0\n  if (flag) then\n x = 2.0\n else\n x = 3.0\n end if\n  z = y", 'RAW:1', set(), set()),
]


def corpus(prop):
    """bounded native check: the whole corpus of one property; returns one record per case"""
    c27 = ('loop_carried_dependencies', 'read_after_write_vars')
    out = []
    for k, case in enumerate(CASES):
        is27 = any(r in c27 for r in case[0])
        if (prop == 'C27') != is27:
            continue
        rec = {'name': 'native/%s/%d' % (case[0][-1] if is27 else case[0][0], k), 'source': case[1], 'node': case[2]}
        try:
            mu, md, gu, gd = run_case(case)
            rec.update(violation=bool(mu or md), missing_from_uses=mu, missing_from_defines=md, observed_uses=gu,
                       observed_defines=gd)
        except Exception as e:      # pylint: disable=broad-except
            rec.update(violation=False, error='%s: %s' % (type(e).__name__, e))
        out.append(rec)
    return out


def names(symset):
    return {str(getattr(s, 'name', s)).lower() for s in symset}


def run_case(case):
    from loki import Subroutine, FindNodes
    from loki.ir import nodes as ir
    from loki.analyse import dataflow_analysis_attached
    from loki.analyse.dataflow_analysis import loop_carried_dependencies, read_after_write_vars
    rules, body, sel, need_u, need_d = case
    r = Subroutine.from_source(HEAD + '  ' + body + TAIL)
    r.enrich(r.members)
    with dataflow_analysis_attached(r):
        if sel == 'LCD':
            loop = FindNodes(ir.Loop).visit(r.body)[0]
            got_u, got_d = names(loop_carried_dependencies(loop)), set()
        elif sel.startswith('RAW:'):
            node = r.body.body[int(sel[4:])]
            got_u, got_d = names(read_after_write_vars(r.body, node)), set()
        else:
            node = r.body if sel == 'BODY' else FindNodes(getattr(ir, sel)).visit(r.body)[0]
            got_u, got_d = names(node.uses_symbols), names(node.defines_symbols)
    miss_u, miss_d = sorted(need_u - got_u), sorted(need_d - got_d)
    return miss_u, miss_d, sorted(got_u), sorted(got_d)


def main():
    if sys.argv[1] == '--corpus':
        print(json.dumps(corpus(sys.argv[2])))
        return
    rec = json.load(open(sys.argv[1]))
    inp = rec.get('inputs') or {}
    fn = inp.get('function') or rec.get('function', '')
    which = inp.get('which')        # 'uses' | 'defines' | None
    out = {'reproduced': False, 'cases_run': 0}
    for case in CASES:
        if not any(fn.endswith(r) or r in fn for r in case[0]):
            continue
        out['cases_run'] += 1
        try:
            miss_u, miss_d, got_u, got_d = run_case(case)
        except Exception as e:      # pylint: disable=broad-except
            out.setdefault('errors', []).append('%s: %s' % (type(e).__name__, e))
            continue
        if which == 'uses':
            miss_d = []
        if which == 'defines':
            miss_u = []
        if miss_u or miss_d:
            out.update({'reproduced': True, 'source': case[1], 'node': case[2], 'missing_from_uses': miss_u,
                        'missing_from_defines': miss_d, 'observed_uses': got_u, 'observed_defines': got_d})
            break
    print(json.dumps(out))


if __name__ == '__main__':
    main()
