"""Replay driver for C27: the corpus and logic live in replay/C26.py (same analysis module)."""
import os
import sys
sys.path.insert(0, os.path.dirname(os.path.abspath(__file__)))
import C26  # noqa: E402  pylint: disable=wrong-import-position

if __name__ == '__main__':
    C26.main()
