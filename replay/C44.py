"""Replay driver / bounded native check for C44 (run under /venv/bin/python against the real loki).

Builds small module-dependency DAGs as real Fortran files in a scratch directory and runs the real Lib.build with a
fake compiler and a fake work queue whose futures complete ONLY when somebody waits for them (the adversarial
schedule: every compile job is as slow as the protocol allows).  Obj.build and get_dependency_graph are the real
code.  At every submission the harness checks the property: every dependency that has a source was submitted before
and has completed; at link time nothing is in flight; every object is submitted exactly once."""
import json
import os
import shutil
import sys
import tempfile
from pathlib import Path

DAGS = {
    'chain3': {'a': ['b'], 'b': ['c'], 'c': []},
    'diamond': {'top': ['l', 'r'], 'l': ['base'], 'r': ['base'], 'base': []},
    'fan': {'m': ['x1', 'x2', 'x3'], 'x1': [], 'x2': [], 'x3': ['x1']},
    'two_roots': {'p': ['s'], 'q': ['s', 'p'], 's': []},
}


class FakeFuture:
    def __init__(self, owner):
        self.owner, self.done = owner, False

    def result(self, timeout=None):
        self.done = True

    def exception(self, timeout=None):
        return None


def run_dag(name, dag, workers, listed=None):
    from loki.jit_build import Lib, Obj, Builder
    import loki.jit_build.lib as libmod
    Obj.clear_cache()
    tmp = Path(tempfile.mkdtemp(prefix='c44_', dir='/var/tmp'))
    problems, events = [], []
    try:
        for mod, deps in dag.items():
            uses = ''.join('  use %s_mod\n' % d for d in deps)
            (tmp / ('%s_mod.f90' % mod)).write_text('module %s_mod\n%s  implicit none\nend module %s_mod\n' % (mod, uses, mod))
        # `listed`: the library lists only these objects; the others are resolved through the builder's source directory
        objs = [Obj(source_path=tmp / ('%s_mod.f90' % m)) for m in (listed or dag)]
        futures = {}

        class FakeQueue:
            log_queue = None

            def execute(self, args, **kw):
                target = [a for a in args if str(a).endswith('.o')]
                owner = Path(target[0]).stem if target else str(args)
                for d in dag.get(owner.replace('_mod', ''), []):
                    f = futures.get('%s_mod' % d)
                    if f is None:
                        problems.append('%s submitted before its dependency %s_mod was submitted' % (owner, d))
                    elif not f.done:
                        problems.append('%s submitted while its dependency %s_mod is still compiling' % (owner, d))
                if owner in futures:
                    problems.append('%s submitted twice' % owner)
                events.append(owner)
                futures[owner] = FakeFuture(owner)
                return futures[owner]

        class FakeCompiler:
            def compile_args(self, source=None, target=None, **kw):
                return ['fc', '-c', str(source), '-o', str(target)]

            def link(self, target=None, objs=None, shared=None):
                pend = [k for k, f in futures.items() if not f.done]
                if pend:
                    problems.append('linking while %s still compiling' % pend)
                events.append('LINK')

        from contextlib import contextmanager

        @contextmanager
        def fake_workqueue(workers=None, logger=None, manager=None):
            yield FakeQueue()
        serial_exec = []

        def fake_execute(args, **kw):
            target = [a for a in args if str(a).endswith('.o')]
            owner = Path(target[0]).stem
            for d in dag.get(owner.replace('_mod', ''), []):
                if '%s_mod' % d not in serial_exec:
                    problems.append('%s compiled before its dependency %s_mod (serial)' % (owner, d))
            if owner in serial_exec:
                problems.append('%s compiled twice (serial)' % owner)
            serial_exec.append(owner)
            events.append(owner)
        import loki.jit_build.obj as objmod
        old_wq, old_ex = libmod.workqueue, objmod.execute
        libmod.workqueue, objmod.execute = fake_workqueue, fake_execute
        try:
            builder = Builder(source_dirs=[tmp], build_dir=tmp / 'build', workers=workers)
            builder.compiler = FakeCompiler()
            lib = Lib(name='t', objs=objs, shared=False)
            lib.build(builder=builder, force=True)
        finally:
            libmod.workqueue, objmod.execute = old_wq, old_ex
        built = [e for e in events if e != 'LINK']
        missing = sorted(set('%s_mod' % m for m in dag) - set(built))
        if missing:
            problems.append('never compiled: %s' % missing)
    except Exception as e:      # pylint: disable=broad-except
        problems.append('harness error %s: %s' % (type(e).__name__, e))
    finally:
        shutil.rmtree(tmp, ignore_errors=True)
    return problems, events


def corpus():
    out = []
    for name, dag in DAGS.items():
        for workers in (1, 3):
            problems, events = run_dag(name, dag, workers)
            out.append({'name': 'native/%s/workers=%d' % (name, workers), 'violation': bool(problems),
                        'problems': problems[:5], 'events': events})
    for name, listed in (('chain3', ['a']), ('diamond', ['top']), ('two_roots', ['q'])):
        problems, events = run_dag(name, DAGS[name], 3, listed=listed)
        out.append({'name': 'native/%s/only-%s-listed/workers=3' % (name, '+'.join(listed)), 'violation': bool(problems),
                    'problems': problems[:5], 'events': events})
    return out


def main():
    if sys.argv[1] == '--corpus':
        print(json.dumps(corpus()))
        return
    res = corpus()
    bad = [r for r in res if r['violation']]
    print(json.dumps({'reproduced': bool(bad), 'failing': bad[:2], 'cases_run': len(res)}))


if __name__ == '__main__':
    main()
