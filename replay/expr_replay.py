"""Shared by the expression replay drivers: rebuild a real loki expression from the JSON tree a pyvc
counterexample decodes to, and evaluate expressions exactly (Fraction / truncating integer division)."""
from fractions import Fraction

from loki import Scope, SymbolAttributes, BasicType
from loki.expression import symbols as sym
import pymbolic.primitives as pmbl

scope = Scope()
itype = SymbolAttributes(BasicType.INTEGER)
_vars = {}


def var(name):
    name = (name or 'v').lower() or 'v'
    if not name.isidentifier():
        name = 'v' + str(abs(hash(name)) % 97)
    if name not in _vars:
        _vars[name] = sym.Variable(name=name, scope=scope, type=itype)
    return _vars[name]


def build(j):
    if j is None:
        return None
    if 'py' in j:
        if j['py'] in ('int', 'float', 'bool', 'str'):
            return j['value']
        items = [build(x) for x in j['items']]
        return items if j['py'] == 'list' else tuple(items)
    if 'opaque' in j:
        return var('opq' + str(abs(hash(j['opaque'])) % 97))
    c = j['cls']
    ch = lambda k: tuple(build(x) for x in j[k])
    if c == 'IntLiteral':
        return sym.IntLiteral(j['value'])
    if c == 'FloatLiteral':
        v = j['value'] or '0.0'
        try:
            float(v)
        except ValueError:
            v = '1.5'
        return sym.FloatLiteral(v)
    if c == 'LogicLiteral':
        return sym.LogicLiteral('true' if j['value'] else 'false')
    if c == 'StringLiteral':
        return sym.StringLiteral("'%s'" % j['value'])
    table = {'Sum': sym.Sum, 'Product': sym.Product, 'P_Sum': pmbl.Sum, 'P_Product': pmbl.Product,
             'ParenthesisedAdd': sym.ParenthesisedAdd, 'ParenthesisedMul': sym.ParenthesisedMul,
             'LogicalAnd': sym.LogicalAnd, 'LogicalOr': sym.LogicalOr}
    if c in table:
        return table[c](ch('children'))
    table2 = {'Quotient': sym.Quotient, 'P_Quotient': pmbl.Quotient, 'ParenthesisedDiv': sym.ParenthesisedDiv}
    if c in table2:
        return table2[c](build(j['numerator']), build(j['denominator']))
    table3 = {'Power': sym.Power, 'P_Power': pmbl.Power, 'ParenthesisedPow': sym.ParenthesisedPow}
    if c in table3:
        return table3[c](build(j['base']), build(j['exponent']))
    if c == 'Comparison':
        op = j['operator'] if j['operator'] in ('==', '!=', '<', '<=', '>', '>=') else '=='
        return sym.Comparison(build(j['left']), op, build(j['right']))
    if c == 'LogicalNot':
        return sym.LogicalNot(build(j['child']))
    if c in ('LoopRange', 'RangeIndex'):
        cls = sym.LoopRange if c == 'LoopRange' else sym.RangeIndex
        parts = (build(j['start']), build(j['stop'])) + ((build(j['step']),) if j['step'] is not None else ())
        return cls(parts)
    if c == 'Scalar':
        return var(j['name'] or 's')
    if c == 'Array':
        return var((j['name'] or 'arr') + '_arr')
    if c == 'OtherExpr':
        return var('other%d' % (j['uid'] % 7))
    raise ValueError('cannot rebuild ' + c)


class ZeroDiv(Exception):
    pass


def ev(e, env, mode):
    F = Fraction if mode == 'R' else int
    if isinstance(e, bool):
        return F(int(e))
    if isinstance(e, int):
        return F(e)
    if isinstance(e, float):
        return Fraction(e) if mode == 'R' else int(e)
    if isinstance(e, sym.IntLiteral):
        return F(e.value)
    if isinstance(e, sym.FloatLiteral):
        return Fraction(e.value)
    if isinstance(e, pmbl.Sum):
        return sum((ev(c, env, mode) for c in e.children), F(0))
    if isinstance(e, pmbl.Product):
        r = F(1)
        for c in e.children:
            r = r * ev(c, env, mode)
        return r
    if isinstance(e, pmbl.Quotient):
        n, d = ev(e.numerator, env, mode), ev(e.denominator, env, mode)
        if d == 0:
            raise ZeroDiv()
        if mode == 'R':
            return n / d
        q = abs(n) // abs(d)
        return q if (n >= 0) == (d > 0) else -q
    if isinstance(e, pmbl.Power):
        b, x = ev(e.base, env, mode), ev(e.exponent, env, mode)
        if x < 0 or x != int(x) or x > 6:
            raise ValueError('exponent outside the replay range')
        return b ** int(x)
    name = getattr(e, 'name', None)
    if name is not None:
        return F(env.setdefault(str(name).lower(), 2 + (abs(hash(str(name).lower())) % 5)))
    raise ValueError('cannot evaluate %r' % type(e).__name__)


def differs(a, b, mode, names):
    """first valuation on a small grid under which a and b denote different values (None if none)"""
    import itertools
    grid = [-3, -1, 2, 5]
    names = sorted(names)[:3]
    for vals in itertools.product(grid, repeat=len(names)):
        env = dict(zip(names, vals))
        try:
            va, vb = ev(a, dict(env), mode), ev(b, dict(env), mode)
        except ZeroDiv:
            continue
        except (ValueError, OverflowError):
            return None
        if va != vb:
            return {'env': env, 'in_value': str(va), 'out_value': str(vb)}
    return None


def names_of(e, acc=None):
    acc = set() if acc is None else acc
    if isinstance(e, (pmbl.Sum, pmbl.Product)):
        for c in e.children:
            names_of(c, acc)
    elif isinstance(e, pmbl.Quotient):
        names_of(e.numerator, acc)
        names_of(e.denominator, acc)
    elif isinstance(e, pmbl.Power):
        names_of(e.base, acc)
        names_of(e.exponent, acc)
    elif hasattr(e, 'name') and not isinstance(e, (int, float)):
        acc.add(str(e.name).lower())
    return acc
