#!/usr/bin/env python3
"""Run the repository's pinned test suite (guard off) and compare with /root/.vp/BASELINE.json stable_pass.
usage: baseline_compare.py [junit.xml]   (runs the suite if no junit file is given)"""
import json, subprocess, sys, tempfile, os
import xml.etree.ElementTree as ET

base = json.load(open('/root/.vp/BASELINE.json'))
if len(sys.argv) > 1:
    xml = sys.argv[1]
else:
    xml = tempfile.mktemp(suffix='.xml', dir='/var/tmp')
    cmd = base['cmd'].replace('<file>', xml)
    subprocess.run(cmd, shell=True, stdout=subprocess.DEVNULL, stderr=subprocess.DEVNULL)
passed = set()
for tc in ET.parse(xml).getroot().iter('testcase'):
    if not any(ch.tag in ('failure', 'error', 'skipped') for ch in tc):
        passed.add('%s::%s' % (tc.get('classname'), tc.get('name')))
stable = set(base['stable_pass'])
missing = sorted(stable - passed)
print('stable_pass: %d, passed now: %d, stable tests not passing now: %d' % (len(stable), len(passed), len(missing)))
for m in missing[:40]:
    print('  MISSING', m)
sys.exit(1 if missing else 0)
