#!/bin/sh
# tools/confirm_seed.sh <seed-name> <property> : confirm a seeded change in a fresh scratch worktree:
#  demo exits 0 on the unmodified tree, 1 with the patch; the pinned stable tests all still pass with the patch.
N=$1; P=$2; S=/tmp/seed_$N; W=/tmp/confirm_$N
rm -rf $W; git -C /repo worktree prune; git -C /repo worktree add -q --detach $W HEAD || exit 3
cd $W
PYTHONPATH=$W /venv/bin/python $S/demo.py > $S/confirm_demo_before.txt 2>&1; B=$?
git apply $S/patch.diff || { echo "patch does not apply to HEAD"; exit 3; }
PYTHONPATH=$W /venv/bin/python $S/demo.py > $S/confirm_demo_after.txt 2>&1; A=$?
XML=/var/tmp/confirm_$N.xml
PYTHONPATH=$W /venv/bin/python -m pytest -ra -q -p no:cacheprovider --timeout=900 --continue-on-collection-errors --junitxml=$XML > /dev/null 2>&1
python3 /verif/tools/baseline_compare.py $XML > $S/confirm_suite.txt 2>&1; T=$?
echo "seed=$N property=$P demo_before_exit=$B demo_after_exit=$A stable_suite_ok=$T" | tee $S/confirm_summary.txt
cd /; git -C /repo worktree remove --force $W
