#!/usr/bin/env python3
"""Regenerate /verif/MANIFEST.json from the contract modules' META tables (python3-vt tools/gen_manifest.py)."""
import importlib, json, os, sys
ROOT = os.path.dirname(os.path.dirname(os.path.abspath(__file__)))
sys.path.insert(0, ROOT)
props = [json.loads(l) for l in open(os.path.join(ROOT, 'properties.jsonl'))]
na = json.load(open(os.path.join(ROOT, 'tools', 'na_reasons.json')))
claimed = json.load(open(os.path.join(ROOT, 'tools', 'claimed.json')))
checks, not_app = [], []
for p in props:
    pid = p['id']
    if pid in claimed:
        import ast
        tree = ast.parse(open(os.path.join(ROOT, 'contracts', pid + '.py')).read())
        meta = None
        for node in tree.body:
            if isinstance(node, ast.Assign) and any(isinstance(t, ast.Name) and t.id == 'META' for t in node.targets):
                meta = ast.literal_eval(node.value)
        assert meta is not None, 'no literal META in contracts/%s.py' % pid
        checks.append({
            'property_id': pid,
            'quick_cmd': './check %s --tier quick' % pid,
            'thorough_cmd': './check %s --tier thorough' % pid,
            'evidence_file': 'evidence/%s.json' % pid,
            'replay_cmd_template': './check %s --replay {path}' % pid,
            'engine': 'pyvc',
            'level_claimed': {'category': meta['category'], 'text': meta['level_text'],
                              'design_ref': meta.get('design_ref', 'DESIGN.md section 4 (%s)' % pid)},
            'level_note': meta['level_note'],
            'technique': meta['technique'],
        })
    else:
        not_app.append({'property_id': pid, 'reason': na.get(pid, claimed.get('_pending', {}).get(pid, 'see DESIGN.md section 4'))})
man = {
    'version': 1,
    'setup_cmd': 'python3-vt -c "import z3, sys; sys.path.insert(0, \'.\'); import pyvc.checker; print(\'pyvc ok, z3\', z3.get_version_string())"',
    'hooks': {'guard': 'LOKI_VERIF',
              'enable': 'no hooks: contracts are sidecars in /verif/contracts keyed by file::qualname; the real source is re-read from /repo on every run and nothing in /repo is instrumented',
              'baseline_off_cmd': 'cd /repo && /venv/bin/python -m pytest -ra -q -p no:cacheprovider --timeout=900 --continue-on-collection-errors',
              'source_commits': [], 'add_only': True},
    'engines': [{'name': 'pyvc', 'path': 'pyvc/', 'serves_properties': sorted(k for k in claimed if not k.startswith('_')),
                 'kind_free_text': 'contract-based deductive verifier for Python written for this task: re-extracts the real function source on every run, mechanical AST rewriting (loop cuts at sidecar invariants), symbolic execution under CPython with z3 proxies, callee = contract, every assertion a verification condition discharged by z3 (in process, then the z3 command line tool in a fresh process) or cvc5; counterexamples replayed natively under /venv/bin/python'}],
    'checks': checks,
    'notes': 'Contracts: /verif/contracts/Cxx.py; ledger of defects: /verif/known_findings.json; fix commits in /repo start with "fix:". Exit codes: 0 held, 1 VIOLATION, 2 UNDECIDED, 3 CHECKER-ERROR.',
    'not_applicable': not_app,
}
json.dump(man, open(os.path.join(ROOT, 'MANIFEST.json'), 'w'), indent=1)
print('checks:', [c['property_id'] for c in checks], 'n/a:', len(not_app))
