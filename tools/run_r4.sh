#!/bin/sh
# tools/run_r4.sh <property> : run the property's quick check against the round-4 changes (a1[, a2] breaking, b1/b2 harmless where
# present) in the agent's clean scratch worktree via LOKI_REPO (exploratory drill; recorded runs use tools/run_seed.sh on /repo)
P=$1; W=/tmp/wt_${P}r4; S=/tmp/seed_${P}r4
git -C $W checkout -q -- . ; git -C $W status --short | grep -v '^??' | head -3
for k in a1 a2 b1 b2; do
  [ -f $S/$k/patch.diff ] || continue
  git -C $W apply $S/$k/patch.diff || { echo "$P/$k: patch does not apply"; continue; }
  cd /verif && LOKI_REPO=$W timeout 3000 ./check $P --tier quick > /var/tmp/r4_${P}_$k.out 2>&1; rc=$?
  git -C $W checkout -q -- .
  echo "$P/$k exit $rc | $(grep -c '^VIOLATION' /var/tmp/r4_${P}_$k.out) violations | $(tail -1 /var/tmp/r4_${P}_$k.out | cut -c1-200)"
  grep "^VIOLATION\|^UNDECIDED\|^CHECKER" /var/tmp/r4_${P}_$k.out | cut -c1-300 | head -3
done
