#!/bin/sh
# tools/run_seed.sh <property> <patch.diff> : apply a seeded change to /repo, run the property's quick check, undo
P=$1; PATCH=$2
cd /repo || exit 3
git diff --quiet || { echo "repo not clean"; exit 3; }
git apply "$PATCH" || { echo "patch does not apply"; exit 3; }
cd /verif && timeout 3000 ./check "$P" --tier "${3:-quick}" > /var/tmp/seed_$P.out 2>&1; rc=$?
cd /repo && git checkout -- . 
echo "check $P on seeded tree: exit $rc"; grep -c "^VIOLATION" /var/tmp/seed_$P.out; grep "^VIOLATION\|^UNDECIDED\|^CHECKER" /var/tmp/seed_$P.out | cut -c1-260 | head -5; tail -1 /var/tmp/seed_$P.out
