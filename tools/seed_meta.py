#!/usr/bin/env python3
"""Write /verif/seeded/<id>/meta.json for every kept seeded change and print the markdown table used in DESIGN.md.
usage: python3 tools/seed_meta.py            (the table below is maintained by hand from the recorded runs)"""
import json
import os

ROOT = os.path.dirname(os.path.dirname(os.path.abspath(__file__)))
# id: (property, what the change is, what it needs to manifest, first run of the checks, obligation(s) that report it now)
SEEDS = {
    'C08_1': ('C08', 'SimplifyMapper.map_power folds negative integer exponents (2**(-2) -> 0.25)', 'a negative IntLiteral exponent, IntegerArithmetic without CollectCoefficients',
              'caught', 'SimplifyMapper.map_power[R]/post/value (deductive)'),
    'C08_2': ('C08', 'distribute_quotient leaks a nested denominator to later summands', 'a quotient as a non-last summand of another quotient\'s numerator, Flatten',
              'MISSED (shape is depth 3, outside the bounded scope of the time)', 'bounded/distribute_quotient[R], bounded/simplify[Flatten][R] after adding the structured depth-3 family'),
    'C09_1': ('C09', 'symbolic_op answers "negative" for any minus-prefixed residue', 'a single negated non-constant term as simplified difference (a < 2*a)',
              'caught, replayed', 'symbolic_op[le|gt|ge]/post/sound'),
    'C09_2': ('C09', 'symbolic_op skips simplification when the right-hand side is literally 0', 'an unsimplified -0 or n-n on the left and a literal 0 on the right',
              'caught (no-failing-input-found)', 'symbolic_op[lt|le|...]/post/sound'),
    'C10_1': ('C10', 'get_pyrange computes the trip count by truncating before adding the step', 'a zero-trip range with |step| >= 2 and a gap smaller than the step (do i=3,2,2)',
              'caught, replayed', 'get_pyrange[step]/post/count'),
    'C10_2': ('C10', 'LoopRange.num_iterations folds all-literal ranges with the upward-loop formula (new recursive helper)', 'all-literal bounds and a negative literal step',
              'reported for the wrong reason (AttributeError of the model) - corrected to exit 3 out-of-subset',
              'bounded/loop-range-helpers (native cross-check added to C10) + CHECKER-ERROR for the uncontracted helper'),
    'C12_1': ('C12', 'CaseInsensitiveDict.get returns `super().get(key) or default`', 'a present key holding a falsy value', 'caught', 'CaseInsensitiveDict.get[...]/post/result'),
    'C12_2': ('C12', 'SymbolTable lookup stops at an EMPTY parent table (`and self.parent`)', 'three scope levels with an empty middle table', 'caught, replayed',
              'SymbolTable.lookup[chain]/post/none-only-if-undeclared'),
    'C22_1': ('C22', 'ignored items leak into file-graph dispatch (_get_definition_items guard removed)', 'file-graph traversal, an ignored item sharing a file with an active one',
              'MISSED (function was named unverified)', 'Scheduler.process_transformation._get_definition_items[file graph]/inv#1/preserved/only-allowed-items; native/scheduler'),
    'C22_2': ('C22', 'plan-mode file dispatch passes the FILE\'s role and targets to plan_subroutine', 'file graph, recurse_to_procedures, PLAN strategy, a plan_subroutine that reads role/targets',
              'MISSED (function was named unverified)', 'Transformation.apply_file[plan vs transform, items=P...]/post/call#k-same-role (C22 and C24)'),
    'C23_1': ('C23', 'item-factory candidate filter compares the un-lowered look-up name', 'an unqualified USE import and an upper-case use site', 'MISSED',
              'ItemFactory.get_or_create_module_definitions_from_candidates/post/folded-name-selects-the-definition (added)'),
    'C23_2': ('C23', 'match_item_keys stops lower-casing plain keys', 'an ignore/block/disable entry with an upper-case letter, no pattern', 'caught (bounded stand-in, replayed)',
              'SchedulerConfig.match_item_keys[...]/post/same-number-of-matches'),
    'C26_1': ('C26', 'visit_Conditional passes the THEN branch\'s defines into the ELSE branch', 'a variable written in THEN and read in ELSE', 'caught, replayed',
              'DataflowAnalysisAttacher.visit_Conditional[*]/post/uses-cover-reads; native/visit_Conditional'),
    'C26_2': ('C26', 'visit_Associate back-mapping becomes case-sensitive', 'an associate name spelled with different case in the list and in the body', 'MISSED (rule was named unverified)',
              'DataflowAnalysisAttacher.visit_Associate[n association(s)]/post/every-write-is-reported-under-its-selector (added)'),
    'C27_1': ('C27', 'same edit as C26_1, observed through loop_carried_dependencies', 'a loop with IF/ELSE, variable written in IF and read in ELSE', 'MISSED by C27 (caught by C26)',
              'C27 now carries the C26 rule obligations; native/loop_carried_dependencies'),
    'C27_2': ('C27', 'FindReads.visit_Loop treats literal bounds start <= stop as "always executes", ignoring the stride', 'literal bounds, negative stride, body overwrites, read after the loop',
              'exit 3 (model lacks o.bounds.start)', 'native/FindReads.visit_Loop (corpus case added) + CHECKER-ERROR'),
    'C44_1': ('C44', 'get_dependency_graph: a visited guard wipes the wait list of re-queued objects', 'workers > 1, a chain of three levels listed dependents-first', 'caught (native harness)',
              'native/chain3|diamond|fan/workers=3; Builder.get_dependency_graph[all DAGs on n objects]/post/graph-and-wait-lists-match (added)'),
    'C44_2': ('C44', 'Obj.dependencies returns early for files without own USE, dropping header-derived modules', 'a file with no USE that includes a header using a module of the library', 'MISSED',
              'Obj.dependencies[...]/post/dependencies-are-own-uses-plus-modules-used-by-included-headers (added)'),
    'C24_1': ('C24', 'transform_file forwards the raw mode, plan_file sanitises it', 'a mode containing a hyphen (scc-hoist)', 'reported for the wrong reason (TypeError of the model wrapper) - corrected',
              'FileWriteTransformation.plan_file[vs transform_file[...]]/post/planned-path-is-written-path'),
    'C24_2': ('C24', 'the duplicate guard of CMakePlanTransformation.plan_file is "fixed" and now skips the bookkeeping', 'two files with the same base name written to one output_dir', 'caught, replayed',
              'CMakePlanTransformation.plan_file[*,lists-prefilled]/post/transform-count, remove-count'),
    'C13_1': ('C13', 'TypedSymbol.clone under a new name overwrites that name\'s recorded type', 'clone(name=other) without type= and scope=, other already declared', 'MISSED',
              'TypedSymbol.clone[rename ...]/post/existing-entry-of-the-new-name-not-overwritten (added)'),
    'C13_2': ('C13', 'a stale DEFERRED entry for a%b blocks the look-up through the parent typedef', 'a four-step history (declare, create member, update parent type, create again)', 'MISSED (tier was a stub)',
              'Variable._get_type_from_scope[a%b: scope entry deferred ...]/post/type-recorded-for-the-member (added)'),
    'C11_1': ('C11', 'literal kinds compared by their case-sensitive spelling', 'two kinded literals whose kind names differ only in case', 'caught', 'IntLiteral.__eq__[vs IntLiteral kinds=...]/post/hash-consistent, symmetric'),
    'C11_2': ('C11', 'Range hashed structurally, compared by text', 'a range built with a raw int and an equal one built with IntLiteral', 'caught (no-failing-input-found)', 'RangeIndex|LoopRange.__eq__[vs ...]/post/hash-consistent'),
    'C15_1': ('C15', 'greedy FindNodes returns as soon as the accumulator is non-empty', 'greedy mode, a second match nested inside a non-matching node after an earlier match', 'caught',
              'FindNodes.visit_Node[node,ret given]/post/returns-ret-plus-preorder-matches'),
    'C15_2': ('C15', 'LokiWalkMapper gets an own map_inline_call that skips keyword arguments', 'a variable occurring only inside a keyword argument of a call', 'exit 3 (new method not in the children table)',
              'LokiWalkMapper.map_inline_call/post/visits-exactly-the-structural-children (table extended)'),
    'C06_1': ('C06', 'rec_with_force_parens_around skips forced brackets when the text starts with ( and ends with )', 'a denominator / power base of the form (x)*(y)', 'MISSED (child texts were single markers)',
              'LokiStringifyMapper.map_quotient[...: Leaf , Product~]/post/text-denotes-the-node (bracketed child texts added)'),
    'C06_2': ('C06', 'CCodeMapper.map_power prints x**2 as x*x at product precedence', 'C back end, literal exponent 2, the power directly in a denominator', 'MISSED (C back end deduplicated away), then exit 3',
              'CCodeMapper.map_power[CCodeMapper: *, IntLiteral2]/post/top-level-as-promised'),
    'C03_1': ('C03', 'Source.invalidate becomes a no-op unless the status is VALID', 'a two-step edit history on one node', 'caught', 'Source.invalidate[initial status INVALID_*]/post/invalidate...'),
    'C03_2': ('C03', 'visit_Conditional finds the ELSE line with startswith("ELSE")', 'an edited IF/ELSE whose ELSE branch holds a nested IF with ELSE IF and no ELSE', 'MISSED (path was named unverified)',
              'FortranCodegenConservative.visit_Conditional[children invalid: nested ...]/post/else-keyword-line-is-an-ELSE (added, concrete cases)'),
    'C14_1': ('C14', 'a node mapped to a tuple containing itself no longer has its children visited', 'two mapper entries: node -> (x, node) and a descendant -> something', 'caught',
              'Transformer.visit_Node[tuple-with-self,n children]/post/every-child-visited-once-in-order'),
    'C14_2': ('C14', 'tuple injection uses stale positions for repeated nodes', 'a node occurring twice in one tuple, mapped to a tuple containing itself at position > 0', 'caught (bounded)',
              'bounded/Transformer._inject_tuple_mapping'),
    'C16_1': ('C16', 'PragmaAttacher attaches pragma_post although attach_pragma_post=False', 'the non-default flag, a pragma right after a loop followed by another node', 'caught',
              'PragmaAttacher.visit_tuple[... post=False]/post/pragmas-still-attached-after-detach'),
    'C16_2': ('C16', 'PragmaRegionDetacher gains visit_LeafNode returning the node', 'a pragma region inside a SELECT CASE branch', 'MISSED (region visitors were named unverified)',
              'PragmaRegionDetacher dispatch for MultiConditional/post/statements-inside-MultiConditional-are-visited (added)'),
}


def main():
    rows = []
    for sid, (prop, what, needs, first, now) in SEEDS.items():
        d = os.path.join(ROOT, 'seeded', sid)
        if not os.path.isdir(d):
            continue
        summ = ''
        p = os.path.join(d, 'confirm_summary.txt')
        if os.path.exists(p):
            summ = open(p).read().strip()
        meta = {'id': sid, 'property': prop, 'change': what, 'needs_to_manifest': needs,
                'confirmed': summ or 'see confirm_summary.txt',
                'ran': ['tools/confirm_seed.sh %s %s  (fresh worktree: demo exits 0 before / 1 after, pinned suite unchanged)' % (sid, prop),
                        'tools/run_seed.sh %s seeded/%s/patch.diff  (apply to /repo, ./check %s --tier quick, undo)' % (prop, sid, prop)],
                'first_run_of_the_checks': first, 'reported_now_by': now}
        json.dump(meta, open(os.path.join(d, 'meta.json'), 'w'), indent=1)
        rows.append('| %s | %s | %s | %s |' % (sid, what, first, now))
    print('| seed | change | first run | reported now by |\n|---|---|---|---|')
    print('\n'.join(rows))


if __name__ == '__main__':
    main()
