#!/usr/bin/env python3
"""Write /verif/seeded/<id>/meta.json for every kept seeded change and print the markdown table used in DESIGN.md.
usage: python3 tools/seed_meta.py            (the table below is maintained by hand from the recorded runs)"""
import json
import os

ROOT = os.path.dirname(os.path.dirname(os.path.abspath(__file__)))
# id: (property, what the change is, what it needs to manifest, first run of the checks, obligation(s) that report it now)
SEEDS = {
    'C08_1': ('C08', 'SimplifyMapper.map_power folds negative integer exponents (2**(-2) -> 0.25)', 'a negative IntLiteral exponent, IntegerArithmetic without CollectCoefficients',
              'caught', 'SimplifyMapper.map_power[R]/post/value (deductive)'),
    'C08_2': ('C08', 'distribute_quotient leaks a nested denominator to later summands', 'a quotient as a non-last summand of another quotient\'s numerator, Flatten',
              'MISSED (shape is depth 3, outside the bounded scope of the time)', 'bounded/distribute_quotient[R], bounded/simplify[Flatten][R] after adding the structured depth-3 family'),
    'C09_1': ('C09', 'symbolic_op answers "negative" for any minus-prefixed residue', 'a single negated non-constant term as simplified difference (a < 2*a)',
              'caught, replayed', 'symbolic_op[le|gt|ge]/post/sound'),
    'C09_2': ('C09', 'symbolic_op skips simplification when the right-hand side is literally 0', 'an unsimplified -0 or n-n on the left and a literal 0 on the right',
              'caught (no-failing-input-found)', 'symbolic_op[lt|le|...]/post/sound'),
    'C10_1': ('C10', 'get_pyrange computes the trip count by truncating before adding the step', 'a zero-trip range with |step| >= 2 and a gap smaller than the step (do i=3,2,2)',
              'caught, replayed', 'get_pyrange[step]/post/count'),
    'C10_2': ('C10', 'LoopRange.num_iterations folds all-literal ranges with the upward-loop formula (new recursive helper)', 'all-literal bounds and a negative literal step',
              'reported for the wrong reason (AttributeError of the model) - corrected to exit 3 out-of-subset',
              'bounded/loop-range-helpers (native cross-check added to C10) + CHECKER-ERROR for the uncontracted helper'),
    'C12_1': ('C12', 'CaseInsensitiveDict.get returns `super().get(key) or default`', 'a present key holding a falsy value', 'caught', 'CaseInsensitiveDict.get[...]/post/result'),
    'C12_2': ('C12', 'SymbolTable lookup stops at an EMPTY parent table (`and self.parent`)', 'three scope levels with an empty middle table', 'caught, replayed',
              'SymbolTable.lookup[chain]/post/none-only-if-undeclared'),
    'C22_1': ('C22', 'ignored items leak into file-graph dispatch (_get_definition_items guard removed)', 'file-graph traversal, an ignored item sharing a file with an active one',
              'MISSED (function was named unverified)', 'Scheduler.process_transformation._get_definition_items[file graph]/inv#1/preserved/only-allowed-items; native/scheduler'),
    'C22_2': ('C22', 'plan-mode file dispatch passes the FILE\'s role and targets to plan_subroutine', 'file graph, recurse_to_procedures, PLAN strategy, a plan_subroutine that reads role/targets',
              'MISSED (function was named unverified)', 'Transformation.apply_file[plan vs transform, items=P...]/post/call#k-same-role (C22 and C24)'),
    'C23_1': ('C23', 'item-factory candidate filter compares the un-lowered look-up name', 'an unqualified USE import and an upper-case use site', 'MISSED',
              'ItemFactory.get_or_create_module_definitions_from_candidates/post/folded-name-selects-the-definition (added)'),
    'C23_2': ('C23', 'match_item_keys stops lower-casing plain keys', 'an ignore/block/disable entry with an upper-case letter, no pattern', 'caught (bounded stand-in, replayed)',
              'SchedulerConfig.match_item_keys[...]/post/same-number-of-matches'),
    'C26_1': ('C26', 'visit_Conditional passes the THEN branch\'s defines into the ELSE branch', 'a variable written in THEN and read in ELSE', 'caught, replayed',
              'DataflowAnalysisAttacher.visit_Conditional[*]/post/uses-cover-reads; native/visit_Conditional'),
    'C26_2': ('C26', 'visit_Associate back-mapping becomes case-sensitive', 'an associate name spelled with different case in the list and in the body', 'MISSED (rule was named unverified)',
              'DataflowAnalysisAttacher.visit_Associate[n association(s)]/post/every-write-is-reported-under-its-selector (added)'),
    'C27_1': ('C27', 'same edit as C26_1, observed through loop_carried_dependencies', 'a loop with IF/ELSE, variable written in IF and read in ELSE', 'MISSED by C27 (caught by C26)',
              'C27 now carries the C26 rule obligations; native/loop_carried_dependencies'),
    'C27_2': ('C27', 'FindReads.visit_Loop treats literal bounds start <= stop as "always executes", ignoring the stride', 'literal bounds, negative stride, body overwrites, read after the loop',
              'exit 3 (model lacks o.bounds.start)', 'native/FindReads.visit_Loop (corpus case added) + CHECKER-ERROR'),
    'C44_1': ('C44', 'get_dependency_graph: a visited guard wipes the wait list of re-queued objects', 'workers > 1, a chain of three levels listed dependents-first', 'caught (native harness)',
              'native/chain3|diamond|fan/workers=3; Builder.get_dependency_graph[all DAGs on n objects]/post/graph-and-wait-lists-match (added)'),
    'C44_2': ('C44', 'Obj.dependencies returns early for files without own USE, dropping header-derived modules', 'a file with no USE that includes a header using a module of the library', 'MISSED',
              'Obj.dependencies[...]/post/dependencies-are-own-uses-plus-modules-used-by-included-headers (added)'),
    'C24_1': ('C24', 'transform_file forwards the raw mode, plan_file sanitises it', 'a mode containing a hyphen (scc-hoist)', 'reported for the wrong reason (TypeError of the model wrapper) - corrected',
              'FileWriteTransformation.plan_file[vs transform_file[...]]/post/planned-path-is-written-path'),
    'C24_2': ('C24', 'the duplicate guard of CMakePlanTransformation.plan_file is "fixed" and now skips the bookkeeping', 'two files with the same base name written to one output_dir', 'caught, replayed',
              'CMakePlanTransformation.plan_file[*,lists-prefilled]/post/transform-count, remove-count'),
    'C13_1': ('C13', 'TypedSymbol.clone under a new name overwrites that name\'s recorded type', 'clone(name=other) without type= and scope=, other already declared', 'MISSED',
              'TypedSymbol.clone[rename ...]/post/existing-entry-of-the-new-name-not-overwritten (added)'),
    'C13_2': ('C13', 'a stale DEFERRED entry for a%b blocks the look-up through the parent typedef', 'a four-step history (declare, create member, update parent type, create again)', 'MISSED (tier was a stub)',
              'Variable._get_type_from_scope[a%b: scope entry deferred ...]/post/type-recorded-for-the-member (added)'),
    'C11_1': ('C11', 'literal kinds compared by their case-sensitive spelling', 'two kinded literals whose kind names differ only in case', 'caught', 'IntLiteral.__eq__[vs IntLiteral kinds=...]/post/hash-consistent, symmetric'),
    'C11_2': ('C11', 'Range hashed structurally, compared by text', 'a range built with a raw int and an equal one built with IntLiteral', 'caught (no-failing-input-found)', 'RangeIndex|LoopRange.__eq__[vs ...]/post/hash-consistent'),
    'C15_1': ('C15', 'greedy FindNodes returns as soon as the accumulator is non-empty', 'greedy mode, a second match nested inside a non-matching node after an earlier match', 'caught',
              'FindNodes.visit_Node[node,ret given]/post/returns-ret-plus-preorder-matches'),
    'C15_2': ('C15', 'LokiWalkMapper gets an own map_inline_call that skips keyword arguments', 'a variable occurring only inside a keyword argument of a call', 'exit 3 (new method not in the children table)',
              'LokiWalkMapper.map_inline_call/post/visits-exactly-the-structural-children (table extended)'),
    'C06_1': ('C06', 'rec_with_force_parens_around skips forced brackets when the text starts with ( and ends with )', 'a denominator / power base of the form (x)*(y)', 'MISSED (child texts were single markers)',
              'LokiStringifyMapper.map_quotient[...: Leaf , Product~]/post/text-denotes-the-node (bracketed child texts added)'),
    'C06_2': ('C06', 'CCodeMapper.map_power prints x**2 as x*x at product precedence', 'C back end, literal exponent 2, the power directly in a denominator', 'MISSED (C back end deduplicated away), then exit 3',
              'CCodeMapper.map_power[CCodeMapper: *, IntLiteral2]/post/top-level-as-promised'),
    'C03_1': ('C03', 'Source.invalidate becomes a no-op unless the status is VALID', 'a two-step edit history on one node', 'caught', 'Source.invalidate[initial status INVALID_*]/post/invalidate...'),
    'C03_2': ('C03', 'visit_Conditional finds the ELSE line with startswith("ELSE")', 'an edited IF/ELSE whose ELSE branch holds a nested IF with ELSE IF and no ELSE', 'MISSED (path was named unverified)',
              'FortranCodegenConservative.visit_Conditional[children invalid: nested ...]/post/else-keyword-line-is-an-ELSE (added, concrete cases)'),
    'C14_1': ('C14', 'a node mapped to a tuple containing itself no longer has its children visited', 'two mapper entries: node -> (x, node) and a descendant -> something', 'caught',
              'Transformer.visit_Node[tuple-with-self,n children]/post/every-child-visited-once-in-order'),
    'C14_2': ('C14', 'tuple injection uses stale positions for repeated nodes', 'a node occurring twice in one tuple, mapped to a tuple containing itself at position > 0', 'caught (bounded)',
              'bounded/Transformer._inject_tuple_mapping'),
    'C16_1': ('C16', 'PragmaAttacher attaches pragma_post although attach_pragma_post=False', 'the non-default flag, a pragma right after a loop followed by another node', 'caught',
              'PragmaAttacher.visit_tuple[... post=False]/post/pragmas-still-attached-after-detach'),
    'C16_2': ('C16', 'PragmaRegionDetacher gains visit_LeafNode returning the node', 'a pragma region inside a SELECT CASE branch', 'MISSED (region visitors were named unverified)',
              'PragmaRegionDetacher dispatch for MultiConditional/post/statements-inside-MultiConditional-are-visited (added)'),
    # ---- round 3: one more breaking change per property, in a different function than the earlier two ----------------
    'C08_3': ('C08', 'distribute_product overwrites the saved denominators: (a/b)*(c/d) -> a*c / d', 'Flatten, two quotient factors of one product on the same level', 'caught',
              'bounded/distribute_product[R], bounded/flatten_expr[R], bounded/simplify[Flatten][R]'),
    'C09_3': ('C09', 'distribute_product takes the sign from count(-1) == 1 instead of the parity', 'an n-ary product with three sign-carrying factors (operator-built trees)', 'MISSED (C09 uses simplify through its C08 contract)',
              'bounded/symbolic_op (native cross-check added to C09); C08: bounded/distribute_product[R] (sign family added)'),
    'C10_3': ('C10', 'iteration_number strips the minus of a unary-minus step without reversing the numerator', 'a negative step in unary-minus form, an iteration after the first', 'caught',
              'bounded/loop-range-helpers + CHECKER-ERROR (new helper call without contract)'),
    'C12_3': ('C12', 'Scope.update decides "declared?" by a recursive lookup and inherits the outer attributes', 'nested scopes, a name declared only in an enclosing scope', 'MISSED (Scope methods were not under contract)',
              'Scope.update[...]/post/entry-is-the-local-entry-updated-or-a-new-one, updates-only-a-local-declaration-when-asked-to-fail (added, replayed)'),
    'C13_3': ('C13', 'Variable.__new__ regrouped: a deferred type with a recorded shape and no subscripts becomes DeferredTypeSymbol', 'BasicType.DEFERRED (falsy) with shape, no dimensions', 'caught',
              'Variable.__new__[type=...,dimensions=absent]/post/class-per-decision-table'),
    'C22_3': ('C22', '_populate_filegraph widens the item filter with _get_item_filter', 'file-graph traversal, a file holding only a type definition and a binding chain', 'MISSED',
              'native/scheduler (second project, files-visited clause added; bounded)'),
    'C23_3': ('C23', 'create_from_ir no longer lower-cases imported symbol names', 'USE mod, ONLY: My_Type, MY_FUNC with upper-case letters', 'MISSED',
              'native/case-permuted-project (added; bounded)'),
    'C24_3': ('C24', 'the CLI adds header directories to the search path only for a full parse (convert), not in plan mode', 'CLI entry point, a --header file outside every --source path, part of the call tree next to it', 'MISSED (CLI was named unverified)',
              'native/cli-plan-vs-convert (added; bounded)'),
    'C26_3': ('C26', 'visit_MaskedStatement visits the final ELSEWHERE body with the accumulated defines', 'WHERE with an un-masked ELSEWHERE reading an array written in an earlier branch', 'caught, replayed',
              'DataflowAnalysisAttacher.visit_MaskedStatement[*]/post/uses-cover-reads; native/visit_MaskedStatement'),
    'C27_3': ('C27', 'FindWrites.visit_Loop discards the induction variable even when inactive', 'a scalar assigned before the inspection point and reused later as a DO variable', 'caught (native corpus)',
              'native/FindReads.visit_Loop/35'),
    'C44_3': ('C44', '_build_objs skips waiting for dependencies that are not listed in the library', 'workers > 1, a Lib whose objs are a subset of the builder source tree', 'exit 3 (closure variable self unbound in the spec)',
              'Lib.build._build_objs[workers>1]/inv#2/preserved/waited (self bound to an arbitrary object list)'),
    'C11_3': ('C11', 'StrCompareMixin honours the case_sensitive marker of self only', 'two same-class symbols, exactly one built with case_sensitive=True, names differing in case', 'MISSED (instances had no such attribute)',
              '*.__eq__[vs *]/post/symmetric, hash-consistent (instances carry an arbitrary case_sensitive flag)'),
    'C14_3': ('C14', 'visit_Node / visit_ScopedNode treat "mapped to itself" like "not mapped" and descend', 'an identity entry {node: node} plus a mapped descendant', 'MISSED (no identity case)',
              'Transformer.visit_*[self,n children]/post/handle-is-not-recursed (case added)'),
    'C15_3': ('C15', 'ExpressionFinder.visit_VariableDeclaration searches only the first symbol\'s initialiser', 'a declaration of several symbols, a later one initialised with an expression', 'MISSED (ExpressionFinder was not under contract)',
              'ExpressionFinder.visit_VariableDeclaration[...]/post/returns-every-match-of-every-child-in-order (added, replayed)'),
    'C16_3': ('C16', 'pragmas_attached detaches the spec with detach_pragma_post=False', 'context manager, default post flag, a spec ending in a pragma after its last declaration', 'caught',
              'pragmas_attached[unit with spec ...]/post/same-node-type-and-post-flag'),
    'C03_3': ('C03', 'Transformer._rebuild drops the invalidated source clone in in-place mode', 'inplace=True with the conservative back end', 'MISSED (invalidation was delegated to C14, which did not state it)',
              'Transformer._rebuild[children ...]/post/source-invalidated-when-a-child-node-was-rebuilt (added to C14 and C03)'),
    'C06_3': ('C06', 'map_sum recurses into the leading term with PREC_SUM', 'a sum whose first child is a negated plain Sum', 'MISSED (negated children were leaves; no binding obligation for a sign)',
              'LokiStringifyMapper.map_sum[*: NegSum , *]/post/binds:operand of a sign must bind tighter than + -'),
}


def main():
    rows = []
    for sid, (prop, what, needs, first, now) in SEEDS.items():
        d = os.path.join(ROOT, 'seeded', sid)
        if not os.path.isdir(d):
            continue
        summ = ''
        p = os.path.join(d, 'confirm_summary.txt')
        if os.path.exists(p):
            summ = open(p).read().strip()
        meta = {'id': sid, 'property': prop, 'change': what, 'needs_to_manifest': needs,
                'confirmed': summ or 'see confirm_summary.txt',
                'ran': ['tools/confirm_seed.sh %s %s  (fresh worktree: demo exits 0 before / 1 after, pinned suite unchanged)' % (sid, prop),
                        'tools/run_seed.sh %s seeded/%s/patch.diff  (apply to /repo, ./check %s --tier quick, undo)' % (prop, sid, prop)],
                'first_run_of_the_checks': first, 'reported_now_by': now}
        json.dump(meta, open(os.path.join(d, 'meta.json'), 'w'), indent=1)
        rows.append('| %s | %s | %s | %s |' % (sid, what, first, now))
    print('| seed | change | first run | reported now by |\n|---|---|---|---|')
    print('\n'.join(rows))


if __name__ == '__main__':
    main()
