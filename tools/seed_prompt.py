#!/usr/bin/env python3
"""print the prompt given to an independent seeding sub-agent for property <id> (only the property text + a scratch worktree)"""
import json, sys
pid = sys.argv[1]
n = sys.argv[2] if len(sys.argv) > 2 else '2'
p = [json.loads(l) for l in open('/verif/properties.jsonl') if json.loads(l)['id'] == pid][0]
print(f"""You are helping to evaluate how well a project's quality checks detect subtle regressions. The project is ecmwf-ifs/loki (a Python source-to-source compiler for Fortran). You have your own scratch git worktree of it at /tmp/wt_{pid} (detached HEAD). Work ONLY inside /tmp/wt_{pid} and /tmp/seed_{pid}; never touch /repo or /verif (do not even read /verif).

Here is a semantic property of loki that should always hold:

{json.dumps(p, indent=1)}

Task: produce {n} DIFFERENT, independent realistic changes (as a maintainer might plausibly make by mistake during a refactor/optimisation/bug-fix) to the loki source code under /tmp/wt_{pid}/loki that each BREAK this property, while the code still imports and the existing test suite still passes. Each change must need something specific to manifest (an unusual input, a particular corner case such as negative/zero values, mixed letter case, a multi-step sequence of operations, a specific flag combination, or two cooperating sites that each look fine alone) - NOT something that ordinary use or the existing tests would expose at once. Keep each change small (a few lines), inside the functions the property is anchored in (or their direct helpers). Do not change tests.

For each change k = 1..{n} write into /tmp/seed_{pid}/k/ :
  - patch.diff : `git diff` of the change relative to the worktree HEAD (must apply with `git apply` on a clean checkout of HEAD)
  - demo.py : a small standalone program run as `cd <tree> && PYTHONPATH=<tree> /venv/bin/python demo.py` that exits 0 on the unmodified tree and exits 1 (printing what went wrong) with the change applied. It must demonstrate a violation of the PROPERTY (wrong observable behaviour), not merely detect that the text changed.
  - notes.md : what the change is, what is needed for it to manifest, why existing tests do not catch it.

How to run things: `cd /tmp/wt_{pid} && PYTHONPATH=/tmp/wt_{pid} /venv/bin/python ...` (check `import loki; loki.__file__` points into the worktree). The full pinned test suite command is
  cd /tmp/wt_{pid} && PYTHONPATH=/tmp/wt_{pid} /venv/bin/python -m pytest -ra -q -p no:cacheprovider --timeout=900 --continue-on-collection-errors -n 4
(takes several minutes; run the test files relevant to the touched module first, and the full suite once per change before you finish; compare failures with a run on the unmodified tree - some tests may fail or be skipped on the unmodified tree already, only NEW failures count). There is no network. Do NOT use `git stash` (the stash is shared by all worktrees of the repository and other people work in sibling worktrees); keep copies with `git diff > file` instead. Between changes reset the worktree with `git -C /tmp/wt_{pid} checkout -- .` . When done, leave the worktree clean (checkout -- .) and report, for each change, a one-paragraph summary and the confirmation results (demo exit codes before/after, new test failures = none).""")
