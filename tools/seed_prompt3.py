#!/usr/bin/env python3
"""print the prompt of a third-round seeding sub-agent for property <id>: one more breaking change (different from the
earlier ones, which are named by one line each) and two behaviour-preserving edits (false-alarm drill).
The agent gets only the property text and a scratch worktree; nothing from /verif."""
import json, sys
sys.path.insert(0, '/verif/tools')
from seed_meta import SEEDS
pid = sys.argv[1]
p = [json.loads(l) for l in open('/verif/properties.jsonl') if json.loads(l)['id'] == pid][0]
earlier = '\n'.join('  - ' + v[1] for k, v in SEEDS.items() if v[0] == pid)
W = f'/tmp/wt_{pid}r3'
S = f'/tmp/seed_{pid}r3'
print(f"""You are helping to evaluate how well a project's quality checks detect subtle regressions and how well they tolerate harmless edits. The project is ecmwf-ifs/loki (a Python source-to-source compiler for Fortran). You have your own scratch git worktree of it at {W} (detached HEAD). Work ONLY inside {W} and {S}; never touch /repo or /verif (do not even read /verif).

Here is a semantic property of loki that should always hold:

{json.dumps(p, indent=1)}

PART A - one breaking change. Produce ONE realistic change (as a maintainer might plausibly make by mistake during a refactor/optimisation/bug-fix) to the loki source code under {W}/loki that BREAKS this property, while the code still imports and the existing test suite still passes. It must need something specific to manifest (an unusual input, a corner case such as negative/zero values, mixed letter case, a multi-step sequence of operations, a specific flag combination, or two cooperating sites that each look fine alone) - NOT something ordinary use or the existing tests would expose at once. Keep it small (a few lines), inside the functions the property is anchored in or their direct helpers - and in a DIFFERENT function or code path than these earlier changes, which were already tried:
{earlier}
Write into {S}/a/ :
  - patch.diff : `git diff` relative to the worktree HEAD (must apply with `git apply` on a clean checkout of HEAD)
  - demo.py : a small standalone program run as `cd <tree> && PYTHONPATH=<tree> /venv/bin/python demo.py` that exits 0 on the unmodified tree and exits 1 (printing what went wrong) with the change applied. It must demonstrate a violation of the PROPERTY (wrong observable behaviour), not merely detect that the text changed.
  - notes.md : what the change is, what is needed for it to manifest, why existing tests do not catch it.

PART B - two harmless edits. Produce TWO different, independent, realistic edits to the same area of the code (the functions the property is anchored in) that a maintainer might make and that do NOT change behaviour at all, for any input: e.g. renaming local variables, reordering independent statements, adding a log/debug line or a comment, rewriting a condition or an expression into an equivalent form, hoisting a repeated sub-expression into a local, replacing `if not x: return a` / `return b` by an if/else, adding type hints, an early `continue` instead of a nested if. Each edit should touch 3-15 lines in one or two functions. Do not introduce new helper functions or new loops. They must be strictly semantics-preserving (including for None/empty/mixed-case inputs and exceptions raised).
Write into {S}/b1/ and {S}/b2/ : patch.diff (as above) and notes.md (what was edited and why it cannot change behaviour).

How to run things: `cd {W} && PYTHONPATH={W} /venv/bin/python ...` (check `import loki; loki.__file__` points into the worktree). The full pinned test suite command is
  cd {W} && PYTHONPATH={W} /venv/bin/python -m pytest -ra -q -p no:cacheprovider --timeout=900 --continue-on-collection-errors -n 4
(takes several minutes; the machine is shared, so run the test files relevant to the touched module first; run the full suite ONCE for the part-A change before you finish and compare failures with the list of tests that fail on the unmodified tree - only NEW failures count; for the part-B edits the relevant test files are enough). There is no network. Do NOT use `git stash` (shared by all worktrees; other people work in sibling worktrees); keep copies with `git diff > file`. Between changes reset the worktree with `git -C {W} checkout -- .` . When done, leave the worktree clean (checkout -- .) and report a one-paragraph summary per change with the confirmation results.""")
