#!/usr/bin/env python3
"""prompt of a fourth-round seeding sub-agent for property <id>: breaking changes in functions not touched by the earlier
rounds (named by one line each); for a property without earlier seeds (C21) also two harmless edits."""
import json, sys
sys.path.insert(0, '/verif/tools')
from seed_meta import SEEDS
pid = sys.argv[1]
p = [json.loads(l) for l in open('/verif/properties.jsonl') if json.loads(l)['id'] == pid][0]
earlier = '\n'.join('  - ' + v[1] for k, v in SEEDS.items() if v[0] == pid) or '  (none yet)'
first = not any(v[0] == pid for v in SEEDS.values())
nA = 2 if first else 1
W = f'/tmp/wt_{pid}r4'
S = f'/tmp/seed_{pid}r4'
partB = f"""
PART B - two harmless edits. Produce TWO different, independent, realistic edits to the same area of the code (the functions the property is anchored in) that a maintainer might make and that do NOT change behaviour at all, for any input: e.g. renaming local variables, reordering independent statements, adding a log/debug line or a comment, rewriting a condition or an expression into an equivalent form, hoisting a repeated sub-expression into a local, an early `continue` instead of a nested if. Each edit should touch 3-15 lines in one or two functions. Do not introduce new helper functions or new loops. They must be strictly semantics-preserving.
Write into {S}/b1/ and {S}/b2/ : patch.diff (as above) and notes.md (what was edited and why it cannot change behaviour).
""" if first else ''
dirs = ' and '.join(f'{S}/a{k}/' for k in range(1, nA + 1)) if nA > 1 else f'{S}/a1/'
print(f"""You are helping to evaluate how well a project's quality checks detect subtle regressions. The project is ecmwf-ifs/loki (a Python source-to-source compiler for Fortran). You have your own scratch git worktree of it at {W} (detached HEAD). Work ONLY inside {W} and {S}; never touch /repo or /verif (do not even read /verif).

Here is a semantic property of loki that should always hold:

{json.dumps(p, indent=1)}

PART A - {'two different, independent breaking changes' if nA > 1 else 'one breaking change'}. Produce {'TWO realistic changes' if nA > 1 else 'ONE realistic change'} (as a maintainer might plausibly make by mistake during a refactor/optimisation/bug-fix) to the loki source code under {W}/loki that {'each BREAK' if nA > 1 else 'BREAKS'} this property, while the code still imports and the existing test suite still passes. It must need something specific to manifest (an unusual input, a corner case such as negative/zero values, mixed letter case, a multi-step sequence of operations, a specific flag combination, or two cooperating sites that each look fine alone) - NOT something ordinary use or the existing tests would expose at once. Keep it small (a few lines), inside the functions the property is anchored in or their direct helpers - and in a DIFFERENT function or code path than these earlier changes, which were already tried:
{earlier}
Write into {dirs} :
  - patch.diff : `git diff` relative to the worktree HEAD (must apply with `git apply` on a clean checkout of HEAD)
  - demo.py : a small standalone program run as `cd <tree> && PYTHONPATH=<tree> /venv/bin/python demo.py` that exits 0 on the unmodified tree and exits 1 (printing what went wrong) with the change applied. It must demonstrate a violation of the PROPERTY (wrong observable behaviour), not merely detect that the text changed.
  - notes.md : what the change is, what is needed for it to manifest, why existing tests do not catch it.
{partB}
How to run things: `cd {W} && PYTHONPATH={W} /venv/bin/python ...` (check `import loki; loki.__file__` points into the worktree). The full pinned test suite command is
  cd {W} && PYTHONPATH={W} /venv/bin/python -m pytest -ra -q -p no:cacheprovider --timeout=900 --continue-on-collection-errors -n 4
(takes several minutes; the machine is shared, so run the test files relevant to the touched module first; run the full suite ONCE per part-A change before you finish. On the unmodified tree the suite gives 1947 passed, 162 failed, 37 errors (missing meson / network in this sandbox) - the same three numbers with your change mean no new failures; if they differ, compare the failing ids). There is no network. Do NOT use `git stash` (shared by all worktrees; other people work in sibling worktrees); keep copies with `git diff > file`. Between changes reset the worktree with `git -C {W} checkout -- .` . When done, leave the worktree clean (checkout -- .) and report a one-paragraph summary per change with the confirmation results.""")
